"""C16 — generators never panic on valid worlds: every acknowledged gap is declared unsupported or unreachable."""
import os
import re

from lib import facts, mir, synq
from lib.mir import AnchorMissing
from lib.synq import render

CLAIM = dict(
    level="other", engine="synfacts+mirfacts", design="DESIGN.md §5 C16",
    technique="syntax-tree inventory of todo!/unimplemented! sites keyed by (crate, function, arm heads); residual "
              "variant sets of wildcard arms; abstract evaluation of crates/test/src/<lang>.rs::should_fail_verify; "
              "emitters table of abi.rs joined with the abi:: entry points and (AbiVariant, LiftLower) pairs each "
              "backend passes; explicit allow-list of structurally unreachable sites",
    text="Decides that every acknowledged gap (todo!/unimplemented!, incl. wildcard arms ending in one) of core and "
         "the eight backends is triggered only by a WIT feature the backend's should_fail_verify declares unsupported, "
         "or is structurally unreachable (allow-list, one verified reason each); core's type dispatchers diverge only "
         "for impossible kinds. Partial: panics from unwrap, indexing, assert!, other panic!/unreachable! sites and "
         "value-dependent failures are not decided.",
    note="syn")

ABI = "crates/core/src/abi.rs"
CORE_LIB = "crates/core/src/lib.rs"
CRATES = ["core", "rust", "c", "cpp", "csharp", "go", "moonbit", "d", "markdown"]
BACKENDS = CRATES[1:]
TEST_LANGS = ["rust", "c", "cpp", "csharp", "go", "moonbit", "d"]  # crates/test/src/<lang>.rs; markdown has none
GAPS = ("todo", "unimplemented")
DIVERGE = ("todo", "unimplemented", "panic", "unreachable")

# number of sites confirmed by reading the tree (2026-09, after the fix: commits 7939b17 markdown and a81c056
# Generator::deallocate): floors
FLOOR_TOTAL = 135
FLOOR_CRATE = {"core": 7, "rust": 3, "c": 21, "cpp": 47, "csharp": 11, "go": 9, "moonbit": 8, "d": 29, "markdown": 0}

# ------------------------------------------------------------------------------------------------ features
# A *feature* is what a should_fail_verify exclusion can declare.  `probe` is the (test name, async flag,
# error-context flag) that the test harness would pass for the codegen test exercising the feature; a backend
# declares the feature unsupported iff should_fail_verify evaluates to true on the probe.  `token` must occur in
# the probe's WIT file (corpus sanity).  `fll` (a fixed-length list in any position, e.g. anonymous in a
# parameter) has no codegen test of its own: it is declared through `fll-named` (see IMPLIED_BY).
FEATURES = {
    "async": dict(probe=("futures.wit", True, False), token=r"future<",
                  what="component-model async proposal (future/stream types, async functions)"),
    "error-context": dict(probe=("error-context.wit", True, True), token=r"error-context",
                          what="the error-context type (every test with error-context=true is also async=true)"),
    "map": dict(probe=("map.wit", False, False), token=r"map<", what="map<K, V> types"),
    "fll-named": dict(probe=("named-fixed-length-list.wit", False, False), token=r"type\s+[\w-]+\s*=\s*list<[^>]*,\s*\d+>",
                      what="a *named* fixed-length list type (`type t = list<T, N>`)"),
    "async-import-indirect-params": dict(probe=("async-resource-func.wit", True, False), token=r"async func",
                                         what="an async import whose flattened parameters exceed 4 (passed indirectly)"),
    "fll": dict(probe=None, token=None,
                what="a fixed-length list in any position, incl. anonymous `list<T, N>` (no codegen test of its own)"),
    # conjunctive: a fixed-length list in bindings generated with --async.  The probe is the `async` *variant* of the
    # only fixed-length-list test ("Named fixed-length lists don't work with async yet.")
    "fll+async": dict(probe=("named-fixed-length-list.wit-async", True, False), file="named-fixed-length-list.wit",
                      variant="async", token=r"list<[^>]*,\s*\d+>",
                      what="a fixed-length list in async bindings (async import parameter lowering)"),
}
# feature implied by the declaration of another (a backend that declares the right-hand side unsupported declares the
# left-hand side too).
#  * fll <= fll-named: tests/codegen/named-fixed-length-list.wit is the ONLY codegen test that contains a fixed-length
#    list, so a backend excluding it declares fixed-length lists unsupported as a whole, named or anonymous
#    (coordinator's reading of the repository's declarations; checked on every run: no other codegen test has one).
#  * fll+async <= fll, async: the conjunction is covered by either conjunct.
IMPLIED_BY = {"async-import-indirect-params": ["async"], "error-context": [], "fll": [], "fll+async": ["fll", "async"]}


def feature_of_variant(name):
    """WIT feature named by an enum variant (TypeDefKind / Type / Instruction / FunctionKind / AbiVariant)."""
    if name.startswith("ErrorContext"):
        return "error-context"
    if name.startswith("FixedLengthList"):
        return "fll"
    if name.startswith("Map") or name in ("IterMapKey", "IterMapValue", "GuestDeallocateMap"):
        return "map"
    if name.startswith(("Future", "Stream", "Async")) or name.endswith(("Async", "AsyncStackful")):
        return "async"
    return None


# ------------------------------------------------------------------------------------------------ explicit tables
# keyed WITHOUT line numbers: (crate, function, context) where context is the chain of enclosing match-arm heads
# ("a|b > c"), or "body" when the macro is not inside a match arm.

# sites whose arm heads do not name the feature: feature list given by hand (each was read)
SITE_FEATURES = {
    ("c", "InterfaceGenerator::type_fixed_length_list", "body"): ["fll-named"],
    ("c", "InterfaceGenerator::anonymous_type_fixed_length_list", "body"): ["fll"],
    ("cpp", "CppInterfaceGenerator::type_fixed_length_list", "body"): ["fll-named"],
    ("cpp", "CppInterfaceGenerator::type_future", "body"): ["async"],
    ("cpp", "CppInterfaceGenerator::type_stream", "body"): ["async"],
    # define_type walks the *named* types of an interface
    ("cpp", "CppInterfaceGenerator::define_type", "TypeDefKind::FixedLengthList"): ["fll-named"],
    # (false, flavor): every pair whose flavor carries GuestImport/GuestExport, InStruct or BorrowedArgument has an
    # arm; the residual is Argument/Result with an async AbiVariant
    ("cpp", "CppInterfaceGenerator::type_name", "Type::Id > TypeDefKind::Handle > (_, _)"): ["async"],
    ("csharp", "InterfaceGenerator::type_fixed_length_list", "body"): ["fll-named"],
    # `if sig.indirect_params { todo!(..) }` inside `if async_` (GuestImportAsync signature)
    ("csharp", "InterfaceGenerator::gen_import_src", "body"): ["async-import-indirect-params"],
    ("d", "DInterfaceGenerator::type_map", "body"): ["map"],
    ("d", "DInterfaceGenerator::type_future", "body"): ["async"],
    ("d", "DInterfaceGenerator::type_stream", "body"): ["async"],
    # `if *async_ { todo!("CallInterface async") }`
    ("d", "FunctionBindgen::emit", "abi::Instruction::CallInterface"): ["async"],
}

# sites triggered by something that is neither declared nor unreachable, which the arm heads cannot express
NAMED_HANDLE = ("a named handle type (`type h = borrow<r>;` / `own<r>` in an interface) is valid WIT and reaches this arm; "
                "nothing declares it unsupported")
SITE_CORE = {
    ("cpp", "CppInterfaceGenerator::define_type", "TypeDefKind::Handle"): NAMED_HANDLE,
    ("go", "Go::type_name", "Type::Id > TypeDefKind::Tuple"):
        "a tuple with more than 16 elements (`if count > 16 { todo!(..) }`) — valid WIT, not declared unsupported",
}

# ALLOW-LIST: structurally unreachable sites.  value = (reason, verifier name or None for 'verified by reading').
VALUE_POS = ("wit-parser rewrites every value-position reference that resolves to a resource into an anonymous "
             "own<T> handle (Remap::update_ty), so this type walk never sees TypeDefKind::Resource")
MULTI = "wasm_signature returns at most MAX_FLAT_RESULTS = 1 core results, so results.len() is 0 or 1"
RET_AMT = ("abi.rs builds Instruction::Return with amt = usize::from(result.is_some()), sig.results.len() (<= 1) or 0, "
           "so amt is 0 or 1")
NO_WORLD_RES = ("wit-parser never puts a type into World::exports ('exported types not allowed at this time'), so an "
                "exported resource always belongs to an interface")
DEAD_BUILTIN = "InterfaceGenerator::type_builtin has no caller in the workspace (define_type dispatches Type(_) to type_alias)"
FLAGS32 = ("a valid component has 1..=32 flags (wasmparser: 'flags must have at least one entry', 'cannot have more "
           "than 32 flags'), so Flags::repr() is U8, U16 or U32(1)")
NAMED_KINDS = ("records, resources, flags, enums and variants always carry a name in WIT and the function returns early "
               "for named types (`if let Some(name) = &ty.name { return .. }`)")
ANON_TYPE = ("wit-parser's anon_type_def returns the aliased type for TypeDefKind::Type instead of allocating an anonymous "
             "typedef, so no anonymous typedef has kind Type")
ONE_RESULT = "abi.rs closes the block consumed by this instruction with finish_block(1): exactly one block result"
TWO_RESULTS = "abi.rs closes the MapLift block with finish_block(2): key and value"
ASYNC_STATUS = ("only called (via emit_allocation_for_type) with the results of wasm_signature(GuestImportAsync), which are "
                "always the single I32 status code")
ALIGN = ("every caller passes a canonical-ABI alignment (`.align_wasm32()`, or the maximum of such), which is 1, 2, 4 or 8")
HOST_OS = ("depends on the host OS of the csproj helper (`std::env::consts::OS`), not on the world; CSProject is only "
           "used by the test harness, never by the bindings generator")
OPTION = ("selected only by the non-default generator option --string-encoding compact-utf16 (the property quantifies "
          "over worlds, not options)")
LITERALS = "every call passes one of the string literals that have an arm"
RES = "oracle_max_flat_results+scrut~results"
BR = "+scrut~block_results"
FL = "oracle_flags32+scrut~flags\\.repr\\(\\)"
ALLOW = {
    ("core", "Generator::lower", "Type::Id > TypeDefKind::Resource"): (VALUE_POS, "oracle_own"),
    ("core", "Generator::lift", "Type::Id > TypeDefKind::Resource"): (VALUE_POS, "oracle_own"),
    ("core", "Generator::write_to_memory", "Type::Id > TypeDefKind::Resource"): (VALUE_POS, "oracle_own"),
    ("core", "Generator::read_from_memory", "Type::Id > TypeDefKind::Resource"): (VALUE_POS, "oracle_own"),
    ("c", "Return::return_single", "TypeDefKind::Resource"): (VALUE_POS, "oracle_own"),
    ("c", "is_arg_by_pointer", "Type::Id > TypeDefKind::Resource"): (VALUE_POS, "oracle_own"),
    ("c", "push_ty_name", "Type::Id > TypeDefKind::Record|TypeDefKind::Resource|TypeDefKind::Flags|TypeDefKind::Enum|"
                          "TypeDefKind::Variant"): (NAMED_KINDS, "early_return_on_name"),
    ("c", "InterfaceGenerator::anonymous_type_type", "body"): (ANON_TYPE, "oracle_anon_type"),
    ("c", "InterfaceGenerator::type_resource", "None"): (NO_WORLD_RES, "oracle_no_world_export_types"),
    ("rust", "InterfaceGenerator::type_resource", "Identifier::World"): (NO_WORLD_RES, "oracle_no_world_export_types"),
    ("d", "DInterfaceGenerator::type_resource", "Some > TypeOwner::World"): (NO_WORLD_RES, "oracle_no_world_export_types"),
    ("c", "InterfaceGenerator::import", "_"): (MULTI, RES),
    ("c", "InterfaceGenerator::export", "_"): (MULTI, RES),
    ("c", "FunctionBindgen::emit", "Instruction::CallWasm > _"): (MULTI, RES),
    ("d", "DInterfaceGenerator::import_func", "_"): (MULTI, RES),
    ("d", "DInterfaceGenerator::export_func", "_"): (MULTI, RES),
    ("moonbit", "InterfaceGenerator::import", "_"): (MULTI, RES),
    ("rust", "InterfaceGenerator::print_export_sig", "_"): (MULTI, RES),
    ("cpp", "FunctionBindgen::emit", "abi::Instruction::Return > _"): (RET_AMT, "return_amt+scrut~^amt$"),
    ("d", "FunctionBindgen::emit", "abi::Instruction::Return > _"): (RET_AMT, "return_amt+scrut~^amt$"),
    ("cpp", "CppInterfaceGenerator::type_builtin", "body"): (DEAD_BUILTIN, "no_caller_type_builtin"),
    ("csharp", "InterfaceGenerator::type_builtin", "body"): (DEAD_BUILTIN, "no_caller_type_builtin"),
    ("d", "DInterfaceGenerator::type_builtin", "body"): (DEAD_BUILTIN, "no_caller_type_builtin"),
    ("go", "InterfaceGenerator::type_builtin", "body"): (DEAD_BUILTIN, "no_caller_type_builtin"),
    ("moonbit", "InterfaceGenerator::type_builtin", "body"): (DEAD_BUILTIN, "no_caller_type_builtin"),
    ("csharp", "FunctionBindgen::emit", "Instruction::ListLift > _"): (ONE_RESULT, "block_results:ListLift:1" + BR),
    ("moonbit", "FunctionBindgen::emit", "Instruction::ListLift > _"): (ONE_RESULT, "block_results:ListLift:1" + BR),
    ("moonbit", "FunctionBindgen::emit", "Instruction::FixedLengthListLiftFromMemory > _"):
        (ONE_RESULT, "block_results:FixedLengthListLiftFromMemory:1" + BR),
    ("moonbit", "FunctionBindgen::emit", "Instruction::MapLift > _"): (TWO_RESULTS, "block_results:MapLift:2" + BR),
    ("csharp", "FunctionBindgen::get_size_for_type", "_"): (ASYNC_STATUS, "csharp_alloc_results"),
    ("csharp", "FunctionBindgen::get_align_for_type", "_"): (ASYNC_STATUS, "csharp_alloc_results"),
    ("csharp", "dotnet_aligned_array", "_"): (ALIGN, "scrut~^required_alignment$"),
    ("csharp", "CSProjectLLVMBuilder::generate", "_"): (HOST_OS, "scrutinee:std::env::consts::OS+csproj_only_tests"),
    ("c", "C::finish", "StringEncoding::CompactUTF16"): (OPTION, "scrutinee:self.opts.string_encoding"),
    ("go", "remote_pkg", "_"): (LITERALS, "literal_domain:remote_pkg"),
    ("d", "DInterfaceGenerator::type_flags", "FlagsRepr::_"): (FLAGS32, FL),
    ("d", "FunctionBindgen::emit", "abi::Instruction::FlagsLower > FlagsRepr::_"): (FLAGS32, FL),
    ("d", "FunctionBindgen::emit", "abi::Instruction::FlagsLift > FlagsRepr::_"): (FLAGS32, FL),
}
UNKNOWN = ("TypeDefKind::Unknown only exists while a package is being resolved (wit-parser panics 'unknown type "
           "after defined type' / unreachable!() in update_typedef); a completed Resolve has none")


# ================================================================================================ inventory
class Level:
    def __init__(self, m, arm):
        self.match = m
        self.arm = synq.Arm(arm)
        self.heads = self.arm.heads


def level_ctx(level, enums):
    """arm heads of one level; a catch-all over a known enum is written `Enum::_`"""
    hs = []
    for h in level.heads:
        if h == "_":
            r = residual(level, enums)
            h = f"{r[0]}::_" if r else "_"
        hs.append(h)
    return "|".join(hs)


class Site:
    def __init__(self, crate, file, fnq, chain, node, enums):
        self.crate, self.file, self.fn, self.chain, self.node = crate, file, fnq, chain, node
        self.ctx = " > ".join(level_ctx(l, enums) for l in chain) if chain else "body"
        self.n = 1

    @property
    def key3(self):
        return (self.crate, self.fn, self.ctx)

    @property
    def key(self):
        return f"{self.crate}:{self.fn}:{self.ctx}" + (f"#{self.n}" if self.n > 1 else "")

    def loc(self):
        return f"{self.file}:{synq.line(self.node)}"


def crate_files(crate):
    pre = f"crates/{crate}/src/"
    return sorted(r for r in synq.files() if r.startswith(pre))


def visit(n, cx, pred, out):
    """Walk items/expressions keeping (self type, fn path, chain of enclosing match arms)."""
    if isinstance(n, list):
        for x in n:
            visit(x, cx, pred, out)
        return
    if not isinstance(n, dict):
        return
    k = n.get("k")
    if k == "fn":
        if n.get("body") is not None:
            visit(n["body"], dict(cx, fn=cx["fn"] + [n["sig"]["name"]], chain=[], fnnode=n), pred, out)
        return
    if k == "impl":
        visit(n["items"], dict(cx, self_ty=synq.base_name(n["self_ty"]), fn=[]), pred, out)
        return
    if k == "trait":
        visit(n["items"], dict(cx, self_ty=n["name"], fn=[]), pred, out)
        return
    if k == "match":
        visit(n["scrut"], cx, pred, out)
        for a in n["arms"]:
            ncx = dict(cx, chain=cx["chain"] + [Level(n, a)])
            if a.get("guard"):
                visit(a["guard"], ncx, pred, out)
            visit(a["body"], ncx, pred, out)
        return
    if pred(n):
        out.append((cx, n))
    for v in n.values():
        if isinstance(v, (dict, list)):
            visit(v, cx, pred, out)


def fnq(cx):
    return (cx["self_ty"] + "::" if cx.get("self_ty") else "") + "/".join(cx["fn"])


def find_nodes(rel, pred):
    out = []
    visit(synq.load(rel).get("items"), dict(file=rel, fn=[], self_ty=None, chain=[], fnnode=None), pred, out)
    return out


def inventory(enums):
    sites = []
    for crate in CRATES:
        seen = {}
        for rel in crate_files(crate):
            for cx, n in find_nodes(rel, lambda n: n.get("k") == "macro" and synq.short(n["name"]) in GAPS):
                if not cx["fn"]:
                    continue
                s = Site(crate, rel, fnq(cx), cx["chain"], n, enums)
                seen[s.key3] = seen.get(s.key3, 0) + 1
                s.n = seen[s.key3]
                sites.append(s)
    return sites


# ================================================================================================ enum oracles
class Enums:
    def __init__(self):
        d = facts.registry_src("wit-parser")
        if d is None:
            raise AnchorMissing("wit-parser source not found in the cargo registry")
        self.wp_dir = d
        self.v = {}
        for f in ("src/lib.rs", "src/abi.rs"):
            ast = facts.parse_snippet(open(os.path.join(d, f)).read())
            if "error" in ast:
                raise AnchorMissing(f"wit-parser {f} does not parse")
            for it in ast["items"]:
                if it.get("k") == "enum_def":
                    self.v[it["name"]] = [x["name"] for x in it["variants"]]
            if f == "src/abi.rs":
                self.abi_ast = ast
            else:
                self.lla = {}
                for it in ast["items"]:
                    if it.get("k") == "impl" and synq.base_name(it["self_ty"]) == "LiftLowerAbi":
                        for x in it["items"]:
                            if x.get("k") == "fn" and x["sig"]["name"] in ("import_variant", "export_variant"):
                                tbl = {}
                                for m in synq.matches_in(x["body"]):
                                    for a in synq.arms(m):
                                        vs = {synq.short(p_["path"]) for p_ in synq.paths(a.body)
                                              if p_["path"].startswith("AbiVariant::")}
                                        for h in a.heads:
                                            tbl.setdefault(synq.short(h), set()).update(vs)
                                self.lla[x["sig"]["name"]] = tbl
                if set(self.lla) != {"import_variant", "export_variant"}:
                    raise AnchorMissing("wit-parser LiftLowerAbi::{import,export}_variant tables")
        for need in ("TypeDefKind", "Type", "FunctionKind", "AbiVariant"):
            if need not in self.v:
                raise AnchorMissing(f"wit-parser enum {need}")
        c = mir.load("ws", "wit_bindgen_core", "rlib")
        self.v["Instruction"] = [x["name"] for x in c.adt("abi::Instruction")["variants"]]
        self.v["LiftLower"] = synq.enum_variants(ABI, "LiftLower")

    def split(self, head):
        """'abi::Instruction::Malloc' -> ('Instruction', 'Malloc') when the enum is known."""
        segs = head.split("::")
        if len(segs) >= 2 and segs[-2] in self.v and segs[-1] in self.v[segs[-2]]:
            return segs[-2], segs[-1]
        return None

    def text(self, crate, rel):
        d = facts.registry_src(crate)
        if d is None:
            raise AnchorMissing(f"{crate} source not found in the cargo registry")
        return open(os.path.join(d, rel)).read()


def pat_full(p, enums):
    """Does pattern p match every value of its type?  (bindings, `_`, `..`, and or-patterns over all variants of a
    known enum whose payload patterns are themselves full)"""
    k = p.get("k")
    if k in ("p_wild", "p_rest"):
        return True
    if k == "p_ident":
        return pat_full(p["sub"], enums) if p.get("sub") else not p["name"][:1].isupper()
    if k == "p_ref":
        return pat_full(p["pat"], enums)
    if k == "p_tuple":
        return all(pat_full(e, enums) for e in p["elems"])
    if k == "p_or":
        cov = {}
        for c in synq.pat_alts(p):
            if pat_full(c, enums):
                return True
            sp = variant_of(c, enums)
            if sp and payload_full(c, enums):
                cov.setdefault(sp[0], set()).add(sp[1])
        return any(set(enums.v[en]) <= vs for en, vs in cov.items())
    return False


def variant_of(p, enums):
    if p.get("k") in ("p_tuple_struct", "p_struct", "p_path"):
        return enums.split(p["path"])
    if p.get("k") == "p_ident" and p.get("sub") is None:
        return None
    return None


def payload_full(p, enums):
    k = p.get("k")
    if k == "p_path":
        return True
    if k == "p_tuple_struct":
        return all(pat_full(e, enums) for e in p["elems"])
    if k == "p_struct":
        return all(pat_full(f["pat"], enums) for f in p["fields"])
    return False


def subpats(p):
    """payload sub-patterns of a variant pattern as {position or field name: pattern}"""
    if p.get("k") == "p_tuple_struct":
        return {i: e for i, e in enumerate(p["elems"])}
    if p.get("k") == "p_struct":
        return {f["name"]: f["pat"] for f in p["fields"]}
    return {}


def residual(level, enums):
    """Variants of the matched enum that the unguarded arms do not cover completely: (enum, [variants]) or None when
    the scrutinee is not a known enum.  A variant matched only with a literal payload (`U32(1)`), a nested refutable
    pattern or under a guard stays in the residual, unless several arms split one payload position over all the
    variants of a known enum (`HandleLower { handle: Handle::Own(_), .. }` + `.. Handle::Borrow(_) ..`)."""
    named, covered, partial = {}, {}, {}
    for a in synq.arms(level.match):
        for alt in a.alts:
            sp = variant_of(alt, enums)
            if sp:
                named.setdefault(sp[0], set()).add(sp[1])
                if a.guard is not None:
                    continue
                if payload_full(alt, enums):
                    covered.setdefault(sp[0], set()).add(sp[1])
                    continue
                sub = subpats(alt)
                refut = [k for k, q in sub.items() if not pat_full(q, enums)]
                if len(refut) == 1:
                    for q in synq.pat_alts(sub[refut[0]]):
                        isp = variant_of(q, enums)
                        if isp and payload_full(q, enums):
                            partial.setdefault((sp, refut[0], isp[0]), set()).add(isp[1])
    for (sp, pos, en2), vs in partial.items():
        if set(enums.v[en2]) <= vs:
            covered.setdefault(sp[0], set()).add(sp[1])
    if len(named) != 1:
        return None
    en = next(iter(named))
    return en, [v for v in enums.v[en] if v not in covered.get(en, set())]


# ================================================================================================ exclusions
class Unknown(Exception):
    pass


class NeedChoice(Exception):
    pass


class Ret(Exception):
    def __init__(self, v):
        self.v = v


def eval_sfv(fn, name, async_, ec):
    """Abstractly run should_fail_verify(name, config{async_, error_context}).  A condition that depends on anything
    else (the runner's toolchain probe, arguments) is a free boolean: the function is run once per assignment, and
    the test counts as *declared failing* only if every run returns true."""

    def run(choices):
        used = [0]

        def choose():
            i = used[0]
            used[0] += 1
            if i >= len(choices):
                raise NeedChoice()
            return choices[i]

        def boolean(e):
            try:
                v = ev(e)
            except Unknown:
                return choose()
            return v if isinstance(v, bool) else choose()

        def ev(e):
            k = e.get("k")
            if k in ("bool", "str"):
                return e["v"]
            if k == "path":
                if e["path"] == "name":
                    return name
                raise Unknown(render(e))
            if k == "field":
                r = render(e)
                if r == "config.async_":
                    return async_
                if r == "config.error_context":
                    return ec
                raise Unknown(r)
            if k == "unary" and e["op"] == "!":
                return not boolean(e["e"])
            if k == "binary" and e["op"] in ("||", "&&"):
                l = boolean(e["l"])
                if e["op"] == "||":
                    return True if l else boolean(e["r"])
                return boolean(e["r"]) if l else False
            if k == "binary" and e["op"] in ("==", "!="):
                eq = ev(e["l"]) == ev(e["r"])
                return eq if e["op"] == "==" else not eq
            if k == "mcall" and e["method"] in ("starts_with", "ends_with", "contains") and len(e["args"]) == 1:
                x, y = ev(e["recv"]), ev(e["args"][0])
                if isinstance(x, str) and isinstance(y, str):
                    return {"starts_with": x.startswith, "ends_with": x.endswith, "contains": x.__contains__}[e["method"]](y)
                raise Unknown(render(e))
            if k == "macro" and synq.short(e["name"]) == "matches" and "pat" in e:
                return pat(e["pat"], ev(e["expr"])) and ("guard" not in e or boolean(e["guard"]))
            if k == "match":
                v = ev(e["scrut"])
                for a in e["arms"]:
                    if pat(a["pat"], v) and ("guard" not in a or boolean(a["guard"])):
                        return ev(a["body"])
                raise Unknown("no arm")
            if k == "block":
                return stmts(e["stmts"])
            if k == "if":
                if boolean(e["cond"]):
                    return ev(e["then"])
                return ev(e["else"]) if e.get("else") else None
            if k == "return":
                raise Ret(boolean(e["e"]))
            if k == "ref":
                return ev(e["e"])
            raise Unknown(render(e)[:60])

        def pat(p, v):
            k = p.get("k")
            if k in ("p_wild", "p_ident"):
                return True
            if k == "p_lit":
                return p["lit"].get("v") == v
            if k == "p_or":
                return any(pat(c, v) for c in p["cases"])
            raise Unknown("pattern " + str(k))

        def stmts(ss):
            last = None
            for s in ss:
                if s["k"] != "expr_stmt":
                    raise Unknown(s["k"])
                last = ev(s["e"])
                if s.get("semi"):
                    last = None
            return last

        try:
            v = stmts(fn.body["stmts"])
        except Ret as r:
            v = r.v
        return v if isinstance(v, bool) else choose()

    todo, n = [[]], 0
    while todo:
        ch = todo.pop()
        n += 1
        if n > 64:
            return False
        try:
            if run(ch) is not True:
                return False
        except NeedChoice:
            todo += [ch + [True], ch + [False]]
        except Unknown:
            return False  # cannot show the test is declared failing
    return True


class Exclusions:
    def __init__(self, rep):
        self.fn = {}
        self.variants = {}
        self.variant_args = {}
        for lang in TEST_LANGS:
            rel = f"crates/test/src/{lang}.rs"
            self.fn[lang] = synq.find_fn(rel, "should_fail_verify")
            rep.saw(f"{rel}::should_fail_verify")
            rep.saw(file=rel)
            vs = []
            f = synq.find_fn(rel, "codegen_test_variants", required=False)
            if f is not None:
                for t in synq.walk(f.body):
                    if t.get("k") == "tuple" and t["elems"] and t["elems"][0].get("k") == "str":
                        vs.append(t["elems"][0]["v"])
                        self.variant_args[(lang, t["elems"][0]["v"])] = [x["v"] for x in synq.strings(t)][1:]
            self.variants[lang] = vs
        self.cache = {}

    def declared(self, lang, feat):
        """Does `lang` declare `feat` unsupported?  -> (bool, how)"""
        if (lang, feat) in self.cache:
            return self.cache[(lang, feat)]
        r = self._declared(lang, feat)
        self.cache[(lang, feat)] = r
        return r

    def _declared(self, lang, feat):
        if lang not in self.fn:
            return False, f"crates/test/src/{lang}.rs does not exist: no exclusions"
        spec = FEATURES[feat]
        if spec["probe"] is not None and spec.get("variant"):
            # a variant probe only makes sense for a language that runs that variant with an --async argument
            v = spec["variant"]
            if any(x.startswith("--async") for x in self.variant_args.get((lang, v), [])):
                nm, a, e = spec["probe"]
                if eval_sfv(self.fn[lang], nm, a, e):
                    return True, f"should_fail_verify({nm!r}, async={a}, error-context={e}) = true (variant `{v}`)"
        elif spec["probe"] is not None:
            nm, a, e = spec["probe"]
            if eval_sfv(self.fn[lang], nm, a, e):
                return True, f"should_fail_verify({nm!r}, async={a}, error-context={e}) = true"
        for imp in IMPLIED_BY.get(feat, []):
            ok, how = self.declared(lang, imp)
            if ok:
                return True, f"implied by `{imp}`: {how}"
        if spec["probe"] is None:
            return False, "neither this feature nor one that implies it is excluded"
        nm, a, e = spec["probe"]
        if spec.get("variant"):
            return False, f"should_fail_verify({nm!r}, async={a}, error-context={e}) is not true"
        part = [v for v in self.variants.get(lang, []) if eval_sfv(self.fn[lang], f"{nm}-{v}", a, e)]
        if part:
            return False, (f"should_fail_verify is true only for the variant(s) {[nm + '-' + v for v in part]}, "
                           f"not for {nm!r} itself")
        return False, f"should_fail_verify({nm!r}, async={a}, error-context={e}) is not true"


def corpus_checks(rep):
    """The probe files exist, carry the flags the probe assumes and contain the feature (R16.2)."""
    base = os.path.join(facts.REPO, "tests", "codegen")

    def flags(text):
        a = re.search(r"^//@\s*async\s*=\s*true", text, re.M) is not None
        e = re.search(r"^//@\s*error-context\s*=\s*true", text, re.M) is not None
        return a, e
    for feat, spec in sorted(FEATURES.items()):
        if spec["probe"] is None:
            continue
        nm, a, e = spec["probe"]
        fname = spec.get("file", nm)
        p = os.path.join(base, fname)
        if not os.path.exists(p):
            rep.ob("R16.2", f"probe file of `{feat}` exists: tests/codegen/{fname}", False, "missing", p)
            continue
        t = open(p).read()
        if spec.get("variant"):
            # the async-ness of a variant probe comes from the variant's --async argument, not from the file header
            rep.ob("R16.2", f"probe of `{feat}`: tests/codegen/{fname} (variant `{spec['variant']}`) uses the feature",
                   re.search(spec["token"], t) is not None, f"flags {flags(t)}", f"tests/codegen/{fname}")
        else:
            rep.ob("R16.2", f"probe of `{feat}`: tests/codegen/{nm} has async={a}, error-context={e} and uses the feature",
                   flags(t) == (a, e) and re.search(spec["token"], t) is not None, f"flags {flags(t)}", f"tests/codegen/{nm}")
    # fll <= fll-named: named-fixed-length-list.wit is the only codegen test with a fixed-length list
    others = []
    for root, _, files in os.walk(base):
        for f in files:
            if f.endswith(".wit") and re.search(r"list<[^<>]*(<[^<>]*>)?[^<>]*,\s*\d+\s*>", open(os.path.join(root, f)).read()):
                others.append(os.path.relpath(os.path.join(root, f), base))
    only = others == ["named-fixed-length-list.wit"]
    rep.ob("R16.2", "named-fixed-length-list.wit is the only codegen test containing a fixed-length list (so excluding it "
                    "declares fixed-length lists unsupported as a whole)", only, f"{others}", "tests/codegen")
    IMPLIED_BY["fll"] = ["fll-named"] if only else []
    # `async` declared => `error-context` declared: every error-context test is an async test
    bad = []
    n = 0
    for f in sorted(os.listdir(base)):
        p = os.path.join(base, f)
        if f.endswith(".wit") and os.path.isfile(p):
            a, e = flags(open(p).read())
            n += e
            if e and not a:
                bad.append(f)
    rep.ob("R16.2", "every codegen test with error-context=true also has async=true (so an `async` exclusion covers it)",
           not bad and n >= 1, f"{bad}", "tests/codegen")
    IMPLIED_BY["error-context"] = ["async"] if not bad and n >= 1 else []


# ================================================================================================ abi.rs emitters
class Emitters:
    """Which Generator method constructs which Instruction; closure over self-calls; entry points (pub fns)."""

    def __init__(self, enums):
        V = enums.v["Instruction"]
        fns = [f for f in synq.all_fns(ABI) if f.self_ty == "Generator" and f.body is not None]
        self.methods = {f.name: f for f in fns}
        self.direct = {}
        self.calls = {}
        for f in fns:
            self.direct[f.name] = {n for n, _ in synq.constructed(f.body, V)}
            cs = set()
            for m in synq.method_calls(f.body):
                if m["method"] in self.methods and not render(m["recv"]).endswith("bindgen"):
                    cs.add(m["method"])
            for p in synq.paths(f.body):  # `Self::lift` passed as a function value
                segs = p["path"].split("::")
                if len(segs) == 2 and segs[0] == "Self" and segs[1] in self.methods:
                    cs.add(segs[1])
            self.calls[f.name] = cs
        self.entries = {}
        for f in synq.all_fns(ABI):
            if f.self_ty is None and f.body is not None and f.node.get("vis", "").startswith("pub"):
                roots = {m["method"] for m in synq.method_calls(f.body) if m["method"] in self.methods
                         and ("Generator::new" in render(m["recv"]) or render(m["recv"]) == "generator")}
                if roots:
                    self.entries[f.name] = roots

    def closure(self, roots):
        seen, st = set(), list(roots)
        while st:
            x = st.pop()
            if x in seen:
                continue
            seen.add(x)
            st.extend(self.calls.get(x, ()))
        return seen

    def emitted_by_entry(self, entry):
        out = set()
        for m in self.closure(self.entries[entry]):
            out |= self.direct[m]
        return out


# ================================================================================================ backend call pairs
def parents(root):
    par = {}

    def rec(n, p, fld):
        if isinstance(n, list):
            for x in n:
                rec(x, p, fld)
            return
        if not isinstance(n, dict):
            return
        par[id(n)] = (p, fld)
        for key, v in n.items():
            if isinstance(v, (dict, list)):
                rec(v, n, key)
    rec(root, None, None)
    return par


class PairEval:
    """Abstract values of the `variant` / `lift_lower` arguments of abi::call in a backend (path-sensitive on
    syntactically identical `if` conditions, inter-procedural over literal arguments within the crate)."""

    def __init__(self, crate, enums):
        self.crate = crate
        self.enums = enums
        self.fns = []
        for rel in crate_files(crate):
            self.fns += [f for f in synq.all_fns(rel) if f.body is not None]
        self.par = {}

    def parent_map(self, fn):
        if id(fn.node) not in self.par:
            self.par[id(fn.node)] = parents(fn.node)
        return self.par[id(fn.node)]

    def conds(self, fn, node):
        """rendered `if` conditions on the path from the fn body to node -> bool"""
        par = self.parent_map(fn)
        out = {}
        cur = node
        while id(cur) in par and par[id(cur)][0] is not None:
            p, fld = par[id(cur)]
            if p.get("k") == "if" and fld in ("then", "else"):
                c, val = p["cond"], fld == "then"
                while c.get("k") == "unary" and c["op"] == "!":
                    c, val = c["e"], not val
                out[render(c)] = val
            cur = p
        return out

    def ev(self, e, fn, env, conds, idx=None, depth=0):
        if e is None or depth > 12:
            return {"?"}
        k = e.get("k")
        if k == "path":
            segs = e["path"].split("::")
            if len(segs) >= 2 and segs[-2] in ("AbiVariant", "LiftLower"):
                return {segs[-2] + "::" + segs[-1]}
            if len(segs) == 1:
                if segs[0] in env:
                    return set(env[segs[0]])
                return self.lookup(segs[0], fn, env, conds, synq.line(e), depth)
            return {"?"}
        if k == "bool":
            return {"true" if e["v"] else "false"}
        if k == "ref":
            return self.ev(e["e"], fn, env, conds, idx, depth + 1)
        if k == "tuple":
            if idx is not None and idx < len(e["elems"]):
                return self.ev(e["elems"][idx], fn, env, conds, None, depth + 1)
            return {"?"}
        if k == "block":
            ss = e["stmts"]
            if ss and ss[-1]["k"] == "expr_stmt" and not ss[-1].get("semi"):
                return self.ev(ss[-1]["e"], fn, env, conds, idx, depth + 1)
            return {"?"}
        if k == "if":
            ce, neg = e["cond"], False
            while ce.get("k") == "unary" and ce["op"] == "!":
                ce, neg = ce["e"], not neg
            r = render(ce)
            if r in conds:
                c = {"true" if conds[r] != neg else "false"}
            else:
                c = self.ev(e["cond"], fn, env, conds, None, depth + 1)
            out = set()
            if c != {"false"}:
                out |= self.ev(e["then"], fn, env, conds, idx, depth + 1)
            if c != {"true"}:
                out |= self.ev(e.get("else"), fn, env, conds, idx, depth + 1)
            return out
        if k == "match":
            sv = self.ev(e["scrut"], fn, env, conds, None, depth + 1)
            out = set()
            for v in sv:
                hit = False
                for a in synq.arms(e):
                    if v != "?" and (any(h == v or h.endswith("::" + v) for h in a.heads) or "_" in a.heads):
                        out |= self.ev(a.body, fn, env, conds, idx, depth + 1)
                        hit = True
                        break
                if not hit:
                    for a in synq.arms(e):
                        out |= self.ev(a.body, fn, env, conds, idx, depth + 1)
            return out
        if k == "unary" and e["op"] == "!":
            v = self.ev(e["e"], fn, env, conds, None, depth + 1)
            return {{"true": "false", "false": "true"}.get(x, "?") for x in v}
        if k == "macro" and synq.short(e["name"]) in DIVERGE:
            return set()
        return {"?"}

    def lookup(self, name, fn, env, conds, at_line, depth):
        best = None
        for nm, init, st in synq.bindings(fn.body):
            if nm == name and synq.line(st) <= at_line and (best is None or synq.line(st) >= synq.line(best[1])):
                best = (init, st)
        if best is not None:
            init, st = best
            p = st["pat"]
            if p.get("k") == "p_ident":
                return self.ev(init, fn, env, conds, None, depth + 1)
            if p.get("k") == "p_tuple":
                for i, el in enumerate(p["elems"]):
                    if el.get("k") == "p_ident" and el["name"] == name:
                        return self.ev(init, fn, env, conds, i, depth + 1)
            return {"?"}
        # a parameter: union over the literal arguments at the crate's call sites of this function
        ps = fn.params
        if name in ps:
            i = ps.index(name)
            has_self = ps and ps[0] == "self"
            out = set()
            n = 0
            for g in self.fns:
                for c in synq.walk(g.body):
                    args = None
                    if c.get("k") == "mcall" and c["method"] == fn.name:
                        args = c["args"]
                        j = i - (1 if has_self else 0)
                    elif c.get("k") == "call" and c["func"].get("k") == "path" and synq.short(c["func"]["path"]) == fn.name:
                        args = c["args"]
                        j = i - (1 if has_self and not c["func"]["path"].startswith(("Self::", fn.self_ty or "\0")) else 0)
                    if args is not None and 0 <= j < len(args):
                        n += 1
                        out |= self.ev(args[j], g, {}, self.conds(g, c), None, depth + 1)
            return out if n else {"?"}
        return {"?"}

    def callers(self, fn):
        """[(caller fn, call node)] of `fn` inside the crate, matched by method / function name"""
        out = []
        for g in self.fns:
            for c in synq.walk(g.body):
                if (c.get("k") == "mcall" and c["method"] == fn.name) or \
                        (c.get("k") == "call" and c["func"].get("k") == "path" and synq.short(c["func"]["path"]) == fn.name):
                    out.append((g, c))
        uniq = {}
        for g, c in out:  # innermost fn wins (all_fns lists nested fns and their parents)
            cur = uniq.get(id(c))
            if cur is None or synq.line(g.node) >= synq.line(cur[0].node):
                uniq[id(c)] = (g, c)
        return list(uniq.values())

    def effective_sites(self, fn, call, arg, depth=0):
        """Call sites that really decide the value of argument expression `arg` of `call` (inside fn): when `arg` is a
        parameter of fn, the crate's callers of fn (recursively).  -> [(fn, call node, rendered argument)]"""
        if arg.get("k") == "path" and "::" not in arg["path"] and arg["path"] in fn.params and depth < 6 and \
                not any(nm == arg["path"] for nm, _, _ in synq.bindings(fn.body)):
            i = fn.params.index(arg["path"])
            has_self = fn.params[0] == "self"
            out = []
            cs = self.callers(fn)
            for g, c in cs:
                j = i - (1 if has_self and c.get("k") == "mcall" else 0)
                if 0 <= j < len(c["args"]):
                    out += self.effective_sites(g, c, c["args"][j], depth + 1)
                else:
                    out.append((g, c, "?"))
            return out if cs else [(fn, call, render(arg))]
        return [(fn, call, render(arg))]

    def is_async_cond(self, fn, cond):
        """an `if` condition that asks whether the function is generated async: a call of a method named `is_async`,
        or a local bound to such a call"""
        while cond.get("k") == "unary" and cond["op"] == "!":
            return False  # a negated test guards the sync branch
        if cond.get("k") == "mcall" and cond["method"] == "is_async":
            return True
        if cond.get("k") == "path" and "::" not in cond["path"]:
            d = synq.reaching_def(fn.body, cond["path"], synq.line(cond))
            if d and d[0] is not None and d[0].get("k") == "mcall" and d[0]["method"] == "is_async":
                return True
        return False

    def async_only(self, fn, node, depth=0, seen=None):
        """Is `node` (inside fn) reached only when bindings for an async function are generated?  True iff it sits in
        the then-branch of an `if <is_async>`, or every caller of fn in the crate (there must be one) is async-only.
        -> (bool, why)"""
        seen = seen or set()
        par = self.parent_map(fn)
        cur = node
        while id(cur) in par and par[id(cur)][0] is not None:
            p_, fld = par[id(cur)]
            if p_.get("k") == "if" and fld == "then" and self.is_async_cond(fn, p_["cond"]):
                return True, f"inside `if {render(p_['cond'])}` in {fn.self_ty or ''}::{fn.name}"
            cur = p_
        key = (fn.file, fn.self_ty, fn.name)
        if depth >= 6 or key in seen:
            return False, f"{fn.self_ty or ''}::{fn.name}: caller chain too deep"
        cs = self.callers(fn)
        if not cs:
            return False, f"{fn.self_ty or ''}::{fn.name} ({fn.file}) has no caller in the crate under an `if is_async` test"
        whys = []
        for g, c in cs:
            ok, why = self.async_only(g, c, depth + 1, seen | {key})
            if not ok:
                return False, why
            whys.append(why)
        return True, "; ".join(dict.fromkeys(whys))

    def entry_calls(self, entries):
        """[(entry name, call node, fn)] for abi::<entry>(..) calls in the crate"""
        out = []
        for f in self.fns:
            for c in synq.fn_calls(f.body):
                segs = c["func"]["path"].split("::")
                if segs[-1] in entries and len(segs) >= 2 and segs[-2] == "abi":
                    out.append((segs[-1], c, f))
        # drop calls attributed to an outer fn that really belong to a nested fn item (all_fns lists both)
        uniq = {}
        for nm, c, f in out:
            cur = uniq.get(id(c))
            if cur is None or synq.line(f.node) >= synq.line(cur[2].node):
                uniq[id(c)] = (nm, c, f)
        return list(uniq.values())

    def constructible(self):
        """AbiVariants a value in this backend can have: `AbiVariant::X` expressions, and the images of the
        `LiftLowerAbi::Y` expressions under wit-parser's import_variant / export_variant (Standard32 = sync)."""
        out = {"GuestImport", "GuestExport"}
        for rel in crate_files(self.crate) + crate_files("core"):
            if rel == ABI:
                continue
            for n in synq.walk(synq.load(rel)):
                if n.get("k") == "path":
                    segs = n["path"].split("::")
                    if len(segs) >= 2 and segs[-2] == "AbiVariant":
                        out.add(segs[-1])
                    if len(segs) >= 2 and segs[-2] == "LiftLowerAbi":
                        for tbl in self.enums.lla.values():
                            out |= tbl.get(segs[-1], set(self.enums.v["AbiVariant"]))
        return out

    def call_pairs(self, calls):
        """set of (AbiVariant, LiftLower) a backend can pass to abi::call; an unresolved variant is widened to every
        variant the backend can construct"""
        AV = ["AbiVariant::" + v for v in self.enums.v["AbiVariant"] if v in self.constructible()]
        LL = ["LiftLower::" + v for v in self.enums.v["LiftLower"]]
        pairs = set()
        for nm, c, f in calls:
            if nm != "call":
                continue
            conds = self.conds(f, c)
            va, la = c["args"][1], c["args"][2]
            vs = self.ev(va, f, {}, conds)
            if "?" in vs:
                vs = set(AV)
            for v in vs:
                env = {va["path"]: {v}} if va.get("k") == "path" and "::" not in va["path"] else {}
                ls = self.ev(la, f, env, conds)
                if "?" in ls:
                    ls = set(LL)
                for l in ls:
                    pairs.add((v.split("::")[1], l.split("::")[1]))
        return pairs


# ================================================================================================ verifiers
class Verify:
    """Mechanical checks backing allow-list reasons; each returns (ok, detail)."""

    def __init__(self, enums, emit, sites):
        self.enums, self.emit, self.sites = enums, emit, sites
        self.memo = {}

    def run(self, name, site):
        if name is None:
            return True, "reason verified by reading only"
        if "+" in name:
            rs = [self.run(n, site) for n in name.split("+")]
            return all(r[0] for r in rs), "; ".join(r[1] for r in rs)
        if name.startswith("scrut~"):
            got = render(site.chain[-1].match["scrut"]) if site.chain else ""
            return re.search(name.split("~", 1)[1], got) is not None, f"innermost match scrutinee is `{got}`"
        if name.startswith("scrutinee:"):
            want = name.split(":", 1)[1]
            got = render(site.chain[-1].match["scrut"]) if site.chain else None
            return got == want, f"innermost match scrutinee is `{got}`"
        if name == "early_return_on_name":
            return self.early_return_on_name(site)
        if name not in self.memo:
            if name.startswith("block_results:"):
                _, ins, n = name.split(":")
                self.memo[name] = self.block_results(ins, int(n))
            elif name.startswith("literal_domain:"):
                self.memo[name] = self.literal_domain(site)
            else:
                self.memo[name] = getattr(self, name)()
        return self.memo[name]

    # --- wit-parser / wasmparser oracles (text anchors read from the registry on every run)
    def _has(self, crate, rel, needles):
        t = self.enums.text(crate, rel)
        miss = [n for n in needles if n not in t]
        return not miss, (f"{crate}/{rel}: missing {miss}" if miss else f"{crate}/{rel} contains the anchor text")

    def oracle_own(self):
        return self._has("wit-parser", "src/resolve/mod.rs",
                         ["fn update_ty(", "TypeDefKind::Resource => break true", "kind: TypeDefKind::Handle(Handle::Own(*id))"])

    def oracle_anon_type(self):
        return self._has("wit-parser", "src/ast/resolve.rs", ["fn anon_type_def(", "TypeDefKind::Type(t) => return *t,"])

    def oracle_no_world_export_types(self):
        return self._has("wit-parser", "src/resolve/mod.rs", ["exported types not allowed at this time"])

    def oracle_unknown(self):
        return self._has("wit-parser", "src/resolve/mod.rs", ["unknown type after defined type"])

    def oracle_flags32(self):
        return self._has("wasmparser", "src/validator/component.rs",
                         ["flags must have at least one entry", "cannot have more than 32 flags"])

    def oracle_max_flat_results(self):
        for it in self.enums.abi_ast["items"]:
            if it.get("k") == "impl":
                for x in it["items"]:
                    if x.get("k") == "const" and x["name"] == "MAX_FLAT_RESULTS":
                        ok = render(x["e"]) == "1"
                        t = self.enums.text("wit-parser", "src/abi.rs")
                        ok2 = "[WasmType::I32; Self::MAX_FLAT_RESULTS]" in t
                        return ok and ok2, f"MAX_FLAT_RESULTS = {render(x['e'])}; results storage sized by it: {ok2}"
        return False, "MAX_FLAT_RESULTS not found"

    # --- facts of this repository
    def no_caller_type_builtin(self):
        hits = []
        for rel in synq.files():
            ast = synq.load(rel)
            for n in synq.walk(ast):
                if n.get("k") == "mcall" and n["method"] == "type_builtin":
                    hits.append(f"{rel}:{synq.line(n)}")
                if n.get("k") in ("path",) and synq.short(n["path"]) == "type_builtin":
                    hits.append(f"{rel}:{synq.line(n)}")
        return not hits, f"uses of type_builtin: {hits}"

    def csproj_only_tests(self):
        hits = []
        for rel in synq.files():
            if rel == "crates/csharp/src/csproj.rs" or rel.startswith("crates/test/"):
                continue
            for n in synq.walk(synq.load(rel)):
                if n.get("k") in ("path", "struct") and "CSProject" in n.get("path", ""):
                    hits.append(f"{rel}:{synq.line(n)}")
        return not hits, f"uses of CSProject outside csproj.rs and crates/test: {hits}"

    def return_amt(self):
        bad = []
        n = 0
        for nm, node in synq.constructed(synq.load(ABI), ["Return"]):
            if node.get("k") != "struct" or not node["path"].endswith("Instruction::Return"):
                continue
            n += 1
            amt = [render(x["e"]) for x in node["fields"] if x["name"] == "amt"]
            if not amt or amt[0] not in ("usize::from(func.result.is_some())", "sig.results.len()", "0"):
                bad.append(amt)
        return n >= 3 and not bad, f"{n} Return constructions, unexpected amt: {bad}"

    def block_results(self, ins, want):
        f = None
        n, bad = 0, []
        for cx, node in find_nodes(ABI, lambda x: x.get("k") in ("path", "struct") and synq.short(x.get("path", "")) == ins):
            if not cx["chain"]:
                continue
            n += 1
            arm = cx["chain"][-1].arm
            fb = [render(m["args"]) for m in synq.method_calls(arm.body, "finish_block")]
            # the last finish_block before the emit, in the same arm (or the same if-branch of it)
            prev = [m for m in synq.method_calls(arm.body, "finish_block") if synq.line(m) <= synq.line(node)]
            if not prev or render(prev[-1]["args"]) != str(want):
                bad.append((fnq(cx), fb))
        return n >= 1 and not bad, f"{n} emitter(s) of {ins}; finish_block arguments not {want}: {bad}"

    def literal_domain(self, site):
        lvl = site.chain[-1]
        heads = [h for a in synq.arms(lvl.match) for h in a.heads if h != "_"]
        fname = site.fn.split("::")[-1]
        bad, n = [], 0
        for rel in crate_files(site.crate):
            for c in synq.fn_calls(synq.load(rel), fname):
                n += 1
                a = c["args"][0] if c["args"] else None
                if a is None or a.get("k") != "str" or repr(a["v"]) not in heads:
                    bad.append(f"{rel}:{synq.line(c)} {render(a)}")
        return n >= 1 and not bad, f"{n} call(s) of {fname}; arguments without an arm: {bad}"

    def early_return_on_name(self, site):
        f = [x for x in synq.all_fns(site.file) if x.name == site.fn.split("::")[-1] and x.body is not None]
        if len(f) != 1:
            return False, "function not found"
        m = site.chain[-1].match
        for n in synq.walk(f[0].body):
            if n.get("k") == "if" and n["cond"].get("k") == "let_cond" and render(n["cond"]["e"]).endswith(".name") \
                    and synq.pat_head(n["cond"]["pat"]) == "Some" and synq.line(n) < synq.line(m):
                if any(x.get("k") == "return" for x in synq.walk(n["then"])):
                    return True, "`if let Some(..) = &ty.name { return .. }` precedes the match"
        return False, "no early return on a named type before the match"

    def csharp_alloc_results(self):
        rels = crate_files("csharp")
        calls = []
        for rel in rels:
            for m in synq.method_calls(synq.load(rel), "emit_allocation_for_type"):
                calls.append((rel, m))
        users = {}
        for nm in ("get_size_for_type", "get_align_for_type"):
            users[nm] = []
            for rel in rels:
                for cx, m in find_nodes(rel, lambda x, nm=nm: x.get("k") == "mcall" and x["method"] == nm):
                    users[nm].append(fnq(cx))
        ok = len(calls) >= 1 and all(v and set(v) == {"FunctionBindgen::emit_allocation_for_type"} for v in users.values())
        det = []
        for rel, m in calls:
            a = render(m["args"])
            f = [g for g in synq.all_fns(rel) if g.body is not None and any(x is m for x in synq.walk(g.body))]
            src = None
            if f and a == "&sig.results":
                g = f[-1]
                d = synq.reaching_def(g.body, "sig", synq.line(m))
                src = render(d[0]) if d else None
            good = src is not None and src.endswith(".wasm_signature(AbiVariant::GuestImportAsync, func)")
            ok = ok and good
            det.append(f"{rel}:{synq.line(m)} arg {a} from {src}")
        t = self.enums.text("wit-parser", "src/abi.rs")
        seg = t.split("AbiVariant::GuestImportAsync => {")
        ok2 = len(seg) >= 2 and "assert!(results.push(WasmType::I32));" in seg[-1].split("AbiVariant::GuestExportAsync")[0]
        return ok and ok2, f"{det}; wit-parser pushes exactly I32 for GuestImportAsync: {ok2}"


# ================================================================================================ the rules
def run(rep, tier):
    rep.describe(
        "other",
        "Inventory (R16.1) of every todo!/unimplemented! in crates/core and the eight backends, keyed by (crate, "
        "function, enclosing match-arm heads).  Each site is reduced to triggers: the WIT feature named by its arm "
        "heads (ErrorContext* => error-context, FixedLengthList* => fll, Map* => map, Future*/Stream*/async variants "
        "=> async), for a wildcard arm one trigger per residual enum variant (enum variants minus explicit arms; "
        "Instruction variants first intersected with what abi.rs can emit through the abi:: entry points and "
        "(AbiVariant, LiftLower) pairs the backend uses), or a hand-written feature / allow-list entry.  A trigger is "
        "discharged iff the backend's should_fail_verify (R16.2, abstractly evaluated on every run) declares the "
        "feature unsupported, or an allow-list entry (R16.3) with a verified structural reason covers it.  A site with "
        "an undischarged trigger, or an unclassifiable site, is a violation.  NOT decided: panics from unwrap / "
        "expect / indexing / assert! / panic! / unreachable!, value-dependent failures, and whether an excluded "
        "feature really is the *only* way to reach a site classified by its arm head.  R16.4 additionally requires "
        "the two type dispatchers of wit-bindgen-core (define_type, define_anonymous_type) to diverge only for kinds "
        "that cannot occur.",
        trusted_base=["syn parse of the generator crates and crates/test/src/*.rs",
                      "wit-parser / wasmparser sources in the cargo registry (enum variant lists, text anchors)",
                      "feature vocabulary and probe tests transcribed in rules/C16.py (FEATURES)",
                      "allow-list reasons marked 'verified by reading only'"],
        assumptions=["reading of the repository's declarations: tests/codegen/named-fixed-length-list.wit is the only "
                     "codegen test with a fixed-length list (checked on every run), so a backend excluding it declares "
                     "fixed-length lists unsupported as a whole, named or anonymous (fll <= fll-named); a backend that "
                     "excludes only its `-async` variant (rust, moonbit) declares `fixed-length list together with "
                     "--async` (fll+async), which discharges core's Generator::deallocate FixedLengthList todo!() for a "
                     "backend only if every direct call of abi::deallocate_lists*_in_types there is verified to sit in "
                     "async-only code (then-branch of an `if <is_async()>` test, transitively over the crate's callers)",
                     "generator options other than those exercised by codegen_test_variants keep their defaults",
                     "a 'valid world' is one wit-parser resolves and wit-component can encode (1..=32 flags)",
                     "an exclusion by config.async_ also declares error-context (part of the async proposal; checked: "
                     "every error-context test is an async test)"],
    )
    rep.rule("R16.1", "every todo!/unimplemented! site is triggered only by declared-unsupported features or is allow-listed")
    rep.rule("R16.2", "exclusions are read from crates/test/src/<lang>.rs::should_fail_verify; probe tests exist and carry the feature")
    rep.rule("R16.3", "allow-list entries match a site and their structural reason is verified; emitters table of abi.rs")

    enums = rep.guard("R16.1", "enum oracles", Enums)
    if enums is None:
        return
    excl = rep.guard("R16.2", "should_fail_verify", lambda: Exclusions(rep))
    if excl is None:
        return
    rep.guard("R16.2", "corpus", lambda: corpus_checks(rep))
    emit = rep.guard("R16.3", "emitters", lambda: Emitters(enums))
    if emit is None:
        return
    sites = rep.guard("R16.1", "inventory", lambda: inventory(enums))
    if sites is None:
        return
    for c in CRATES:
        for rel in crate_files(c):
            rep.saw(file=rel)
    for s in sites:
        rep.saw(f"{s.file}::{s.fn}")

    # ------------------------------------------------------------------ R16.2 declared features (evidence + floor)
    declared = {}
    for lang in BACKENDS:
        for feat in FEATURES:
            ok, how = excl.declared(lang, feat)
            if ok:
                declared[(lang, feat)] = how
    rep.floor("R16.2", "(backend, feature) pairs declared unsupported", len(declared), 10)
    rep.extra["declared_unsupported"] = {f"{l}:{f}": h for (l, f), h in sorted(declared.items())}
    for lang in TEST_LANGS:
        rep.ob("R16.2", f"{lang}: should_fail_verify evaluates (declares {sorted(f for (l, f) in declared if l == lang)})",
               True, "", excl.fn[lang].loc(), nontrivial=False)
    rep.ob("R16.2", "markdown has no crates/test/src/markdown.rs: no exclusions",
           "crates/test/src/markdown.rs" not in synq.files(), "", "crates/test/src")

    # ------------------------------------------------------------------ R16.3 emitters table / backend entry points
    be = {}

    def backend_facts():
        for b in BACKENDS:
            pe = PairEval(b, enums)
            calls = pe.entry_calls(set(emit.entries))
            used = {nm for nm, _, _ in calls}
            pairs = pe.call_pairs(calls)
            be[b] = dict(pe=pe, calls=calls, entries=used, pairs=pairs)
        rep.extra["abi_entry_points_used"] = {b: sorted(v["entries"]) for b, v in be.items()}
        rep.extra["abi_call_pairs"] = {b: sorted(f"{v}/{l}" for v, l in x["pairs"]) for b, x in be.items()}
        rep.floor("R16.3", "abi:: entry points found in abi.rs", len(emit.entries), 7)
        built = set().union(*emit.direct.values())
        rep.floor("R16.3", "Instruction variants with an emitter found in abi.rs", len(built & set(enums.v["Instruction"])), 97)
        rep.floor("R16.3", "abi::call sites in backends", sum(1 for x in be.values() for c in x["calls"] if c[0] == "call"), 13)
    rep.guard("R16.3", "backend entry points", backend_facts)
    if len(be) != len(BACKENDS):
        return

    # structural facts the emitters table relies on
    def gated():
        # Malloc: only in Generator::call under LowerArgsLiftResults / AbiVariant::GuestExport
        ms = find_nodes(ABI, lambda n: n.get("k") == "struct" and n["path"].endswith("Instruction::Malloc"))
        rep.floor("R16.3", "Instruction::Malloc constructions in abi.rs", len(ms), 1)
        for cx, n in ms:
            heads = [h for l in cx["chain"] for h in l.heads]
            rep.ob("R16.3", "abi.rs: Instruction::Malloc is built only in Generator::call under LowerArgsLiftResults > GuestExport",
                   fnq(cx) == "Generator::call" and "LiftLower::LowerArgsLiftResults" in heads and
                   set(cx["chain"][-1].heads) == {"AbiVariant::GuestExport"}, f"in {fnq(cx)} under {heads}", f"{ABI}:{synq.line(n)}")
        # DropHandle: only under an arm guarded by what.handles(); ListsAndOwn only from deallocate_lists_and_own_in_types
        ds = find_nodes(ABI, lambda n: n.get("k") in ("struct", "path") and synq.short(n.get("path", "")) == "DropHandle"
                        and n.get("k") == "struct")
        rep.floor("R16.3", "Instruction::DropHandle constructions in abi.rs", len(ds), 2)
        for cx, n in ds:
            g = cx["chain"][-1].arm.guard if cx["chain"] else None
            rep.ob("R16.3", f"abi.rs: DropHandle in {fnq(cx)} is guarded by `what.handles()`",
                   g is not None and render(g) == "what.handles()", f"guard `{render(g)}`", f"{ABI}:{synq.line(n)}")
        own = find_nodes(ABI, lambda n: n.get("k") == "path" and n["path"] == "Deallocate::ListsAndOwn")
        where = sorted({fnq(cx) for cx, n in own})
        rep.ob("R16.3", "abi.rs: Deallocate::ListsAndOwn is passed only by deallocate_lists_and_own_in_types (and handles() maps it to true)",
               where == ["Deallocate::handles", "deallocate_lists_and_own_in_types"] or where == ["deallocate_lists_and_own_in_types"],
               f"{where}", ABI)
        # deallocate_indirect enters deallocate only for String / List / Map (which never recurse into deallocate on
        # a fixed-length list), so deallocate(FixedLengthList) needs deallocate_in_types(indirect = false)
        di = emit.methods.get("deallocate_indirect")
        hs = []
        for cx, n in find_nodes(ABI, lambda n: n.get("k") == "mcall" and n["method"] == "deallocate" and render(n["recv"]) == "self"):
            if fnq(cx) == "Generator::deallocate_indirect":
                hs += cx["chain"][-1].heads  # alternatives of an or-pattern arm count one by one
        rep.ob("R16.3", "abi.rs: deallocate_indirect calls deallocate only for Type::String, TypeDefKind::List, TypeDefKind::Map",
               di is not None and set(hs) == {"Type::String", "TypeDefKind::List", "TypeDefKind::Map"}, f"{sorted(set(hs))}", ABI)
    rep.guard("R16.3", "gated emitters", gated)

    def receivable(b, v):
        """Can abi.rs hand Instruction::v to backend b?  -> (bool, why)"""
        if v == "Malloc":
            ok = ("GuestExport", "LowerArgsLiftResults") in be[b]["pairs"]
            return ok, ("abi::call(GuestExport, LowerArgsLiftResults) is possible" if ok else
                        f"Malloc needs abi::call(GuestExport, LowerArgsLiftResults); {b} passes only "
                        f"{sorted(be[b]['pairs'])}")
        if v == "DropHandle":
            ok = "deallocate_lists_and_own_in_types" in be[b]["entries"]
            return ok, ("calls abi::deallocate_lists_and_own_in_types" if ok else
                        f"DropHandle needs Deallocate::ListsAndOwn, i.e. abi::deallocate_lists_and_own_in_types, which {b} never calls")
        src = [e for e in sorted(be[b]["entries"]) if v in emit.emitted_by_entry(e)]
        if src:
            return True, f"emitted through abi::{src[0]}"
        return False, f"not emitted by any abi:: entry point {b} calls ({sorted(be[b]['entries'])})"

    ver = Verify(enums, emit, sites)

    # ------------------------------------------------------------------ classification
    def variant_triggers(en, v, b):
        """triggers for enum variant en::v at a site evaluated for backend b: list of (kind, what, detail)"""
        full = f"{en}::{v}"
        if en == "Instruction":
            ok, why = receivable(b, v)
            if not ok:
                return [("unreachable", full, why)]
        if full == "TypeDefKind::Unknown":
            ok, det = ver.run("oracle_unknown", None)
            return [("unreachable" if ok else "core", full, UNKNOWN + f" [{det}]")]
        f = feature_of_variant(v)
        if f:
            return [("feature", f, full)]
        return [("core", full, "no declared-unsupported feature corresponds to this variant")]

    def site_triggers(s, b):
        if s.key3 in SITE_FEATURES:
            return [("feature", f, "hand-classified") for f in SITE_FEATURES[s.key3]]
        if s.key3 in SITE_CORE:
            return [("core", "undeclared", SITE_CORE[s.key3])]
        if not s.chain:
            return [("unclassified", "body", "not inside a match arm and not in a table")]
        lvl = s.chain[-1]
        trig = []
        for h in lvl.heads:
            if h == "_":
                r = residual(lvl, enums)
                if r is None:
                    return [("unclassified", "_", "wildcard arm over a scrutinee that is not a known enum")]
                en, vs = r
                if not vs:
                    trig.append(("unreachable", f"{en}::_", "every variant has an explicit arm"))
                for v in vs:
                    trig += variant_triggers(en, v, b)
            else:
                sp = enums.split(h)
                if sp is None:
                    return [("unclassified", h, "arm head is not a variant of a known enum")]
                trig += variant_triggers(sp[0], sp[1], b)
        return trig

    used_allow = set()

    def judge(s, b, inst, pre="", refine=None):
        al = ALLOW.get(s.key3)
        if al is not None:
            used_allow.add(s.key3)
            ok, det = ver.run(al[1], s)
            rep.ob("R16.1", inst, ok, f"allow-listed: {al[0]} [{det}]", s.loc())
            return
        trig = site_triggers(s, b)
        if refine:
            trig = [(k, refine.get(w, w) if k == "feature" else w, d) for k, w, d in trig]
        multi = bool(s.chain) and s.key3 not in SITE_FEATURES and s.key3 not in SITE_CORE and \
            (len(s.chain[-1].heads) > 1 or "_" in s.chain[-1].heads)
        groups = {}  # label -> (ok, [details])
        byfeat = {}
        for kind, what, det in trig:
            if kind == "unreachable":
                groups.setdefault("unreachable", [True, []])[1].append(f"{what}: {det}")
            elif kind == "feature":
                byfeat.setdefault(what, []).append(det)
            elif kind == "core":
                groups.setdefault(what, [False, []])[1].append(det)
            else:
                groups.setdefault(f"unclassified {what}", [False, []])[1].append(f"unclassified gap: {det}")
        for feat, dets in byfeat.items():
            ok, how = excl.declared(b, feat)
            src = ", ".join(dict.fromkeys(dets))
            if ok:
                groups[f"feature {feat}"] = [True, [f"{src} => `{feat}` declared unsupported for {b} ({how})"]]
            else:
                groups[f"feature {feat}"] = [False, [f"{src} => feature `{feat}` ({FEATURES[feat]['what']}) is NOT declared "
                                                     f"unsupported for {b}: {how}"]]
        if not multi:
            bad = [d for ok, ds in groups.values() if not ok for d in ds]
            good = [d for ok, ds in groups.values() if ok for d in ds]
            rep.ob("R16.1", inst, not bad, (pre + "; ".join(bad if bad else good))[:1500], s.loc())
            return
        # a wildcard / multi-head arm: one obligation per trigger group, so that a new residual variant is not
        # hidden behind an already known one
        for label, (ok, ds) in groups.items():
            rep.ob("R16.1", f"{inst} [{label}]", ok, (pre + "; ".join(ds))[:1500], s.loc())

    def dealloc_direct_sites(b):
        """effective call sites of abi::deallocate_lists_in_types / deallocate_lists_and_own_in_types in backend b whose
        `indirect` argument is not the literal `true` (only those run Generator::deallocate on the types themselves)"""
        pe = be[b]["pe"]
        out = []
        for nm, c, f in be[b]["calls"]:
            if nm in ("deallocate_lists_in_types", "deallocate_lists_and_own_in_types"):
                out += [x for x in pe.effective_sites(f, c, c["args"][3]) if x[2] != "true"]
        return out

    def dealloc_async_only(b):
        """(bool, why): every such site is in code generated only for async functions"""
        whys = []
        for g, c, a in dealloc_direct_sites(b):
            ok, why = be[b]["pe"].async_only(g, c)
            if not ok:
                return False, f"the call in {g.self_ty or ''}::{g.name} ({g.file}) is not async-only: {why}"
            whys.append(why)
        return True, "; ".join(dict.fromkeys(whys))

    # core sites are judged once per backend that can reach them
    def core_reach(s, b):
        """(reachable, why) for a site in crates/core evaluated for backend b"""
        heads = [h for l in s.chain for h in l.heads]
        if s.file == ABI and s.fn == "Generator::call":
            ll = [h.split("::")[1] for h in heads if h.startswith("LiftLower::")]
            av = [h.split("::")[1] for h in s.chain[-1].heads if h.startswith("AbiVariant::")]
            if len(ll) == 1 and av:
                hit = sorted(p for p in be[b]["pairs"] if p[1] == ll[0] and p[0] in av)
                return bool(hit), (f"{b} calls abi::call with {hit}" if hit else
                                   f"{b} never calls abi::call with ({'|'.join(av)}, {ll[0]}); it passes {sorted(be[b]['pairs'])}")
            return True, "conditions not understood"
        if s.file == ABI and s.fn == "Generator::deallocate":
            direct = dealloc_direct_sites(b)
            if direct:
                g, c, a = direct[0]
                return True, (f"{b} calls abi::deallocate_lists*_in_types with indirect = `{a}` in "
                              f"{g.self_ty or ''}::{g.name} ({g.file}), which runs deallocate() on the parameter types")
            return False, f"{b} never calls abi::deallocate_lists*_in_types with indirect != true"
        if s.file == ABI and s.fn.startswith("Generator::") and s.fn.split("::")[1] in emit.methods:
            ents = [e for e in sorted(be[b]["entries"]) if s.fn.split("::")[1] in emit.closure(emit.entries[e])]
            return bool(ents), (f"reached through abi::{ents[0]}" if ents else f"{b} calls no entry point reaching {s.fn}")
        return True, "shared code of wit-bindgen-core"

    for s in sites:
        if s.crate != "core":
            rep.guard("R16.1", s.key, lambda s=s: judge(s, s.crate, s.key), s.loc())
            continue
        if s.key3 in ALLOW:
            rep.guard("R16.1", s.key, lambda s=s: judge(s, "core", s.key), s.loc())
            continue
        for b in BACKENDS:
            def one(s=s, b=b):
                inst = f"{s.key} @{b}"
                ok, why = core_reach(s, b)
                if not ok:
                    rep.ob("R16.1", inst, True, f"not reachable: {why}", s.loc())
                elif s.file == ABI and s.fn == "Generator::deallocate":
                    # reached only from the direct (indirect = false) form of deallocate_lists*_in_types: if every such
                    # call of this backend is in async-only code, the trigger is "fixed-length list AND async"
                    ao, aw = dealloc_async_only(b)
                    judge(s, b, inst, pre=f"reachable: {why}; " + (f"all such calls are async-only ({aw}); " if ao else f"{aw}; "),
                          refine={"fll": "fll+async"} if ao else None)
                else:
                    judge(s, b, inst, pre=f"reachable: {why}; ")
            rep.guard("R16.1", f"{s.key} @{b}", one, s.loc())

    # ------------------------------------------------------------------ R16.4 type dispatchers of wit-bindgen-core
    def dispatchers():
        def diverges(body):
            e = body
            while e.get("k") == "block" and len(e["stmts"]) == 1 and e["stmts"][0]["k"] == "expr_stmt":
                e = e["stmts"][0]["e"]
            return e.get("k") == "macro" and synq.short(e["name"]) in DIVERGE
        named_only = "records, flags, enums, variants and resources are always declared with a name"
        table = {
            # dispatcher -> {variant that cannot reach it: why}
            ("define_type", None): {"Unknown": UNKNOWN},
            ("define_anonymous_type", "AnonymousTypeGenerator"): {
                "Unknown": UNKNOWN, "Flags": named_only, "Record": named_only, "Enum": named_only,
                "Variant": named_only, "Resource": named_only},
        }
        n = 0
        for (name, st), cannot in table.items():
            fs = [f for f in synq.all_fns(CORE_LIB) if f.name == name and f.self_ty == st and f.body is not None]
            if len(fs) != 1:
                raise AnchorMissing(f"{CORE_LIB}: fn {name}: {len(fs)} candidates")
            rep.saw(f"{CORE_LIB}::{name}")
            m = synq.find_match(fs[0].body, "TypeDefKind::", min_arms=5)
            for v in enums.v["TypeDefKind"]:
                a = synq.arm_for(m, "TypeDefKind::" + v)
                if a is None:
                    rep.ob("R16.4", f"core {name}: TypeDefKind::{v} has an arm", False, "no arm", fs[0].loc(m))
                    continue
                n += 1
                d = diverges(a.body)
                why = cannot.get(v)
                det = (f"arm diverges ({render(a.body)[:60]}) but a {'named' if name == 'define_type' else 'anonymous'} "
                       f"type can have this kind" + (" — e.g. `type h = borrow<r>;` in an interface" if v == "Handle" else "")) \
                    if d and not why else (why or "dispatches to the backend")
                rep.ob("R16.4", f"core {name}: TypeDefKind::{v} is dispatched, or cannot occur", (not d) or why is not None,
                       det, fs[0].loc(a.node))
        rep.floor("R16.4", "dispatcher arms in crates/core/src/lib.rs", n, 32)
    rep.rule("R16.4", "core's define_type / define_anonymous_type diverge (panic!/unreachable!/todo!) only for kinds that cannot occur")
    rep.guard("R16.4", "dispatchers", dispatchers)

    # ------------------------------------------------------------------ floors and allow-list hygiene
    rep.floor("R16.1", "todo!/unimplemented! sites in core + backends", len(sites), FLOOR_TOTAL)
    for c in CRATES:
        rep.floor("R16.1", f"sites in crates/{c}", sum(1 for s in sites if s.crate == c), FLOOR_CRATE[c])
    keys = {s.key3 for s in sites}
    stale = sorted(k for k in list(ALLOW) + list(SITE_FEATURES) + list(SITE_CORE) if k not in keys)
    rep.extra["stale_table_entries"] = [":".join(k) for k in stale]
    rep.floor("R16.3", "allow-list entries matched by a site", len(used_allow), 38)
    rep.extra["sites"] = len(sites)
    rep.extra["allow_listed"] = len(used_allow)
