"""C09 — generated Rust builds as the requested world (structural clauses).

R9.1  keyword / reserved-name tables of the Rust generator against the Rust reference (edition 2024) and the sites
      where a WIT name becomes a Rust identifier.
R9.2  template-local namespace: every identifier the Rust templates bind at function scope while user-named
      operands are pending must be outside the image of `to_rust_ident`.
R9.3  the definition side (`_export_*_cabi`, `__post_return_*`, `__callback_*`) and the `export_name` wrapper side of
      an exported function agree on guards, names, signatures and async prefixes.
R9.4  templates do not name shadowable prelude items unqualified.
"""
import re

from lib import mir, synq
from lib.synq import render

LIB = "crates/rust/src/lib.rs"
IFACE = "crates/rust/src/interface.rs"
BG = "crates/rust/src/bindgen.rs"
ABI = "crates/core/src/abi.rs"
MACRO = "crates/guest-rust/macro/src/lib.rs"

CLAIM = dict(
    level="other", engine="synfacts", design="DESIGN.md §5 C09",
    technique="keyword table against the Rust reference's keyword list; linearisation of the Rust templates "
              "(push_str / uwrite / format pieces, helper calls inlined, holes resolved to counter / user-derived / "
              "code) and a binder scan (let, for, closure, match arm, items) with brace depth; name-language "
              "intersection with the image of to_rust_ident; sibling agreement of the two export halves",
    text="Decides necessary conditions for the generated Rust to compile: every Rust keyword that is a valid WIT word "
         "is escaped, every WIT name reaches an identifier position through the escaping functions, no template "
         "temporary that is in scope when a user-named operand is spliced can be spelled by a WIT identifier, the two "
         "halves of an export agree, and prelude items are not named unqualified. Does not decide that rustc accepts "
         "the output nor that the component encoder accepts the module.",
    note="syn")

# ------------------------------------------------------------------------------------------------ oracle: keywords
# The Rust Reference, "Keywords" (https://doc.rust-lang.org/reference/keywords.html), as of edition 2024.
# (word, class, reference section, first edition in which it is a keyword)
KEYWORDS = [(w, "strict", "keywords.html#strict-keywords", 2015) for w in
            "as break const continue crate else enum extern false fn for if impl in let loop match mod move mut pub "
            "ref return self Self static struct super trait true type unsafe use where while".split()]
KEYWORDS += [(w, "strict", "keywords.html#strict-keywords (2018+)", 2018) for w in "async await dyn".split()]
KEYWORDS += [(w, "reserved", "keywords.html#reserved-keywords", 2015) for w in
             "abstract become box do final macro override priv typeof unsized virtual yield".split()]
KEYWORDS += [("try", "reserved", "keywords.html#reserved-keywords (2018+)", 2018),
             ("gen", "reserved", "keywords.html#reserved-keywords (2024+)", 2024)]
# Weak keywords ('static, macro_rules, raw, safe, union) are identifiers everywhere a generated name can stand
# (keywords.html#weak-keywords): no escaping needed, no obligation.
WEAK = ["macro_rules", "raw", "safe", "union"]
EDITION = 2024

# image of a WIT identifier under heck's snake case: kebab words (first word starts with a letter, later words may
# start with a digit: wit-parser ast/lex.rs validate_id), lower-cased and joined by '_'
USER_RE = re.compile(r"[a-z][a-z0-9]*(_[a-z0-9]+)*\Z")
WIT_WORD_RE = re.compile(r"[a-z][a-z0-9]*\Z")
# image under heck's upper camel case
CAMEL_RE = re.compile(r"([A-Z][a-z0-9]*)+\Z")

# std::prelude::rust_2024 (library/std/src/prelude/mod.rs): names a generated module can shadow with a user type
PRELUDE_TYPE_NS = ["Option", "Result", "Box", "String", "Vec", "ToOwned", "ToString", "Clone", "Copy", "Send", "Sized",
                   "Sync", "Unpin", "Drop", "Fn", "FnMut", "FnOnce", "AsyncFn", "AsyncFnMut", "AsyncFnOnce", "AsRef",
                   "AsMut", "Into", "From", "Default", "Iterator", "Extend", "IntoIterator", "DoubleEndedIterator",
                   "ExactSizeIterator", "Eq", "PartialEq", "Ord", "PartialOrd", "TryFrom", "TryInto", "FromIterator",
                   "Future", "IntoFuture"]
PRELUDE_VALUE_NS = ["Some", "None", "Ok", "Err"]


# ------------------------------------------------------------------------------------------------ small tree helpers
def sp(n):
    s = n.get("sp") if isinstance(n, dict) else None
    return tuple(s) if s else (0, 0, 0, 0)


def start(n):
    return sp(n)[:2]


def end(n):
    return sp(n)[2:]


def contains(outer, pos):
    a = sp(outer)
    return a[:2] <= pos <= a[2:]


def children(n):
    """direct child nodes in source order"""
    out = []
    for v in n.values():
        if isinstance(v, dict):
            out.append(v)
        elif isinstance(v, list):
            for x in v:
                if isinstance(x, dict):
                    out.append(x)
                elif isinstance(x, list):
                    out.extend(y for y in x if isinstance(y, dict))
    out.sort(key=lambda c: sp(c) if "sp" in c else (1 << 30,))
    return out


def pat_names(p):
    return [b["name"] for b in synq.walk(p) if b.get("k") == "p_ident"]


def tail_expr(block):
    """the value of a block: its last statement when that is an expression without `;`"""
    if block.get("k") != "block":
        return block
    st = block.get("stmts") or []
    if st and st[-1].get("k") == "expr_stmt" and not st[-1].get("semi"):
        return st[-1]["e"]
    return None


# ------------------------------------------------------------------------------------------------ lexical resolution
def resolve_name(fn, name, pos):
    """Lexically resolve `name` used at `pos` inside fn: ('let', stmt) | ('for', node) | ('closure', node) |
    ('arm', arm) | ('param', index) | None."""
    best = None
    node = fn.body
    chain = []
    while True:
        chain.append(node)
        nxt = None
        for c in children(node):
            if "sp" in c and contains(c, pos):
                nxt = c
                break
        if nxt is None:
            break
        node = nxt
    for n in reversed(chain):
        k = n.get("k")
        if k == "block":
            cand = None
            for s in n.get("stmts") or []:
                if s.get("k") == "let" and end(s) <= pos and name in pat_names(s["pat"]):
                    cand = s
            if cand is not None:
                return ("let", cand)
        elif k == "for" and contains(n["body"], pos) and name in pat_names(n["pat"]):
            return ("for", n)
        elif k == "closure" and contains(n["body"], pos) and any(name in pat_names(p) for p in n.get("params", [])):
            return ("closure", n)
        elif k == "match":
            for a in n.get("arms", []):
                if contains(a["body"], pos) and name in pat_names(a["pat"]):
                    return ("arm", a)
        elif k == "if" and n["cond"].get("k") == "let_cond" and contains(n["then"], pos) and \
                name in pat_names(n["cond"]["pat"]):
            return ("iflet", n)
    for i, p in enumerate(fn.node["sig"]["params"]):
        if not p.get("self") and name in pat_names(p["pat"]):
            return ("param", i)
    return best


# ------------------------------------------------------------------------------------------------ shapes
# A shape is a list of atoms: ('lit', text) ('ctr',) ('user',) ('code', why) ('alt', [shape, ...])
CODE = "code"


def is_identlike(shape):
    for a in shape:
        if a[0] == "code":
            return False
        if a[0] == "lit" and not re.fullmatch(r"[A-Za-z0-9_]*", a[1]):
            return False
        if a[0] == "alt" and not all(is_identlike(s) for s in a[1]):
            return False
    return bool(shape)


def shape_str(shape):
    out = ""
    for a in shape:
        if a[0] == "lit":
            out += a[1]
        elif a[0] == "ctr":
            out += "{n}"
        elif a[0] == "user":
            out += "{wit-name}"
        elif a[0] == "alt":
            out += "(" + "|".join(shape_str(s) for s in a[1]) + ")"
        else:
            out += "{…}"
    return out


def samples(shape, limit=400):
    """finite set of strings representative of the shape's language"""
    acc = [""]
    for a in shape:
        if a[0] == "lit":
            opts = [a[1]]
        elif a[0] == "ctr":
            opts = ["0", "7", "12"]
        elif a[0] == "user":
            opts = ["a", "ab0", "a_b", "ptr", "x1", "type_"]
        elif a[0] == "alt":
            opts = []
            for s in a[1]:
                opts.extend(samples(s, 20))
        else:
            opts = ["\x00"]
        acc = [x + o for x in acc for o in opts][:limit]
    return acc


def shape_regex(shape):
    out = ""
    for a in shape:
        if a[0] == "lit":
            out += re.escape(a[1])
        elif a[0] == "ctr":
            out += r"[0-9]+"
        elif a[0] == "user":
            out += r"[a-z][a-z0-9]*(?:_[a-z0-9]+)*_?"
        elif a[0] == "alt":
            out += "(?:" + "|".join(shape_regex(s).pattern[:-2] for s in a[1]) + ")"
        else:
            out += r".*"
    return re.compile(out + r"\Z")


class Ctx:
    def __init__(self, fn, env=None):
        self.fn = fn
        self.env = env or {}


_FREE_FN_CACHE = {}


def free_fn(name):
    """a free function of crates/rust/src/lib.rs whose value is a single format! template"""
    if name not in _FREE_FN_CACHE:
        r = None
        for f in synq.all_fns(LIB):
            if f.name == name and f.self_ty is None and f.body is not None:
                r = f
        _FREE_FN_CACHE[name] = r
    return _FREE_FN_CACHE[name]


UNWRAP_METHODS = {"clone", "to_string", "to_owned", "as_str", "into", "as_ref", "as_deref", "as_mut_string", "borrow"}
NAME_CONVERSIONS = {"to_snake_case", "to_upper_camel_case", "to_kebab_case", "to_shouty_snake_case",
                    "to_lower_camel_case"}


def classify(e, ctx, depth=0):
    """shape of the text an expression evaluates to"""
    if e is None or depth > 12:
        return [(CODE, "?")]
    k = e.get("k")
    if k == "str":
        return [("lit", e["v"])]
    if k == "int":
        return [("lit", str(e["v"]))]
    if k in ("ref", "unary"):
        return classify(e["e"], ctx, depth + 1)
    if k == "macro" and synq.short(e["name"]) == "format" and e.get("args"):
        return template_shape(synq.Fmt(e), ctx, depth + 1)
    if k == "mcall":
        m = e["method"]
        if m == "tmp" and render(e["recv"]) == "self" and not e["args"]:
            return [("ctr",)]
        if m in NAME_CONVERSIONS:
            return [("user",)]
        if m in UNWRAP_METHODS and len(e["args"]) == 0:
            return classify(e["recv"], ctx, depth + 1)
        if m == "replace" and len(e["args"]) == 2:
            inner = classify(e["recv"], ctx, depth + 1)
            if inner == [("user",)]:
                return inner
        return [(CODE, render(e)[:60])]
    if k == "call" and e["func"].get("k") == "path":
        p = synq.short(e["func"]["path"])
        if p in ("to_rust_ident", "to_upper_camel_case"):
            return [("user",)]
        if p == "from" and e["func"]["path"].endswith("String::from") and len(e["args"]) == 1:
            return classify(e["args"][0], ctx, depth + 1)
        f = free_fn(p)
        if f is not None:
            t = tail_expr(f.body)
            if t is not None and t.get("k") == "macro" and synq.short(t["name"]) == "format":
                env = {}
                names = [x for x in f.params]
                for nm, arg in zip(names, e["args"]):
                    if nm:
                        env[nm] = (arg, ctx)
                return template_shape(synq.Fmt(t), Ctx(f, env), depth + 1)
        return [(CODE, render(e)[:60])]
    if k == "path":
        name = e["path"]
        if "::" in name:
            return [(CODE, name)]
        r = resolve_name(ctx.fn, name, start(e))
        if r is None or r[0] == "param":
            if name in ctx.env:
                a, c2 = ctx.env[name]
                return classify(a, c2, depth + 1)
            return [(CODE, name)]
        if r[0] == "let":
            st = r[1]
            if st["pat"].get("k") == "p_ident" and not st["pat"].get("mut") and st.get("init") is not None:
                return classify(st["init"], ctx, depth + 1)
            return [(CODE, name)]
        if r[0] == "for":
            lp = r[1]
            it = lp["iter"]
            if it.get("k") == "range":
                return [("ctr",)]
            if it.get("k") == "mcall" and it["method"] == "enumerate" and lp["pat"].get("k") == "p_tuple" and \
                    lp["pat"]["elems"] and lp["pat"]["elems"][0].get("name") == name:
                return [("ctr",)]
            return [(CODE, name)]
        return [(CODE, name)]
    if k == "if" and e.get("else") is not None and e["cond"].get("k") != "let_cond":
        a, b = tail_expr(e["then"]), tail_expr(e["else"])
        if a is not None and b is not None:
            return [("alt", [classify(a, ctx, depth + 1), classify(b, ctx, depth + 1)])]
    if k == "block":
        t = tail_expr(e)
        if t is not None and t is not e:
            return classify(t, ctx, depth + 1)
    return [(CODE, render(e)[:60])]


HOLE_RE = re.compile(r"\{\{|\}\}|\{([^{}]*)\}")


def template_pieces(fm):
    """[('lit', text) | ('hole', expr-node)] of a format-like macro"""
    out = []
    if fm.template is None:
        return [("hole", None)]
    t = fm.template
    pos = 0
    npos = 0
    for m in HOLE_RE.finditer(t):
        if m.start() > pos:
            out.append(("lit", t[pos:m.start()]))
        pos = m.end()
        g = m.group(0)
        if g == "{{":
            out.append(("lit", "{"))
            continue
        if g == "}}":
            out.append(("lit", "}"))
            continue
        name = m.group(1).split(":", 1)[0].strip()
        if name == "":
            e = fm.positional[npos] if npos < len(fm.positional) else None
            npos += 1
        elif name.isdigit():
            e = fm.positional[int(name)] if int(name) < len(fm.positional) else None
        elif name in fm.named:
            e = fm.named[name]
        else:
            e = {"k": "path", "path": name, "sp": fm.template_node["sp"]}
        out.append(("hole", e))
    if pos < len(t):
        out.append(("lit", t[pos:]))
    return out


def template_shape(fm, ctx, depth=0):
    sh = []
    for kind, v in template_pieces(fm):
        if kind == "lit":
            sh.append(("lit", v))
        else:
            sh.extend(classify(v, ctx, depth + 1))
    return sh


# ------------------------------------------------------------------------------------------------ emission
SINKS = {"self", "self.src", "self.interface", "self.interface.src"}


CTX_OF = {}  # id(hole expression node) -> Ctx in which it is evaluated


class Emitter:
    """Linearise what a generator function writes to its source sink.

    items: ('lit', text) ('atom', shape, expr) ('alt', [items, ...]) in emission order; `exprs`: operand-expression
    templates pushed to `results`; `decls`: statements queued in `handle_decls`."""

    def __init__(self, self_ty, rel, inline=True, results=None, operands=None):
        self.self_ty = self_ty
        self.rel = rel
        self.inline = inline
        self.stack = []
        self.results = results      # (fn name, parameter name) of the operand-result vector of the entry function
        self.operands = operands

    def roots_to(self, e, ctx, target, depth=0):
        """is the expression (a path, possibly behind & / &mut / reborrow) the entry function's parameter `target`?"""
        if target is None or e is None or depth > 6:
            return False
        while e.get("k") in ("ref", "unary"):
            e = e["e"]
        if e.get("k") != "path":
            return False
        name = e["path"]
        if ctx.fn is not None and (ctx.fn.name, name) == target and name not in ctx.env:
            return resolve_name(ctx.fn, name, start(e)) in (None,) or resolve_name(ctx.fn, name, start(e))[0] == "param"
        if name in ctx.env:
            a, c2 = ctx.env[name]
            return self.roots_to(a, c2, target, depth + 1)
        return False

    def method(self, name):
        c = [f for f in synq.all_fns(self.rel) if f.name == name and f.self_ty == self.self_ty and f.body is not None]
        return c[0] if len(c) == 1 else None

    def arg_items(self, e, ctx, depth=0):
        if e is None:
            return []
        k = e.get("k")
        if k == "str":
            return [("lit", e["v"])]
        if k == "ref":
            return self.arg_items(e["e"], ctx, depth + 1)
        if k == "macro" and synq.short(e["name"]) == "format" and e.get("args"):
            return self.fmt_items(synq.Fmt(e), ctx)
        if depth < 6 and k == "call" and e["func"].get("k") == "path":
            f = free_fn(synq.short(e["func"]["path"]))
            t = tail_expr(f.body) if f is not None else None
            if t is not None and t.get("k") == "macro" and synq.short(t["name"]) == "format":
                env = {nm: (arg, ctx) for nm, arg in zip(f.params, e["args"]) if nm}
                return self.fmt_items(synq.Fmt(t), Ctx(f, env))
        if depth < 6 and k == "path" and "::" not in e["path"] and ctx.fn is not None:
            r = resolve_name(ctx.fn, e["path"], start(e))
            if r is not None and r[0] == "let":
                st = r[1]
                if st["pat"].get("k") == "p_ident" and not st["pat"].get("mut") and st.get("init") is not None and \
                        st["init"].get("k") == "macro" and synq.short(st["init"]["name"]) == "format":
                    return self.arg_items(st["init"], ctx, depth + 1)
            elif (r is None or r[0] == "param") and e["path"] in ctx.env:
                a, c2 = ctx.env[e["path"]]
                return self.arg_items(a, c2, depth + 1)
        sh = classify(e, ctx)
        if not is_identlike(sh) and any(self.roots_to(x, ctx, self.operands) for x in synq.walk(e) if x.get("k") == "path"):
            CTX_OF[id(e)] = ctx
            return [("atom", [(CODE, "operands")], e)]
        CTX_OF[id(e)] = ctx
        return [("atom", sh, e)]

    def fmt_items(self, fm, ctx):
        out = []
        for kind, v in template_pieces(fm):
            if kind == "lit":
                out.append(("lit", v))
            else:
                out.extend(self.arg_items(v, ctx, 3) if v is not None else [("atom", [(CODE, "?")], None)])
        return out

    def collect(self, node, ctx, out):
        """out: dict(stmt=[items], exprs=[[items]], decls=[[items]])"""
        k = node.get("k")
        if k == "macro":
            nm = synq.short(node["name"])
            if nm in ("uwrite", "uwriteln") and node.get("args"):
                fm = synq.Fmt(node)
                if fm.dest is not None and render(fm.dest) in SINKS:
                    out["stmt"].extend(self.fmt_items(fm, ctx))
                    if nm == "uwriteln":
                        out["stmt"].append(("lit", "\n"))
                    return
        if k == "mcall":
            recv = render(node["recv"])
            m = node["method"]
            if m == "push_str" and recv in SINKS and len(node["args"]) == 1:
                out["stmt"].extend(self.arg_items(node["args"][0], ctx))
                return
            if m == "push" and self.roots_to(node["recv"], ctx, self.results) and len(node["args"]) == 1:
                out["exprs"].append(self.arg_items(node["args"][0], ctx))
                return
            if m == "push" and recv == "self.handle_decls" and len(node["args"]) == 1:
                out["decls"].append(self.arg_items(node["args"][0], ctx))
                return
            if self.inline and recv == "self" and m not in ("push_str", "tmp"):
                callee = self.method(m)
                if callee is not None and callee.name not in self.stack and len(self.stack) < 4:
                    for a in node["args"]:
                        self.collect(a, ctx, out)
                    env = {}
                    names = [p for p in callee.params if p != "self"]
                    for nm, arg in zip(names, node["args"]):
                        if nm:
                            env[nm] = (arg, ctx)
                    self.stack.append(callee.name)
                    try:
                        self.collect(callee.body, Ctx(callee, env), out)
                    finally:
                        self.stack.pop()
                    return
        if k == "if":
            self.collect(node["cond"], ctx, out)
            branches = [node["then"]]
            if node.get("else") is not None:
                branches.append(node["else"])
            self.alts(branches, ctx, out, optional=node.get("else") is None)
            return
        if k == "match":
            self.collect(node["scrut"], ctx, out)
            self.alts([a["body"] for a in node["arms"]], ctx, out, optional=False)
            return
        if k in ("for", "while", "loop"):
            if k == "for":
                self.collect(node["iter"], ctx, out)
            self.alts([node["body"]], ctx, out, optional=True)
            return
        for c in children(node):
            self.collect(c, ctx, out)

    def alts(self, branches, ctx, out, optional):
        subs = []
        for b in branches:
            o = dict(stmt=[], exprs=out["exprs"], decls=out["decls"])
            self.collect(b, ctx, o)
            subs.append(o["stmt"])
        if any(subs):
            if optional:
                subs.append([])
            out["stmt"].append(("alt", subs))

    def run(self, fn, node=None, env=None):
        out = dict(stmt=[], exprs=[], decls=[])
        self.stack = [fn.name]
        self.collect(node if node is not None else fn.body, Ctx(fn, env), out)
        return out


# ------------------------------------------------------------------------------------------------ tokens
# token: (kind, value, extra) with kind in 'word' (value = shape), 'code', 'punct' (value = text), 'str',
# 'alt_begin' / 'alt_next' / 'alt_end'
TWO = {"=>", "::", "==", "!=", "<=", ">=", "->", "&&", "||", ".."}


def tokenize(items):
    toks = []
    cur = []  # shape under construction
    src = []  # hole expressions merged into the word under construction
    st = {"instr": False}  # inside a string literal of the generated code (may span holes)

    def flush():
        if cur:
            toks.append(("word", list(cur), list(src)))
            cur.clear()
            src.clear()

    def lit(text):
        i = 0
        n = len(text)
        if st["instr"]:
            while i < n and text[i] != '"':
                i += 2 if text[i] == "\\" else 1
            if i >= n:
                return
            st["instr"] = False
            toks.append(("str", "", None))
            i += 1
        while i < n:
            c = text[i]
            if c.isalnum() or c == "_":
                j = i
                while j < n and (text[j].isalnum() or text[j] == "_"):
                    j += 1
                if cur and cur[-1][0] == "lit":
                    cur[-1] = ("lit", cur[-1][1] + text[i:j])
                else:
                    cur.append(("lit", text[i:j]))
                i = j
                continue
            flush()
            if c.isspace():
                i += 1
                continue
            if c == "/" and text[i:i + 2] == "//":
                j = text.find("\n", i)
                i = n if j < 0 else j
                continue
            if c == '"':
                j = i + 1
                while j < n and text[j] != '"':
                    j += 2 if text[j] == "\\" else 1
                if j >= n:
                    st["instr"] = True  # the literal continues after a hole
                    return
                toks.append(("str", text[i + 1:j], None))
                i = j + 1
                continue
            if text[i:i + 2] in TWO:
                toks.append(("punct", text[i:i + 2], None))
                i += 2
                continue
            toks.append(("punct", c, None))
            i += 1

    def go(items):
        for it in items:
            if it[0] == "lit":
                lit(it[1])
            elif it[0] == "atom":
                if st["instr"]:
                    continue
                if is_identlike(it[1]):
                    if it[2] is not None:
                        src.append(it[2])
                    for a in it[1]:
                        if a[0] == "lit" and cur and cur[-1][0] == "lit":
                            cur[-1] = ("lit", cur[-1][1] + a[1])
                        else:
                            cur.append(a)
                else:
                    flush()
                    toks.append(("code", it[1], it[2]))
            elif it[0] == "alt":
                flush()
                toks.append(("alt_begin", None, None))
                for i, sub in enumerate(it[1]):
                    if i:
                        flush()
                        toks.append(("alt_next", None, None))
                    go(sub)
                flush()
                toks.append(("alt_end", None, None))
    go(items)
    flush()
    return toks


def is_word(t, text=None):
    if t[0] != "word":
        return False
    if text is None:
        return True
    return len(t[1]) == 1 and t[1][0] == ("lit", text)


def word_text(t):
    """literal text of a pure-literal word, else None"""
    if t[0] == "word" and len(t[1]) == 1 and t[1][0][0] == "lit":
        return t[1][0][1]
    return None


def is_punct(t, text):
    return t[0] == "punct" and t[1] == text


MARK = ("alt_begin", "alt_next", "alt_end")


class Binder:
    def __init__(self, kind, shape, depth, index, stmt_end=None, note=""):
        self.kind = kind
        self.shape = shape
        self.depth = depth
        self.index = index
        self.stmt_end = stmt_end
        self.note = note

    @property
    def name(self):
        return shape_str(self.shape)


def pattern_binders(pt):
    """binding identifiers of a pattern given as a token list (markers removed)"""
    out = []
    brace = 0
    n = len(pt)
    for i, t in enumerate(pt):
        if is_punct(t, "{"):
            brace += 1
        elif is_punct(t, "}"):
            brace -= 1
        prv = pt[i - 1] if i > 0 else None
        nxt = pt[i + 1] if i + 1 < n else None
        path_adjacent = (prv is not None and is_punct(prv, "::")) or (nxt is not None and is_punct(nxt, "::"))
        head = nxt is not None and (is_punct(nxt, "(") or is_punct(nxt, "{"))
        if t[0] == "code":
            if path_adjacent or head:
                continue
            if prv is not None and (is_punct(prv, "&") or is_punct(prv, "..")):
                continue
            out.append(("unresolved", t))
            continue
        if t[0] != "word":
            continue
        w = word_text(t)
        if w in ("mut", "ref", "_", "box"):
            continue
        if w is not None and (w[0].isdigit() or w in ("true", "false")):
            continue
        if path_adjacent or head:
            continue
        if brace > 0 and nxt is not None and is_punct(nxt, ":"):
            continue  # field name of a struct pattern
        if w is not None and w[0].isupper() and len(pt) > 0 and brace == 0 and \
                not (prv is not None and (is_punct(prv, "(") or is_punct(prv, ","))):
            # a bare upper-case path used as a pattern (None, a constant)
            continue
        out.append(("bind", t))
    return out


ITEM_KW = {"fn", "struct", "static", "const", "mod", "trait", "type", "enum", "union", "macro_rules"}


def scan(items, expression=False):
    """All binders of a linearised template stream with the brace depth at which each is introduced.
    Also returns (tokens, first index of an operand-stack splice)."""
    toks = tokenize(items)
    n = len(toks)
    binders = []
    depth = 0
    alt_stack = []
    brace_stack = []  # True for transparent braces (extern blocks)

    def nomark(seq):
        return [t for t in seq if t[0] not in MARK]

    def take_until(i, stop):
        """tokens from i until stop(token, paren_depth, brace_depth) -> (list, index of stop token or n)"""
        par = 0
        br = 0
        out = []
        j = i
        while j < n:
            t = toks[j]
            if t[0] in MARK:
                j += 1
                continue
            if stop(t, par, br):
                return out, j
            if t[0] == "punct":
                if t[1] in "([":
                    par += 1
                elif t[1] in ")]":
                    par -= 1
                    if par < 0:
                        return out, j
                elif t[1] == "{":
                    br += 1
                elif t[1] == "}":
                    br -= 1
                    if br < 0:
                        return out, j
            out.append(t)
            j += 1
        return out, n

    def stmt_end_from(i):
        _, j = take_until(i, lambda t, par, br: par == 0 and br == 0 and is_punct(t, ";"))
        return j

    for i, t in enumerate(toks):
        if t[0] == "alt_begin":
            alt_stack.append([depth, []])
            continue
        if t[0] == "alt_next":
            alt_stack[-1][1].append(depth)
            depth = alt_stack[-1][0]
            continue
        if t[0] == "alt_end":
            d0, ds = alt_stack.pop()
            ds.append(depth)
            depth = min(ds)
            continue
        if is_punct(t, "{"):
            prev = nomark(toks[max(0, i - 3):i])
            transparent = len(prev) >= 2 and prev[-1][0] == "str" and is_word(prev[-2], "extern")
            brace_stack.append(transparent)
            if not transparent:
                depth += 1
            continue
        if is_punct(t, "}"):
            transparent = brace_stack.pop() if brace_stack else False
            if not transparent:
                depth -= 1
            continue
        w = word_text(t)
        if w == "let":
            prev = nomark(toks[max(0, i - 2):i])
            cond = bool(prev) and (is_word(prev[-1], "if") or is_word(prev[-1], "while"))
            pt, j = take_until(i + 1, lambda t, par, br: par == 0 and (
                (is_punct(t, "=") or is_punct(t, ";")) and br == 0 or (is_punct(t, ":") and br == 0)))
            send = stmt_end_from(i + 1)
            for kind, tok in pattern_binders(pt):
                binders.append(Binder("iflet" if cond else "let", tok[1], depth, i, send,
                                      "unresolved" if kind == "unresolved" else ""))
        elif w == "for":
            pt, j = take_until(i + 1, lambda t, par, br: par == 0 and br == 0 and (
                is_word(t, "in") or is_punct(t, "{") or is_punct(t, ";")))
            if j < n and is_word(toks[j], "in"):
                for kind, tok in pattern_binders(pt):
                    binders.append(Binder("for", tok[1], depth, i, None, "unresolved" if kind == "unresolved" else ""))
        elif is_punct(t, "=>"):
            # pattern = tokens back to the previous `{` `,` `}` at the same nesting
            par = 0
            j = i - 1
            pt = []
            while j >= 0:
                u = toks[j]
                if u[0] in MARK:
                    j -= 1
                    continue
                if u[0] == "punct":
                    if u[1] in ")]":
                        par += 1
                    elif u[1] in "([":
                        par -= 1
                    elif par == 0 and u[1] in ("{", "}", ",", ";"):
                        break
                pt.append(u)
                j -= 1
            pt.reverse()
            for kind, tok in pattern_binders(pt):
                binders.append(Binder("arm", tok[1], depth, i, None, "unresolved" if kind == "unresolved" else ""))
        elif is_punct(t, "|"):
            prev = nomark(toks[max(0, i - 2):i])
            binary = bool(prev) and (prev[-1][0] in ("word", "code", "str") or is_punct(prev[-1], ")"))
            if not binary:
                pt, j = take_until(i + 1, lambda t, par, br: par == 0 and is_punct(t, "|"))
                if j < n and len(pt) <= 6 and all(x[0] in ("word", "code") or is_punct(x, ",") or is_punct(x, "(")
                                                  or is_punct(x, ")") for x in pt):
                    for kind, tok in pattern_binders(pt):
                        binders.append(Binder("closure", tok[1], depth, i, None,
                                              "unresolved" if kind == "unresolved" else ""))
        elif w in ITEM_KW:
            j = i + 1
            while j < n and toks[j][0] in MARK:
                j += 1
            if j < n and toks[j][0] in ("word", "code") and not (w == "fn" and False):
                nm = toks[j]
                wt = word_text(nm)
                if wt == "_" or (w == "const" and wt in ("fn", "unsafe")):
                    continue
                if nm[0] == "code":
                    binders.append(Binder("item", nm[1], depth, i, None, "unresolved"))
                else:
                    binders.append(Binder("item", nm[1], depth, i, stmt_end_from(i), w))
        elif w == "use":
            pt, j = take_until(i + 1, lambda t, par, br: par == 0 and br == 0 and is_punct(t, ";"))
            ws = [x for x in pt if x[0] in ("word", "code")]
            if ws:
                nm = ws[-1]
                binders.append(Binder("item", nm[1], depth, i, j, "use" if nm[0] == "word" else "unresolved"))
    splice = None
    for i, t in enumerate(toks):
        if t[0] == "code" and t[1] == [(CODE, "operands")]:
            splice = i
            break
    return binders, toks, splice


# ------------------------------------------------------------------------------------------------ name languages
KW_SET = {w for w, _, _, _ in KEYWORDS}


def user_image(s):
    """can `s` be the image of some WIT identifier under to_rust_ident?"""
    if s.endswith("_") and s[:-1] in KW_SET:
        return True
    return bool(USER_RE.match(s))


def in_user_language(shape):
    """a sample of the shape's language that a WIT identifier can produce, or None"""
    for s in samples(shape):
        if "\x00" in s:
            continue
        if user_image(s):
            return s
    return None


# ------------------------------------------------------------------------------------------------ abi phases
def abi_phases(V):
    """Instruction variants (V: the heads of FunctionBindgen::emit's match) by the phase of abi::call (guest import
    direction) in which abi.rs emits them."""
    gen = {f.name: f for f in synq.all_fns(ABI) if f.self_ty == "Generator" and f.body is not None}

    def closure(roots):
        seen = set()
        todo = [r for r in roots if r in gen]
        while todo:
            x = todo.pop()
            if x in seen:
                continue
            seen.add(x)
            for m in synq.method_calls(gen[x].body):
                if render(m["recv"]) in ("self", "self_") and m["method"] in gen and m["method"] not in seen:
                    todo.append(m["method"])
        return seen

    lower_fns = closure(["lower", "write_to_memory"])
    lift_fns = closure(["lift", "read_from_memory"])
    if lower_fns & lift_fns - {"emit", "push_block", "finish_block"} - {f for f in lower_fns & lift_fns
                                                                        if not synq.constructed(gen[f].body, V)}:
        shared = sorted(f for f in lower_fns & lift_fns if synq.constructed(gen[f].body, V))
    else:
        shared = []
    lower = set()
    for f in lower_fns:
        lower.update(n for n, _ in synq.constructed(gen[f].body, V))
    lift = set()
    for f in lift_fns:
        lift.update(n for n, _ in synq.constructed(gen[f].body, V))
    # abi::call, arm LowerArgsLiftResults: what precedes / follows CallWasm
    call = gen.get("call")
    if call is None:
        raise mir.AnchorMissing("abi.rs Generator::call")
    m = synq.find_match(call.body, "LiftLower::")
    arm = synq.arm_for(m, "LiftLower::LowerArgsLiftResults")
    cons = synq.constructed(arm.body, V)
    cw = [n for nm, n in cons if nm == "CallWasm"]
    if len(cw) != 1:
        raise mir.AnchorMissing("abi::call: exactly one CallWasm in the LowerArgsLiftResults arm")
    pre = {nm for nm, n in cons if start(n) < start(cw[0])}
    post = {nm for nm, n in cons if start(n) > start(cw[0])}
    rp = [c for c in synq.method_calls(arm.body, "return_pointer")]
    rp_pre = all(start(c) < start(cw[0]) for c in rp)
    # GetArg is emitted only by call / post_return themselves, never inside a block
    getarg_all = sorted(f for f in gen if any(n == "GetArg" for n, _ in synq.constructed(gen[f].body, ["GetArg"])))
    # a private Generator method every caller of which (anywhere in abi.rs, transitively) is call / post_return is part
    # of call / post_return: it runs at their function scope
    allfns = [f for f in synq.all_fns(ABI) if f.body is not None]

    def callers(name):
        out = set()
        for f in allfns:
            hit = [m for m in synq.method_calls(f.body, name)] + \
                  [c for c in synq.fn_calls(f.body, name) if c["func"]["path"] in (f"Self::{name}", f"Generator::{name}")]
            if hit:
                out.add((f.self_ty, f.name))
        return out
    accepted = {"call", "post_return"}
    changed = True
    while changed:
        changed = False
        for g in getarg_all:
            if g in accepted or gen[g].node.get("vis", "") != "":
                continue
            cs = callers(g)
            if cs and all(ty == "Generator" and nm in accepted for ty, nm in cs):
                accepted.add(g)
                changed = True
    getarg_fns = sorted({"call" if (g in accepted and g not in ("call", "post_return")) else g for g in getarg_all})
    return dict(V=V, lower=lower, lift=lift, pre=pre, post=post, rp=len(rp), rp_pre=rp_pre, getarg_fns=getarg_fns,
                lower_fns=lower_fns, lift_fns=lift_fns, shared=shared)


# ================================================================================================ rules
# ============================================================================ R9.6 the embedded component type
_ASCII = {
    "is_ascii_alphanumeric": lambda b: chr(b).isascii() and chr(b).isalnum() and b < 128,
    "is_ascii_alphabetic": lambda b: b < 128 and chr(b).isalpha(),
    "is_ascii_digit": lambda b: 48 <= b <= 57,
    "is_ascii_hexdigit": lambda b: chr(b) in "0123456789abcdefABCDEF",
    "is_ascii_punctuation": lambda b: 33 <= b <= 47 or 58 <= b <= 64 or 91 <= b <= 96 or 123 <= b <= 126,
    "is_ascii_graphic": lambda b: 33 <= b <= 126,
    "is_ascii_whitespace": lambda b: b in (9, 10, 12, 13, 32),
    "is_ascii_control": lambda b: b < 32 or b == 127,
    "is_ascii_uppercase": lambda b: 65 <= b <= 90,
    "is_ascii_lowercase": lambda b: 97 <= b <= 122,
    "is_ascii": lambda b: b < 128,
}
_RUST_ESC = {"\\\\": 92, '\\"': 34, "\\0": 0, "\\n": 10, "\\r": 13, "\\t": 9, "\\'": 39}


class _Unknown(Exception):
    pass


def _byte_of(src):
    src = src.strip()
    m = re.fullmatch(r"b'(\\?.)'", src)
    if m:
        c = m.group(1)
        if len(c) == 1:
            return ord(c)
        return {"\\n": 10, "\\r": 13, "\\t": 9, "\\0": 0, "\\\\": 92, "\\'": 39, '\\"': 34}.get(c, None)
    m = re.fullmatch(r"(0x[0-9a-fA-F_]+|\d+)(u8)?", src)
    if m:
        return int(m.group(1).replace("_", ""), 0)
    raise _Unknown(f"byte literal `{src}`")


def _pat_matches(p, b):
    k = p.get("k")
    if k == "p_wild":
        return True
    if k == "p_ident":
        return True
    if k == "p_lit":
        lit = p["lit"]
        if lit.get("k") == "int":
            return int(lit["v"]) == b
        raise _Unknown(f"literal pattern {lit.get('k')}")
    if k == "p_range":
        m = re.fullmatch(r"(.*?)\s*(\.\.=|\.\.)\s*(.*)", p["src"])
        if not m:
            raise _Unknown(p["src"])
        lo = _byte_of(m.group(1)) if m.group(1) else 0
        hi = _byte_of(m.group(3)) if m.group(3) else 255
        return lo <= b <= hi if m.group(2) == "..=" else lo <= b < hi
    if k == "p_or":
        return any(_pat_matches(x, b) for x in synq.pat_alts(p))
    if k in ("p_ref", "p_paren"):
        return _pat_matches(p.get("pat") or p.get("e"), b)
    raise _Unknown(f"pattern kind {k}")


def _guard(g, b):
    k = g.get("k")
    if k == "binary" and g["op"] in ("||", "&&"):
        l, r = _guard(g["l"], b), _guard(g["r"], b)
        return (l or r) if g["op"] == "||" else (l and r)
    if k == "unary" and g["op"] == "!":
        return not _guard(g["e"], b)
    if k == "mcall" and not g["args"] and g["method"] in _ASCII and g["recv"].get("k") in ("path", "unary", "ref"):
        return _ASCII[g["method"]](b)
    if k == "binary" and g["op"] in ("==", "!=", "<", "<=", ">", ">="):
        sides = []
        for e in (g["l"], g["r"]):
            t = render(e).lstrip("*&")
            try:
                sides.append(_byte_of(t))
            except _Unknown:
                sides.append(None)
        if sides.count(None) == 1:
            v = sides[0] if sides[0] is not None else sides[1]
            a, c = (b, v) if sides[0] is None else (v, b)
            return {"==": a == c, "!=": a != c, "<": a < c, "<=": a <= c, ">": a > c, ">=": a >= c}[g["op"]]
    raise _Unknown(f"guard `{render(g)}`")


def r96(rep):
    """The encoded world is embedded as `*b"...\\<newline>..."`: a byte-string literal wrapped with backslash-newline
    continuations (which skip the following line's leading whitespace).  The per-byte escaper is evaluated as a function
    over all 256 byte values."""
    f = synq.find_fn(LIB, "emit_custom_section")
    rep.saw(f"{LIB}::emit_custom_section")
    ms = [m for m in synq.matches_in(f.body) if any("\\x{:02x}" in x["v"] for a in m["arms"] for x in synq.strings(a["body"]))]
    rep.floor("R9.6", "byte escaper of the embedded component type", len(ms), 1)
    if len(ms) != 1:
        rep.ob("R9.6", "one per-byte escaper writes the embedded component type", False, f"{len(ms)} candidates", f.loc())
        return
    m = ms[0]
    wraps = [x for x in synq.strings(f.body) if x["v"] == "\\\n"]
    rep.ob("R9.6", "the literal is wrapped with backslash-newline continuations", bool(wraps), "", f.loc(m), nontrivial=False)
    literal, wrong, unhandled = [], [], []
    try:
        for b in range(256):
            arm = None
            for a in m["arms"]:
                if _pat_matches(a["pat"], b) and (a.get("guard") is None or _guard(a["guard"], b)):
                    arm = a
                    break
            if arm is None:
                unhandled.append(b)
                continue
            strs = [x["v"] for x in synq.strings(arm["body"])]
            pushes_self = any(mc["method"] == "push" and "byte" in render(mc["args"]) or
                              mc["method"] == "push" and re.search(r"char::from\(\*?\w+\)|as char", render(mc["args"]))
                              for mc in synq.method_calls(arm["body"]))
            if pushes_self:
                literal.append(b)
            elif any("\\x{:02x}" in v or "\\x{:02X}" in v for v in strs):
                pass
            elif len(strs) == 1 and strs[0] in _RUST_ESC:
                if _RUST_ESC[strs[0]] != b:
                    wrong.append((b, strs[0]))
            else:
                raise _Unknown(f"arm body `{render(arm['body'])[:80]}`")
    except _Unknown as e:
        rep.ob("R9.6", "the byte escaper is understood (patterns, guards, arm bodies)", False, str(e), f.loc(m))
        return
    rep.ob("R9.6", "the byte escaper handles all 256 byte values", not unhandled, f"{unhandled[:8]}", f.loc(m))
    bad = [b for b in literal if not (33 <= b <= 126) or b in (34, 92)]
    rep.ob("R9.6", "every byte written as itself into the wrapped byte-string literal is a non-blank printable ASCII "
           "character other than `\\` and `\"`", not bad,
           ("bytes " + ", ".join(f"0x{b:02x}" for b in bad[:8]) + " are written raw: a blank that lands first on a wrapped line is "
            "skipped by the `\\`-newline continuation, so the literal is shorter than the declared [u8; N] (E0308 on wasm32) "
            "and the embedded world is corrupted") if bad else f"{len(literal)} byte values are written raw", f.loc(m))
    rep.ob("R9.6", "every fixed escape sequence denotes the byte it stands for", not wrong, f"{wrong[:6]}", f.loc(m))


def run(rep, tier):
    rep.describe(
        "other",
        "Structural necessary conditions for the generated Rust to compile as the requested world. R9.1: the string "
        "arms of to_rust_ident cover every strict/reserved keyword of the Rust reference (edition 2024) that is a "
        "valid WIT word, the escape images are fresh, and WIT names reach identifier positions through the escaping "
        "functions (module path components, function / parameter / field names, type definitions). R9.2: the Rust "
        "templates of FunctionBindgen and of the import scaffolding are linearised and every binder (let, for, closure, "
        "match arm, if-let, nested item) is classified by name language, brace depth and ABI phase; a binder that is "
        "in scope at function level while user-named operands are still pending (lowering phase, return-pointer "
        "set-up, the text before the CallWasm splice, the import prologue) must not be spellable by a WIT identifier; "
        "generator-chosen operand roots (arg{i}, ptr, value, _lower{i} ...) must not coincide with any template "
        "temporary. R9.3: both halves of an export use the same post-return guard, names, signatures and async "
        "prefixes and every export_name carries the export prefix. R9.4: templates do not name a prelude item "
        "unqualified that a user type can shadow. R9.6: the per-byte escaper of the embedded component type "
        "(a byte-string literal wrapped with backslash-newline) is evaluated over all 256 byte values: only non-blank "
        "printable ASCII other than `\\` and `\"` is written raw, fixed escapes denote their byte. NOT decided: that rustc accepts the output, that wit-component "
        "accepts the module, value-level behaviour, the type-namespace families Guest{Resource} / {Resource}Borrow / "
        "{Type}Param / {Type}Result.",
        trusted_base=["syn parse of the generator sources", "Rust reference keyword list transcribed in rules/C09.py",
                      "wit-parser validate_id (kebab words, later words may start with a digit)",
                      "heck snake/upper-camel case do not split at letter/digit boundaries",
                      "std::prelude::rust_2024 name list transcribed in rules/C09.py"],
        assumptions=["A1: user-named operands (GetArg) are pushed only at function scope by abi::call and consumed by "
                     "CallWasm; blocks (variant arms, list bodies) only consume payload / element / base operands "
                     "(checked: GetArg is constructed only in Generator::call and Generator::post_return)",
                     "A2: in exported functions and post-return functions no user-named local exists (parameters are "
                     "arg{i})"],
    )
    for rel in (LIB, IFACE, BG, ABI, MACRO):
        rep.saw(file=rel)
    rep.guard("R9.1", "keyword table", lambda: r91(rep))
    rep.guard("R9.1", "identifier sites", lambda: r91_sites(rep))
    rep.guard("R9.1", "type names", lambda: r91_types(rep))
    rep.guard("R9.1", "case names", lambda: r91_cases(rep))
    rep.guard("R9.1", "resource references", lambda: r91_refs(rep))
    state = {}
    rep.guard("R9.2", "template binders", lambda: r92(rep, state))
    rep.guard("R9.2", "operand roots", lambda: r92_roots(rep, state))
    rep.guard("R9.3", "export halves", lambda: r93(rep))
    rep.guard("R9.4", "prelude names", lambda: r94(rep, state))
    rep.guard("R9.5", "per-iteration items", lambda: r95(rep))
    rep.guard("R9.6", "embedded component type", lambda: r96(rep))


# ------------------------------------------------------------------------------------------------ R9.1
def str_table(fn):
    """The function read as a table over its string parameter: ({literal: entry}, catch-all entry, anchor node).
    entry = dict(node, body, binds): `body` is the value expression, `binds` the names bound to the matched word.
    Understood: `match p { "a" | "b" => .., kw @ ("c" | "d") => .., s => .. }` (first match wins) and leading
    `if p == "a" || p == "b" { return ..; }` statements; the rest of the body is the catch-all."""
    params = [x for x in fn.params if x and x != "self"]
    lits = {}
    catch = None
    anchor = fn.node

    def lit_alts(p, binds):
        """[(literal or None for a catch-all, binds)] of a pattern"""
        k = p.get("k")
        if k == "p_or":
            out = []
            for c in p["cases"]:
                out += lit_alts(c, binds)
            return out
        if k in ("p_ref", "p_paren"):
            return lit_alts(p.get("pat") or p.get("sub"), binds)
        if k == "p_ident":
            if p.get("sub"):
                return lit_alts(p["sub"], binds + [p["name"]])
            return [(None, binds + [p["name"]])]
        if k == "p_wild":
            return [(None, binds)]
        if k == "p_lit" and isinstance(p.get("lit"), dict) and p["lit"].get("k") == "str":
            return [(p["lit"]["v"], binds)]
        return [("\x00?", binds)]

    def cond_lits(c):
        """literals of `p == "a" || "b" == p || matches!(p, "a" | "b")`, else None"""
        if c.get("k") == "binary" and c["op"] == "||":
            l, r = cond_lits(c["l"]), cond_lits(c["r"])
            return None if l is None or r is None else l + r
        if c.get("k") == "binary" and c["op"] == "==":
            for x, y in ((c["l"], c["r"]), (c["r"], c["l"])):
                if x.get("k") == "path" and x["path"] in params and y.get("k") == "str":
                    return [y["v"]]
        if c.get("k") == "macro" and synq.short(c["name"]) == "matches" and c.get("expr") is not None and \
                c["expr"].get("k") == "path" and c["expr"]["path"] in params and c.get("pat") is not None:
            al = lit_alts(c["pat"], [])
            if all(isinstance(w, str) and not w.startswith("\x00") for w, _ in al):
                return [w for w, _ in al]
        return None

    def from_match(m):
        nonlocal catch, anchor
        anchor = m
        for a in m["arms"]:
            if a.get("guard") is not None:
                continue
            for w, binds in lit_alts(a["pat"], []):
                ent = dict(node=a, body=a["body"], binds=binds)
                if w is None:
                    if catch is None:
                        catch = ent
                elif catch is None:
                    lits.setdefault(w, ent)

    stmts = fn.body.get("stmts") or []
    for i, st in enumerate(stmts):
        e = st.get("e") if st.get("k") == "expr_stmt" else None
        last = i == len(stmts) - 1
        if e is not None and e.get("k") == "if" and e.get("else") is None and e["cond"].get("k") != "let_cond":
            ws = cond_lits(e["cond"])
            ts = e["then"].get("stmts") or []
            if ws and len(ts) == 1 and ts[0].get("k") == "expr_stmt" and ts[0]["e"].get("k") == "return":
                for w in ws:
                    lits.setdefault(w, dict(node=e, body=ts[0]["e"].get("e"), binds=[]))
                continue
        if e is not None and last and not st.get("semi"):
            if e.get("k") == "match" and e["scrut"].get("k") == "path" and e["scrut"]["path"] in params:
                from_match(e)
            else:
                catch = dict(node=e, body=e, binds=[])
            continue
        if st.get("k") == "let":
            continue
        break
    if not lits:
        raise mir.AnchorMissing(f"{fn.name}: no string-literal case found")
    return lits, catch, anchor


def arm_value(ent, fn, word):
    """the string an entry evaluates to for the matched word (`"x_".into()`, `format!("{kw}_")`), else None"""
    b = ent["body"]
    if b is None:
        return None
    t = tail_expr(b) if b.get("k") == "block" else b
    if t is None:
        return None
    sh = classify(t, Ctx(fn))
    params = [p for p in fn.params if p and p != "self"]
    out = ""
    for a in sh:
        if a[0] == "lit":
            out += a[1]
        elif a[0] == CODE and (a[1] in params or a[1] in ent["binds"]):
            out += word
        else:
            return None
    return out


def r91(rep):
    f = synq.find_fn(LIB, "to_rust_ident")
    rep.saw(f"{LIB}::to_rust_ident")
    lits, catch, m = str_table(f)
    rep.floor("R9.1", "string literals handled by to_rust_ident", len(lits), 50)
    # the repository's edition (the proc macro output is compiled with the user's edition; the workspace and the
    # test harness use 2024)
    relevant = [(w, c, ref, ed) for (w, c, ref, ed) in KEYWORDS if WIT_WORD_RE.match(w) and ed <= EDITION]
    rep.floor("R9.1", "reference keywords that are valid WIT words", len(relevant), 51)
    images = {}
    for w, c, ref, ed in relevant:
        a = lits.get(w)
        val = arm_value(a, f, w) if a is not None else None
        ok = a is not None and val is not None and val != w and val not in KW_SET
        rep.ob("R9.1", f"to_rust_ident escapes {c} keyword `{w}`", ok,
               (f"no string arm for \"{w}\": a WIT item named `{w}` is emitted verbatim ({ref}; reserved since "
                f"edition {ed})") if a is None else f"arm yields {val!r}", f.loc(a["node"]) if a else f.loc(m))
        if val is not None:
            images[w] = val
    # images are fresh: not the image of another WIT identifier and pairwise distinct
    for w, val in sorted(images.items()):
        fresh = not USER_RE.match(val) and (re.fullmatch(r"[A-Za-z_][A-Za-z0-9_]*", val) is not None or (
            val == "r#" + w and w not in ("self", "super", "crate")))
        rep.ob("R9.1", f"escape image of `{w}` is an identifier no other WIT name maps to", fresh,
               f"`{w}` -> `{val}`", f.loc(lits[w]["node"]), nontrivial=False)
    rep.ob("R9.1", "escape images are pairwise distinct", len(set(images.values())) == len(images), "", f.loc(m))
    # arms for words that are not keywords would rename ordinary identifiers: must still be fresh (no obligation on
    # their presence); the catch-all converts with snake case
    cv = render(catch["body"]) if catch else ""
    rep.ob("R9.1", "the catch-all arm of to_rust_ident is heck's snake case of the name",
           catch is not None and cv.endswith(".to_snake_case()"), cv, f.loc(catch["node"]) if catch else f.loc(m))


def r91_sites(rep):
    # (i) every component of a generated module path passes through to_rust_ident
    f = synq.find_fn(LIB, "compute_module_path")
    rep.saw(f"{LIB}::compute_module_path")
    pushes = [m for m in synq.method_calls(f.body, "push")]
    rep.floor("R9.1", "module path components pushed by compute_module_path", len(pushes), 5)
    wk = synq.find_match(f.body, "WorldKey::")
    seen = {}
    for m in pushes:
        where = "prefix"
        for a in synq.arms(wk):
            if contains(a.node, start(m)):
                where = "/".join(synq.short(h) for h in a.heads)
        idx = seen[where] = seen.get(where, 0) + 1
        a = m["args"][0]
        sh = classify(a, Ctx(f))
        lit = len(sh) == 1 and sh[0][0] == "lit"
        escaped = a.get("k") == "call" and synq.short(render(a["func"])) == "to_rust_ident"
        what = synq.short(render(a["func"])) if a.get("k") == "call" else render(a)
        ok = escaped or (lit and sh[0][1] not in KW_SET)
        rep.ob("R9.1", f"compute_module_path: {where} component {idx} is keyword-escaped", ok,
               f"`{what}(..)` is pushed without to_rust_ident: a package named like a Rust keyword (`package a:loop`) "
               f"becomes `pub mod loop`" if not ok else (sh[0][1] if lit else what), f.loc(m))
    g = synq.find_fn(IFACE, "start_append_submodule", self_ty="InterfaceGenerator")
    mm = synq.find_match(g.body, "WorldKey::")
    for a in synq.arms(mm):
        t = tail_expr(a.body) if a.body.get("k") == "block" else a.body
        ok = t is not None and t.get("k") == "call" and synq.short(render(t["func"])) == "to_rust_ident"
        rep.ob("R9.1", f"start_append_submodule: module name of {'/'.join(a.heads)} is keyword-escaped", ok,
               render(t)[:80] if t else "", g.loc(a.node))
    # (ii) function and parameter names of every printed signature
    h = synq.find_fn(IFACE, "print_docs_and_params", self_ty="InterfaceGenerator")
    rep.saw(f"{IFACE}::print_docs_and_params")
    def from_item_name(e):
        """does the expression (through let-bound locals) come from `func.item_name()`?"""
        e2 = e
        while e2.get("k") == "ref":
            e2 = e2["e"]
        if synq.method_calls(e2, "item_name"):
            return True
        if e2.get("k") == "path":
            r = resolve_name(h, e2["path"], start(e2))
            if r is not None and r[0] == "let" and r[1].get("init") is not None:
                return bool(synq.method_calls(r[1]["init"], "item_name"))
        return False
    esc_sites = [c for c in synq.fn_calls(h.body, "to_rust_ident") if from_item_name(c["args"][0])]
    raw_sites = [m for m in synq.method_calls(h.body, "push_str") if from_item_name(m["args"][0])]
    rep.ob("R9.1", "print_docs_and_params: the function name is emitted through to_rust_ident",
           len(esc_sites) == 1 and not raw_sites, f"{len(esc_sites)} escaped, {len(raw_sites)} raw", h.loc())
    # the parameter loop: the name pushed to the source and to `params` is the escaped one
    loops = [n for n in synq.walk(h.body) if n.get("k") == "for"]
    ok = False
    for lp in loops:
        bound = {nm: init for nm, init, st in synq.bindings(lp["body"])}
        esc = [nm for nm, init in bound.items() if init is not None and init.get("k") == "call" and
               synq.short(render(init["func"])) == "to_rust_ident"]
        pushed = [render(m["args"][0]).lstrip("&") for m in synq.method_calls(lp["body"], "push_str")]
        vec = [m["args"][0] for m in synq.method_calls(lp["body"], "push") if render(m["recv"]) == "params"]
        if esc:
            nm = esc[0]
            raw = set(pat_names(lp["pat"])) - {nm}
            vec_ok = all(render(v) in (nm, '"self".to_string()') or
                         (v.get("k") == "macro" and nm in [x[1] for x in synq.Fmt(v).holes()]) for v in vec)
            ok = nm in pushed and vec_ok and len(vec) >= 2
    rep.ob("R9.1", "print_docs_and_params: parameter names are emitted and recorded as operands through to_rust_ident",
           ok, "", h.loc())
    # (iii) record fields: definition, Debug access, lowering pattern, lifting literal
    for rel, fn_, ty in ((IFACE, "print_typedef_record", "InterfaceGenerator"), (BG, "record_lower", "FunctionBindgen"),
                         (BG, "record_lift", "FunctionBindgen")):
        ff = synq.find_fn(rel, fn_, self_ty=ty)
        rep.saw(f"{rel}::{fn_}")
        def is_name_field(e):
            while e.get("k") in ("ref",) or (e.get("k") == "mcall" and e["method"] in UNWRAP_METHODS):
                e = e["e"] if e.get("k") == "ref" else e["recv"]
            return e.get("k") == "field" and e["member"] == "name"
        cs = synq.fn_calls(ff.body, "to_rust_ident")
        want = 2 if fn_ == "print_typedef_record" else 1
        raw = [m for m in synq.method_calls(ff.body, "push_str") if is_name_field(m["args"][0])]
        rep.ob("R9.1", f"{fn_}: record field names are emitted through to_rust_ident",
               len(cs) >= want and all(is_name_field(c["args"][0]) for c in cs) and not raw,
               f"{len(cs)} escaped site(s), {len(raw)} raw", ff.loc())
    # (iv) the trait method called by an export
    e = synq.find_fn(BG, "emit", self_ty="FunctionBindgen")
    m = synq.find_match(e.body, "Instruction::", min_arms=20)
    ci = synq.arm_for(m, "Instruction::CallInterface")
    fm = [x for x in synq.fmts(ci.body) if x.template and x.template.startswith("T_::{")]
    ok = bool(fm) and all(he[2] is not None and he[2].get("k") == "call" and
                          synq.short(render(he[2]["func"])) == "to_rust_ident" for x in fm for he in x.hole_exprs())
    rep.floor("R9.1", "CallInterface `T_::{}` templates", len(fm), 2)
    rep.ob("R9.1", "CallInterface: the trait method name is emitted through to_rust_ident", ok, "", e.loc(ci.node))
    total = sum(len(synq.fn_calls(f_.body, "to_rust_ident")) for rel in (LIB, IFACE, BG) for f_ in synq.all_fns(rel)
                if f_.body is not None and f_.name != "to_rust_ident")
    rep.floor("R9.1", "to_rust_ident call sites in the Rust generator", total, 8)


def r91_types(rep):
    f = synq.find_fn(LIB, "to_upper_camel_case")
    rep.saw(f"{LIB}::to_upper_camel_case")
    lits, catch, m = str_table(f)
    # the trait generated for an exported interface / world
    ge = synq.find_fn(IFACE, "generate_exports", self_ty="InterfaceGenerator")
    trait_names = [s["v"] for s in synq.strings(ge.body) if s["v"] == "Guest"]
    rep.ob("R9.1", "generate_exports names the root trait `Guest`", len(trait_names) >= 1, "", ge.loc())
    a = lits.get("guest")
    val = arm_value(a, f, "guest") if a is not None else None
    rep.ob("R9.1", "to_upper_camel_case remaps the WIT type name `guest` away from the trait name `Guest`",
           a is not None and val is not None and val != "Guest" and not CAMEL_RE.match(val),
           f"arm yields {val!r}", f.loc(a["node"]) if a else f.loc(m))
    # `Self` is a strict keyword and the upper camel image of the valid WIT name `self`
    a = lits.get("self")
    val = arm_value(a, f, "self") if a is not None else None
    rep.ob("R9.1", "to_upper_camel_case remaps the WIT type name `self` away from the keyword `Self`",
           a is not None and val not in (None, "Self"),
           "no string arm for \"self\": `record self {..}` is emitted as `pub struct Self`" if a is None else f"{val!r}",
           f.loc(a["node"]) if a else f.loc(m))
    # references to a named type go through result_name / param_name, which use the remapping function; every
    # definition of a named type must use the same function (or modes_of, which calls result_name / param_name)
    for nm in ("result_name", "param_name"):
        g = synq.find_fn(IFACE, nm, self_ty="InterfaceGenerator")
        cs = synq.fn_calls(g.body, "to_upper_camel_case")
        heck = synq.method_calls(g.body, "to_upper_camel_case")
        rep.ob("R9.1", f"{nm}: references to a named type use the remapping to_upper_camel_case", len(cs) == 1 and not heck,
               "", g.loc())
    defs = [x for x in synq.all_fns(IFACE) if x.name.startswith("type_") and x.body is not None and
            x.trait is not None and x.trait.endswith("InterfaceGenerator")]
    rep.floor("R9.1", "type_* definition methods of the Rust InterfaceGenerator", len(defs), 15)
    for d in defs:
        rep.saw(f"{IFACE}::{d.name}")
        pn = None
        for p in d.node["sig"]["params"]:
            if not p.get("self") and p["ty"].replace(" ", "") == "&str" and p["pat"].get("k") == "p_ident":
                pn = p["pat"]["name"]
        if pn is None:
            continue
        raw = [mc for mc in synq.method_calls(d.body, "to_upper_camel_case") if render(mc["recv"]) == pn]
        rep.ob("R9.1", f"{d.name}: the defined type name goes through the remapping to_upper_camel_case", not raw,
               f"`{pn}.to_upper_camel_case()` (heck) names the definition while references use the remapped name: a "
               f"type named `guest` is defined as `Guest` and referenced as `Guest_`" if raw else "",
               d.loc(raw[0]) if raw else d.loc())


def r91_cases(rep):
    """variant / enum case names: the use sites spell a case exactly as the definition does (heck upper camel)"""
    PATH_RX = re.compile(r"\{\w+\}::\{(?P<hole>\w+)\}")
    emit = synq.find_fn(BG, "emit", self_ty="FunctionBindgen")
    m = synq.find_match(emit.body, "Instruction::", min_arms=20)
    te = synq.find_fn(IFACE, "type_enum")
    sites = [("VariantLower", emit, synq.arm_for(m, "Instruction::VariantLower").body),
             ("VariantLift", emit, synq.arm_for(m, "Instruction::VariantLift").body),
             ("type_enum::_lift", te, te.body)]
    n = 0
    for nm, f, node in sites:
        inits = []
        for mm, fm in fn_templates(f, node, PATH_RX):
            init = local_init(f, mm.group("hole"), start(fm.template_node))
            if init is None:
                continue
            if init.get("k") == "mcall" and init["recv"].get("k") == "field" and init["recv"]["member"] == "name":
                inits.append(init)
        n += len(inits)
        ok = bool(inits) and all(i["method"] == "to_upper_camel_case" and not i["args"] for i in inits)
        rep.ob("R9.1", f"{nm}: a case is named by heck's upper camel case of its WIT name, as in the definition", ok,
               f"{[i['method'] for i in inits]}", f.loc(node))
    rep.floor("R9.1", "case-path templates at use sites", n, 4)
    for fn_, want in (("print_rust_enum", 2), ("print_typedef_enum", 4)):
        f = synq.find_fn(IFACE, fn_, self_ty="InterfaceGenerator")
        rep.saw(f"{IFACE}::{fn_}")
        c = synq.method_calls(f.body, "to_upper_camel_case")
        other = [x for x in synq.fn_calls(f.body, "to_rust_ident")]
        rep.ob("R9.1", f"{fn_}: cases are defined with heck's upper camel case of their WIT name", len(c) >= want and not other,
               f"{len(c)} conversion(s)", f.loc())


def r91_refs(rep):
    """the resource struct `{camel}` and `{camel}Borrow` are defined by type_resource with the remapping function;
    template holes that denote them elsewhere must be produced the same way (or by type_path)"""
    REF_RX = re.compile(r"\{(?P<hole>\w+)\}(?P<suf>::new\b|::dtor\b|Borrow\b)")
    tr = synq.find_fn(IFACE, "type_resource")
    defs = [render(i) for nm, i, st in synq.bindings(tr.body) if i is not None and i.get("k") == "call" and
            synq.short(render(i["func"])) == "to_upper_camel_case"]
    rep.ob("R9.1", "type_resource names the resource struct with the remapping to_upper_camel_case", len(defs) == 1,
           f"{defs}", tr.loc())
    n = 0
    seen = set()
    for rel in (IFACE, BG):
        for f in synq.all_fns(rel):
            if f.body is None or f.name == "type_resource":
                continue
            for mm, fm in fn_templates(f, f.body, REF_RX):
                init = local_init(f, mm.group("hole"), start(fm.template_node))
                if init is None:
                    continue
                heck = [x for x in synq.method_calls(init, "to_upper_camel_case")]
                viafn = [x for x in synq.fn_calls(init, "to_upper_camel_case")] or synq.method_calls(init, "type_path")
                if not heck and not viafn:
                    continue
                key = (f.name, mm.group("suf"))
                if key in seen:
                    continue
                seen.add(key)
                n += 1
                rep.ob("R9.1", f"{f.name}: `{{..}}{mm.group('suf')}` names the resource type as type_resource defines it",
                       not heck,
                       "the hole is heck's `.to_upper_camel_case()` of the WIT name while the definition uses the remapping "
                       "function: a resource named `guest` is defined as `Guest_` / `Guest_Borrow` and referenced as "
                       "`Guest` / `GuestBorrow`" if heck else render(init)[:80], f.loc(fm.template_node))
    rep.floor("R9.1", "resource type references outside type_path", n, 5)


# ------------------------------------------------------------------------------------------------ R9.2
def unit_streams(em, fn, node=None):
    out = em.run(fn, node)
    streams = [("stmt", out["stmt"])] if out["stmt"] else []
    streams += [("expr", x) for x in out["exprs"]]
    streams += [("decl", x) for x in out["decls"]]
    return streams


def r92(rep, state):
    emit0 = synq.find_fn(BG, "emit", self_ty="FunctionBindgen")
    m0 = synq.find_match(emit0.body, "Instruction::", min_arms=20)
    V = sorted({synq.short(h) for a in synq.arms(m0) for h in a.heads if h != "_"})
    rep.floor("R9.2", "Instruction variants matched by FunctionBindgen::emit", len(V), 90)
    ph = abi_phases(V)
    rep.saw(f"{ABI}::Generator::call")
    rep.ob("R9.2", "A1: GetArg is constructed only by Generator::call and Generator::post_return",
           set(ph["getarg_fns"]) <= {"call", "post_return"} and "call" in ph["getarg_fns"], f"{ph['getarg_fns']}", ABI)
    rep.ob("R9.2", "abi::call (import direction) sets up return pointers before CallWasm", ph["rp"] >= 2 and ph["rp_pre"],
           f"{ph['rp']} return_pointer call(s)", ABI)
    rep.ob("R9.2", "lowering and lifting helper closures of abi.rs construct disjoint instruction sets per helper",
           not ph["shared"], f"{ph['shared']}", ABI, nontrivial=False)
    emit = synq.find_fn(BG, "emit", self_ty="FunctionBindgen")
    vecs = [p["pat"]["name"] for p in emit.node["sig"]["params"] if not p.get("self") and
            p["ty"].replace(" ", "") == "&mutVec<String>"]
    if len(vecs) != 2:
        raise mir.AnchorMissing("FunctionBindgen::emit: (operands, results) parameters")
    em = Emitter("FunctionBindgen", BG, results=("emit", vecs[1]), operands=("emit", vecs[0]))
    rep.saw(f"{BG}::emit")
    m = synq.find_match(emit.body, "Instruction::", min_arms=20)
    units = []  # (unit name, phase, fn, streams, loc)
    heads_seen = set()
    for a in synq.arms(m):
        heads = [synq.short(h) for h in a.heads if h != "_"]
        heads_seen.update(heads)
        if not heads:
            continue
        if any(h in ph["lower"] for h in heads):
            phase = "lower"
        elif "CallWasm" in heads:
            phase = "call"
        elif any(h in ph["lift"] for h in heads):
            phase = "lift"
        else:
            phase = "other"
        units.append(("emit " + "|".join(heads), phase, emit, unit_streams(em, emit, a.node["body"]), emit.loc(a.node)))
    rep.floor("R9.2", "arms of FunctionBindgen::emit", len(units), 60)
    rp = synq.find_fn(BG, "return_pointer", self_ty="FunctionBindgen")
    rep.saw(f"{BG}::return_pointer")
    units.append(("return_pointer", "callprep", rp, unit_streams(em, rp), rp.loc()))
    em2 = Emitter("InterfaceGenerator", IFACE, inline=False)
    for nm, phase in (("generate_guest_import_body_sync", "import-prologue"), ("generate_guest_export", "export")):
        g = synq.find_fn(IFACE, nm, self_ty="InterfaceGenerator")
        rep.saw(f"{IFACE}::{nm}")
        units.append((nm, phase, g, unit_streams(em2, g), g.loc()))
    state["units"] = units
    state["phases"] = ph

    fams = {}  # (name, class) -> dict(sites, ok, why, loc)
    nbind = 0
    for uname, phase, fn, streams, loc in units:
        for skind, items in streams:
            binders, toks, splice = scan(items)
            for b in binders:
                nbind += 1
                if b.note == "unresolved" or not is_identlike(b.shape):
                    key = (shape_str(b.shape) or "?", "unresolved")
                    fams.setdefault(key, dict(sites=[], ok=False, loc=loc,
                                              why="the bound name could not be resolved to literal text, a counter or a "
                                                  "WIT-derived name (fail closed)"))["sites"].append(uname)
                    continue
                hit = in_user_language(b.shape)
                scoped = b.kind in ("for", "closure", "arm", "iflet") or b.depth > 0 or skind == "expr"
                if hit is None:
                    cls, ok, why = "protected", True, "no WIT identifier maps to this name (upper case / leading underscore)"
                elif scoped:
                    cls, ok = "block-scoped", True
                    why = (f"`{hit}` is spellable by a WIT identifier but the binding is scoped to a block the template "
                           f"opens itself ({b.kind}, depth {b.depth}); user-named operands are spliced at function scope only (A1)")
                elif skind == "decl":
                    cls, ok, why = "export-only", True, "queued in handle_decls: emitted only by CallInterface (exports, A2)"
                elif phase in ("lift", "other", "export"):
                    cls, ok = "post-call", True
                    why = (f"`{hit}` is spellable by a WIT identifier but the template runs after CallWasm consumed every "
                           f"user-named operand, or only in exports / post-return where no user-named local exists (A2)")
                elif phase == "call" and splice is not None and b.kind == "let" and b.stmt_end is not None and \
                        b.stmt_end > splice > b.index:
                    cls, ok = "post-call", True
                    why = "bound by the statement whose initialiser is the call: not in scope for the spliced operands"
                else:
                    cls, ok = "function-scope", False
                    why = (f"a WIT identifier maps to `{hit}`: the template binds it at function scope ({b.kind}) while "
                           f"user-named operands are still to be spliced ({phase}); the user's value is shadowed")
                d = fams.setdefault((b.name, cls), dict(sites=[], ok=ok, why=why, loc=loc))
                if uname not in d["sites"]:
                    d["sites"].append(uname)
    state["fams"] = fams
    rep.floor("R9.2", "binders found in the Rust templates", nbind, 60)
    rep.floor("R9.2", "distinct (name, class) binder families", len(fams), 30)
    for (name, cls), d in sorted(fams.items()):
        if cls == "function-scope":
            inst = f"function-scope temporary `{name}` is outside the image of to_rust_ident"
        elif cls == "unresolved":
            inst = f"binder `{name}` resolves to a name language"
        else:
            inst = f"binder `{name}` ({cls}) cannot capture a user-named operand"
        rep.ob("R9.2", inst, d["ok"], d["why"] + " — sites: " + ", ".join(d["sites"][:8]), d["loc"])


def root_shapes(rep):
    """generator-chosen operand roots handed to FunctionBindgen (names of locals the scaffolding itself declares)"""
    roots = []
    for nm in ("print_export_sig", "print_post_return_sig"):
        f = synq.find_fn(IFACE, nm, self_ty="InterfaceGenerator")
        rep.saw(f"{IFACE}::{nm}")
        for m in synq.method_calls(f.body, "push"):
            if render(m["recv"]) == "params":
                roots.append((nm, classify(m["args"][0], Ctx(f)), f.loc(m)))
    wrappers = {"lift_from_memory", "lower_to_memory", "deallocate_lists", "deallocate_lists_and_own"}
    for f in synq.all_fns(IFACE):
        if f.body is None or f.self_ty != "InterfaceGenerator" or f.name in wrappers:
            continue
        for m in synq.method_calls(f.body):
            if m["method"] in wrappers and render(m["recv"]) == "self":
                for a in m["args"]:
                    for s in synq.walk(a):
                        if s.get("k") == "str":
                            roots.append((f.name, [("lit", s["v"])], f.loc(m)))
                    if a.get("k") in ("ref", "path"):
                        sh = classify(a, Ctx(f))
                        if is_identlike(sh):
                            roots.append((f.name, sh, f.loc(m)))
        for c in synq.fn_calls(f.body, "lower_flat"):
            sh = classify(c["args"][2], Ctx(f))
            roots.append((f.name, sh, f.loc(c)))
        if f.name == "generate_guest_import_body_async":
            for m in synq.method_calls(f.body, "push"):
                if render(m["recv"]) == "dealloc_lists_params":
                    sh = classify(m["args"][0], Ctx(f))
                    # `_params.{i}`: the root local is the text before the field access
                    lit0 = sh[0][1].split(".")[0] if sh and sh[0][0] == "lit" else None
                    if lit0:
                        roots.append((f.name, [("lit", lit0)], f.loc(m)))
    return roots


def r92_roots(rep, state):
    fams = state.get("fams")
    if fams is None:
        raise mir.AnchorMissing("binder families not computed")
    roots = root_shapes(rep)
    uniq = {}
    for where, sh, loc in roots:
        if not is_identlike(sh):
            uniq.setdefault(("?" + shape_str(sh), where), (sh, loc, False))
            continue
        uniq.setdefault((shape_str(sh), where), (sh, loc, True))
    rep.floor("R9.2", "generator-chosen operand roots", len(uniq), 8)
    # every binder of a FunctionBindgen template, whatever its scope: a root operand is spliced everywhere
    binder_shapes = {}
    for uname, phase, fn, streams, loc in state["units"]:
        if not (uname.startswith("emit ") or uname == "return_pointer"):
            continue
        for skind, items in streams:
            for b in scan(items)[0]:
                # WIT-derived families are reported by their own obligation
                if is_identlike(b.shape) and not any(a[0] == "user" for a in b.shape):
                    binder_shapes.setdefault(b.name, (b.shape, uname))
    for (name, where), (sh, loc, ok0) in sorted(uniq.items()):
        if not ok0:
            rep.ob("R9.2", f"{where}: operand root `{name}` resolves to a name", False, "not resolvable (fail closed)", loc)
            continue
        clash = []
        for bn, (bs, uname) in binder_shapes.items():
            rx = shape_regex(bs)
            if any(rx.match(s) for s in samples(sh)):
                clash.append(f"{bn} ({uname})")
        rep.ob("R9.2", f"{where}: operand root `{name}` differs from every template temporary", not clash,
               "coincides with " + ", ".join(clash) if clash else "", loc)


# ------------------------------------------------------------------------------------------------ R9.3
def bool_param(f):
    c = [p["pat"]["name"] for p in f.node["sig"]["params"] if not p.get("self") and p["ty"].replace(" ", "") == "bool"
         and p["pat"].get("k") == "p_ident"]
    return c[0] if len(c) == 1 else None


def local_init(f, name, pos):
    r = resolve_name(f, name, pos)
    if r is not None and r[0] == "let" and r[1].get("init") is not None:
        return r[1]["init"]
    return None


def fn_templates(f, node, rx):
    """(match, Fmt) for every format template under node matching rx"""
    out = []
    for fm in synq.fmts(node):
        if fm.template:
            for m in rx.finditer(fm.template):
                out.append((m, fm))
    return out


def norm_names(f, node, rx):
    """[(prefix, rendered initialiser of the hole local, suffix)] of the names a template defines / calls"""
    out = []
    for m, fm in fn_templates(f, node, rx):
        init = local_init(f, m.group("hole"), start(fm.template_node))
        out.append((m.group("pre"), render(init, synq.param_roles(f)) if init is not None else "?" + m.group("hole"),
                    m.group("suf")))
    return out


DEF_RX = re.compile(r"\bfn\s+(?P<pre>_[A-Za-z_]*)\{(?P<hole>\w+)\}(?P<suf>[A-Za-z_]*)")
USE_RX = re.compile(r"\{\w+\}::(?P<pre>_[A-Za-z_]*)\{(?P<hole>\w+)\}(?P<suf>[A-Za-z_]*)")


def r93(rep):
    ge = synq.find_fn(IFACE, "generate_guest_export", self_ty="InterfaceGenerator")
    gr = synq.find_fn(IFACE, "generate_raw_cabi_export", self_ty="InterfaceGenerator")
    gx = synq.find_fn(IFACE, "generate_exports", self_ty="InterfaceGenerator")
    rep.saw(f"{IFACE}::generate_guest_export")
    rep.saw(f"{IFACE}::generate_raw_cabi_export")
    allg = [(f, c) for f in synq.all_fns(IFACE) if f.body is not None
            for c in synq.fn_calls(f.body, "guest_export_needs_post_return")]
    rep.floor("R9.3", "guest_export_needs_post_return guards in the Rust generator", len(allg), 2)
    rep.ob("R9.3", "guest_export_needs_post_return is consulted exactly by the definition and the wrapper half",
           sorted(f.name for f, _ in allg) == ["generate_guest_export", "generate_raw_cabi_export"],
           f"{[f.name for f, _ in allg]}", IFACE)

    def guard_shape(f):
        ab = bool_param(f)
        for n in synq.walk(f.body):
            if n.get("k") == "if" and n.get("else") is not None and n["else"].get("k") == "if" and \
                    synq.fn_calls(n["else"]["cond"], "guest_export_needs_post_return"):
                inner = n["else"]
                ren = {ab: "$async"} if ab else {}
                ren.update(synq.param_roles(f))
                if ab:
                    ren[ab] = "$async"
                return dict(cond=render(n["cond"], ren), guard=render(inner["cond"], ren), then=n["then"],
                            elif_=inner["then"], has_else=inner.get("else") is not None, node=n)
        return None
    a, b = guard_shape(ge), guard_shape(gr)
    rep.ob("R9.3", "both halves test `if async {callback} else if guest_export_needs_post_return(..) {post-return}`",
           a is not None and b is not None and a["cond"] == b["cond"] == "$async" and a["guard"] == b["guard"] and
           not a["has_else"] and not b["has_else"],
           f"definition: {a and (a['cond'], a['guard'])}; wrapper: {b and (b['cond'], b['guard'])}",
           ge.loc(a["node"]) if a else ge.loc())
    if a is None or b is None:
        return
    for what, dn, un in (("callback (async)", a["then"], b["then"]), ("post-return (sync)", a["elif_"], b["elif_"])):
        d, u = norm_names(ge, dn, DEF_RX), norm_names(gr, un, USE_RX)
        rep.ob("R9.3", f"{what}: the wrapper calls the function the definition half defines",
               len(d) == 1 and d == u and not d[0][1].startswith("?"), f"defines {d}, wrapper calls {u}", gr.loc(un))
    inner_d = norm_names(ge, a["then"], DEF_RX) + norm_names(ge, a["elif_"], DEF_RX)
    inner_u = norm_names(gr, b["then"], USE_RX) + norm_names(gr, b["elif_"], USE_RX)
    d = [x for x in norm_names(ge, ge.body, DEF_RX) if x not in inner_d]
    u = [x for x in norm_names(gr, gr.body, USE_RX) if x not in inner_u]
    rep.ob("R9.3", "export: the wrapper calls the `_export_*_cabi` function the definition half defines",
           len(d) == 1 and d == u and not d[0][1].startswith("?"), f"defines {d}, wrapper calls {u}", gr.loc())
    # signatures: same helper with the same arguments (parameters canonicalised by declared type)
    def roles(f):
        ren = dict(synq.param_roles(f))
        ab = bool_param(f)
        if ab:
            ren[ab] = "$async"
        return ren
    sig_locals = {}
    for helper in ("print_export_sig", "print_post_return_sig"):
        x = [render(m["args"], roles(ge)) for m in synq.method_calls(ge.body, helper)]
        ym = synq.method_calls(gr.body, helper)
        y = [render(m["args"], roles(gr)) for m in ym]
        rep.ob("R9.3", f"both halves print the core signature with {helper} on the same arguments",
               len(x) == 1 and x == y, f"{x} / {y}", gr.loc())
        for nm, init, st in synq.bindings(gr.body):
            if init is not None and any(init is m for m in ym):
                sig_locals[(nm, tuple(st["sp"]))] = helper
    # wrapper forwards exactly the parameters it printed
    fw = [(m, fm) for m, fm in fn_templates(gr, gr.body, USE_RX)]
    okfw = bool(fw)
    for m, fm in fw:
        pos = [e for e in fm.positional]
        good = False
        if len(pos) == 1 and pos[0].get("k") == "mcall" and pos[0]["method"] == "join" and pos[0]["recv"].get("k") == "path":
            r = resolve_name(gr, pos[0]["recv"]["path"], start(pos[0]))
            good = r is not None and r[0] == "let" and (pos[0]["recv"]["path"], tuple(r[1]["sp"])) in sig_locals
        elif len(pos) == 0 and "(event0, event1, event2)" in fm.template:
            good = True
        okfw = okfw and good
    rep.floor("R9.3", "wrapper forwarding templates", len(fw), 3)
    rep.ob("R9.3", "the wrappers forward the printed parameters in order", okfw, "", gr.loc())
    # async flavour: ABI variant, export-name prefix
    pes = synq.find_fn(IFACE, "print_export_sig", self_ty="InterfaceGenerator")

    def async_if(f, then_pred, else_pred):
        ab = bool_param(f)
        for n in synq.walk(f.body):
            if n.get("k") == "if" and ab and render(n["cond"]) == ab and n.get("else") is not None:
                t, e = tail_expr(n["then"]), tail_expr(n["else"])
                if t is not None and e is not None and then_pred(render(t)) and else_pred(render(e)):
                    return n
        return None
    v1 = async_if(ge, lambda s: s.endswith("GuestExportAsync"), lambda s: s.endswith("GuestExport"))
    v2 = async_if(pes, lambda s: s.endswith("GuestExportAsync"), lambda s: s.endswith("GuestExport"))
    rep.ob("R9.3", "definition body and core signature select the ABI variant by the same async flag",
           v1 is not None and v2 is not None, "", ge.loc(v1) if v1 else ge.loc())
    v3 = async_if(gr, lambda s: re.search(r"\[async-lift\]\{\w+\}", s) is not None, lambda s: "[async-lift]" not in s)
    rep.ob("R9.3", "the export name carries `[async-lift]` exactly when the async variant is generated", v3 is not None,
           "", gr.loc(v3) if v3 else gr.loc())
    # every export_name attribute starts with the export prefix option; holes that are plain locals are read through
    # their `let` initialiser (format!, `+` concatenation, clone / as_str / to_string), transitively
    STRIP = {"clone", "as_str", "to_string", "to_owned", "into", "as_ref"}

    def flat(f, e, depth=0):
        """[('lit', text) | ('hole', terminal expression)] of the text an expression evaluates to"""
        orig = e
        while e is not None and (e.get("k") == "ref" or (e.get("k") == "mcall" and e["method"] in STRIP and not e["args"])):
            e = e["e"] if e.get("k") == "ref" else e["recv"]
        if e is None or depth > 8:
            return [("hole", orig)]
        k = e.get("k")
        if k == "str":
            return [("lit", e["v"])]
        if k == "macro" and synq.short(e["name"]) == "format" and e.get("args"):
            out = []
            for kind, v in template_pieces(synq.Fmt(e)):
                out += [("lit", v)] if kind == "lit" else flat(f, v, depth + 1)
            return out
        if k == "binary" and e["op"] == "+":
            return flat(f, e["l"], depth + 1) + flat(f, e["r"], depth + 1)
        if k == "path" and "::" not in e["path"]:
            r = resolve_name(f, e["path"], start(e))
            if r is not None and r[0] == "let" and r[1]["pat"].get("k") == "p_ident" and not r[1]["pat"].get("mut") \
                    and r[1].get("init") is not None:
                init = r[1]["init"]
                sub = flat(f, init, depth + 1)
                if len(sub) == 1 and sub[0][0] == "hole" and sub[0][1] is init:
                    return [("hole", init)]
                return sub
        return [("hole", orig)]

    en = []
    for f in (gr, gx):
        for fm in synq.fmts(f.body):
            if not fm.template or "export_name" not in fm.template:
                continue
            pieces = []
            for kind, v in template_pieces(fm):
                pieces += [("lit", v)] if kind == "lit" else flat(f, v)
            holes = []
            text = ""
            for kind, v in pieces:
                if kind == "lit":
                    text += v
                else:
                    text += "\x01%d\x01" % len(holes)
                    holes.append(v)
            for mm in re.finditer(r'export_name\s*=\s*"([^"]*)"', text):
                body = mm.group(1)
                lead = re.match(r"\x01(\d+)\x01", body)
                rest = body[lead.end():] if lead else body
                en.append((f, fm, holes[int(lead.group(1))] if lead else None, re.sub(r"\x01\d+\x01", "*", rest)))
    rep.floor("R9.3", "export_name attributes in the Rust templates", len(en), 4)
    for f, fm, init, t in en:
        rep.ob("R9.3", f"{f.name}: export_name `<prefix>{t[:40]}` starts with the export_prefix option",
               init is not None and render(init) == 'self.r#gen.opts.export_prefix.as_deref().unwrap_or("")',
               render(init)[:100] if init is not None else "no leading hole", f.loc(fm.template_node))
    # the macro forwards the option
    mc = synq.find_fn(MACRO, "parse", self_ty="Config")
    asg = [n for n in synq.walk(mc.body) if n.get("k") == "assign" and n["l"].get("k") == "field" and
           n["l"]["member"] == "export_prefix"]
    rep.ob("R9.3", "the macro forwards `export_prefix` to the generator options", len(asg) == 1, "", mc.loc())


# ------------------------------------------------------------------------------------------------ R9.5
def gen_loops(f):
    """(pattern nodes, body, node) of every `for` loop and every closure handed to `for_each`"""
    out = []
    for n in synq.walk(f.body):
        if n.get("k") == "for":
            out.append(([n["pat"]], n["body"], n))
        elif n.get("k") == "mcall" and n["method"] == "for_each" and n["args"] and n["args"][0].get("k") == "closure":
            c = n["args"][0]
            out.append((c.get("params", []), c["body"], c))
    return out


def depends_on_loop(e, ctx, f, loop, depth=0):
    """does the expression (through let-bound locals and inlined call arguments) mention a variable bound by the
    loop, by a loop nested in it, or a fresh counter (`self.tmp()`)?"""
    if e is None or depth > 10:
        return False
    pats, body, node = loop
    for x in synq.walk(e):
        if x.get("k") == "mcall" and x["method"] == "tmp" and render(x["recv"]) == "self":
            return True
        if x.get("k") != "path" or "::" in x["path"]:
            continue
        name = x["path"]
        if ctx.fn is f and contains(body, start(x)) or ctx.fn is f and any(contains(p, start(x)) for p in pats):
            r = resolve_name(f, name, start(x))
        elif ctx.fn is not None and ctx.fn is not f:
            r = resolve_name(ctx.fn, name, start(x))
        else:
            r = resolve_name(f, name, start(x)) if ctx.fn is f else None
        if r is None or r[0] == "param":
            if name in ctx.env:
                a, c2 = ctx.env[name]
                if depends_on_loop(a, c2, f, loop, depth + 1):
                    return True
            continue
        if r[0] == "let":
            init = r[1].get("init")
            if ctx.fn is f and not contains(body, start(r[1])):
                continue  # bound outside the loop: the same for every iteration
            if init is not None and depends_on_loop(init, ctx, f, loop, depth + 1):
                return True
        elif r[0] in ("for", "closure", "arm", "iflet"):
            bn = r[1]
            if ctx.fn is not f:
                # a pattern variable of the callee: follow what it destructures
                src = bn.get("iter") if r[0] == "for" else None
                if src is not None and depends_on_loop(src, ctx, f, loop, depth + 1):
                    return True
                continue
            if bn is node or contains(body, start(bn)):
                if r[0] in ("for", "closure"):
                    return True
                src = bn["cond"]["e"] if r[0] == "iflet" else None
                if src is not None and depends_on_loop(src, ctx, f, loop, depth + 1):
                    return True
                if r[0] == "arm":
                    for mnode in synq.walk(body):
                        if mnode.get("k") == "match" and any(a is bn for a in mnode.get("arms", [])):
                            if depends_on_loop(mnode["scrut"], ctx, f, loop, depth + 1):
                                return True
    return False


def r95(rep):
    """A generator loop that writes Rust item definitions: each item written per iteration is named after the loop
    element or sits inside a scope the same iteration opens."""
    nloops = 0
    nitems = 0
    fams = {}
    for rel, tys in ((IFACE, None), (BG, None)):
        for f in synq.all_fns(rel):
            if f.body is None:
                continue
            for loop in gen_loops(f):
                pats, body, node = loop
                em = Emitter(f.self_ty, rel, inline=True)
                em.stack = [f.name]
                out = dict(stmt=[], exprs=[], decls=[])
                em.collect(body, Ctx(f), out)
                if not out["stmt"]:
                    continue
                binders, toks, _ = scan(out["stmt"])
                items = [b for b in binders if b.kind == "item"]
                if not items:
                    continue
                nloops += 1
                rep.saw(f"{rel}::{f.name}")
                for b in items:
                    nitems += 1
                    j = b.index + 1
                    while j < len(toks) and toks[j][0] in MARK:
                        j += 1
                    kw = word_text(toks[b.index]) or "item"
                    if kw == "use":
                        # the bound name is the last word of the statement
                        nm = None
                        for t in toks[b.index + 1:b.stmt_end if b.stmt_end else len(toks)]:
                            if t[0] in ("word", "code"):
                                nm = t
                    else:
                        nm = toks[j] if j < len(toks) else None
                    exprs = []
                    if nm is not None and nm[0] == "word":
                        exprs = list(nm[2] or [])
                    elif nm is not None and nm[0] == "code" and nm[2] is not None:
                        exprs = [nm[2]]
                    dep = any(a[0] == "ctr" for a in b.shape) or \
                        any(depends_on_loop(e, CTX_OF.get(id(e), Ctx(f)), f, loop) for e in exprs)
                    enclosed = b.depth > 0
                    ok = dep or enclosed
                    why = ("named after the loop element" if dep else
                           f"inside a scope opened by the same iteration (depth {b.depth})" if enclosed else
                           f"`{kw} {b.name}` has the same name in every iteration and is written directly into the scope "
                           f"all iterations share: two elements define it twice (E0428)")
                    d = fams.setdefault((f.name, kw, b.name), dict(ok=True, why=why, loc=f.loc(node)))
                    if not ok:
                        d.update(ok=False, why=why, loc=f.loc(node))
    rep.floor("R9.5", "generator loops that write Rust items", nloops, 12)
    rep.floor("R9.5", "items written per iteration", nitems, 30)
    for (fn_, kw, name), d in sorted(fams.items()):
        rep.ob("R9.5", f"{fn_}: per-iteration item `{kw} {name}` is element-named or enclosed in a scope of its iteration",
               d["ok"], d["why"], d["loc"])


# ------------------------------------------------------------------------------------------------ R9.4
def r94(rep, state):
    units = state.get("units")
    if units is None:
        raise mir.AnchorMissing("template units not computed")
    em2 = Emitter("InterfaceGenerator", IFACE, inline=False)
    extra = []
    for nm in ("print_signature", "generate_guest_import_body_async"):
        g = synq.find_fn(IFACE, nm, self_ty="InterfaceGenerator")
        rep.saw(f"{IFACE}::{nm}")
        extra.append((nm, "sig", g, unit_streams(em2, g), g.loc()))
    hits = {}
    ntok = 0
    for uname, phase, fn, streams, loc in list(units) + extra:
        for skind, items in streams:
            toks = [t for t in tokenize(items) if t[0] not in MARK]
            derive = 0
            for i, t in enumerate(toks):
                w = word_text(t)
                if w == "derive":
                    derive = 1
                    continue
                if derive and is_punct(t, "]"):
                    derive = 0
                if w is None or derive:
                    continue
                ntok += 1
                if w not in PRELUDE_TYPE_NS and w not in PRELUDE_VALUE_NS:
                    continue
                prv = toks[i - 1] if i else None
                if prv is not None and is_punct(prv, "::"):
                    continue
                hits.setdefault(w, dict(sites=[], loc=loc))
                if uname not in hits[w]["sites"]:
                    hits[w]["sites"].append(uname)
    rep.floor("R9.4", "literal words scanned in the Rust templates", ntok, 400)
    for w in PRELUDE_TYPE_NS + PRELUDE_VALUE_NS:
        if not CAMEL_RE.match(w):
            continue
        d = hits.get(w)
        ns = "type" if w in PRELUDE_TYPE_NS else "value"
        how = ("any WIT type named `%s`" % camel_to_kebab(w)) if ns == "type" else \
            ("a WIT flags type named `%s` (bitflags defines a tuple struct, i.e. a value-namespace item)" % camel_to_kebab(w))
        rep.ob("R9.4", f"templates never name the prelude item `{w}` unqualified", d is None,
               (f"named without a `::core::..` path in: {', '.join(d['sites'][:8])}; shadowed in the {ns} namespace by {how} "
                f"defined in the same module") if d else "", d["loc"] if d else "", nontrivial=d is not None)


def camel_to_kebab(w):
    return re.sub(r"(?<!^)([A-Z])", r"-\1", w).lower()
