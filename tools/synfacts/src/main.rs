// synfacts: parse Rust source files with syn and dump a generic JSON syntax tree.
//
// usage: synfacts <outdir> <root> <file>...      (file paths relative to root)
//        synfacts --snippet-file <path>          (prints JSON to stdout; tries file, then block)
//
// Every node is {"k": kind, "sp": [line, col, endline, endcol], ...}.
// Macro invocations whose tokens parse as a comma separated expression list
// carry "args"; `matches!`-like forms carry "expr"/"pat"; otherwise "tokens".
use proc_macro2::{Span, TokenStream};
use quote::ToTokens;
use serde_json::{json, Value};
use syn::parse::Parser;
use syn::punctuated::Punctuated;
use syn::spanned::Spanned;
use syn::*;

fn sp(s: Span) -> Value {
    let a = s.start();
    let b = s.end();
    json!([a.line, a.column, b.line, b.column])
}

fn toks<T: ToTokens>(t: &T) -> String {
    let s = t.to_token_stream().to_string();
    // normalise a little: `a :: b` -> `a::b`, `& x` -> `&x`, `< T >` -> `<T>`
    s.replace(" :: ", "::")
        .replace(":: ", "::")
        .replace(" ::", "::")
        .replace(" < ", "<")
        .replace(" <", "<")
        .replace("< ", "<")
        .replace(" >", ">")
        .replace("& ", "&")
        .replace(" ,", ",")
}

fn path_str(p: &Path) -> String {
    let mut s = String::new();
    if p.leading_colon.is_some() {
        s.push_str("::");
    }
    for (i, seg) in p.segments.iter().enumerate() {
        if i > 0 {
            s.push_str("::");
        }
        s.push_str(&seg.ident.to_string());
    }
    s
}

fn attrs(a: &[Attribute]) -> Value {
    Value::Array(
        a.iter()
            .filter(|a| !a.path().is_ident("doc"))
            .map(|a| Value::String(toks(&a.meta)))
            .collect(),
    )
}

fn lit(l: &Lit) -> Value {
    match l {
        Lit::Str(s) => json!({"k":"str","v":s.value(),"sp":sp(s.span())}),
        Lit::ByteStr(s) => json!({"k":"bytestr","v":String::from_utf8_lossy(&s.value()),"sp":sp(s.span())}),
        Lit::Int(i) => json!({"k":"int","v":i.base10_digits(),"suffix":i.suffix(),"sp":sp(i.span())}),
        Lit::Bool(b) => json!({"k":"bool","v":b.value,"sp":sp(b.span())}),
        Lit::Char(c) => json!({"k":"char","v":c.value().to_string(),"sp":sp(c.span())}),
        Lit::Float(f) => json!({"k":"float","v":f.base10_digits(),"sp":sp(f.span())}),
        Lit::Byte(b) => json!({"k":"int","v":b.value().to_string(),"suffix":"u8","sp":sp(b.span())}),
        other => json!({"k":"lit_other","src":toks(other),"sp":sp(other.span())}),
    }
}

fn mac(m: &Macro) -> Value {
    let name = path_str(&m.path);
    let mut v = json!({"k":"macro","name":name,"sp":sp(m.span())});
    let ts: TokenStream = m.tokens.clone();
    let parser = Punctuated::<Expr, Token![,]>::parse_terminated;
    let is_matches = name.ends_with("matches");
    if !is_matches {
        if let Ok(args) = parser.parse2(ts.clone()) {
            v["args"] = Value::Array(args.iter().map(expr).collect());
            return v;
        }
    }
    // matches!(expr, pat [if guard])
    let p2 = |input: parse::ParseStream| -> Result<(Expr, Pat, Option<Expr>)> {
        let e: Expr = input.parse()?;
        input.parse::<Token![,]>()?;
        let p = Pat::parse_multi_with_leading_vert(input)?;
        let g = if input.peek(Token![if]) {
            input.parse::<Token![if]>()?;
            Some(input.parse::<Expr>()?)
        } else {
            None
        };
        let _ = input.parse::<Option<Token![,]>>();
        Ok((e, p, g))
    };
    if let Ok((e, p, g)) = p2.parse2(ts.clone()) {
        v["expr"] = expr(&e);
        v["pat"] = pat(&p);
        if let Some(g) = g {
            v["guard"] = expr(&g);
        }
        return v;
    }
    // block-like macro bodies (statements)
    if let Ok(stmts) = Block::parse_within.parse2(ts.clone()) {
        v["stmts"] = Value::Array(stmts.iter().map(stmt).collect());
        return v;
    }
    // item-list macro bodies
    if let Ok(f) = parse2::<File>(ts.clone()) {
        v["items"] = Value::Array(f.items.iter().map(item).collect());
        return v;
    }
    v["tokens"] = Value::String(ts.to_string());
    v
}

fn block(b: &Block) -> Value {
    json!({"k":"block","stmts":b.stmts.iter().map(stmt).collect::<Vec<_>>(),"sp":sp(b.span())})
}

fn stmt(s: &Stmt) -> Value {
    match s {
        Stmt::Local(l) => {
            let (p, ty) = match &l.pat {
                Pat::Type(pt) => (pat(&pt.pat), Some(toks(&pt.ty))),
                p => (pat(p), None),
            };
            let mut v = json!({"k":"let","pat":p,"sp":sp(l.span())});
            if let Some(t) = ty {
                v["ty"] = Value::String(t);
            }
            if let Some(init) = &l.init {
                v["init"] = expr(&init.expr);
                if let Some((_, e)) = &init.diverge {
                    v["else"] = expr(e);
                }
            }
            v
        }
        Stmt::Item(i) => json!({"k":"item_stmt","item":item(i),"sp":sp(i.span())}),
        Stmt::Expr(e, semi) => json!({"k":"expr_stmt","e":expr(e),"semi":semi.is_some(),"sp":sp(e.span())}),
        Stmt::Macro(m) => json!({"k":"expr_stmt","e":mac(&m.mac),"semi":m.semi_token.is_some(),"sp":sp(m.span())}),
    }
}

fn pat(p: &Pat) -> Value {
    let s = sp(p.span());
    match p {
        Pat::Ident(i) => {
            let mut v = json!({"k":"p_ident","name":i.ident.to_string(),"by_ref":i.by_ref.is_some(),"mut":i.mutability.is_some(),"sp":s});
            if let Some((_, sub)) = &i.subpat {
                v["sub"] = pat(sub);
            }
            v
        }
        Pat::Wild(_) => json!({"k":"p_wild","sp":s}),
        Pat::Path(pp) => json!({"k":"p_path","path":path_str(&pp.path),"sp":s}),
        Pat::TupleStruct(t) => json!({"k":"p_tuple_struct","path":path_str(&t.path),"elems":t.elems.iter().map(pat).collect::<Vec<_>>(),"sp":s}),
        Pat::Struct(st) => json!({"k":"p_struct","path":path_str(&st.path),
            "fields":st.fields.iter().map(|f| json!({"name":toks(&f.member),"pat":pat(&f.pat)})).collect::<Vec<_>>(),
            "rest":st.rest.is_some(),"sp":s}),
        Pat::Tuple(t) => json!({"k":"p_tuple","elems":t.elems.iter().map(pat).collect::<Vec<_>>(),"sp":s}),
        Pat::Or(o) => json!({"k":"p_or","cases":o.cases.iter().map(pat).collect::<Vec<_>>(),"sp":s}),
        Pat::Lit(l) => json!({"k":"p_lit","lit":lit(&l.lit),"sp":s}),
        Pat::Reference(r) => json!({"k":"p_ref","pat":pat(&r.pat),"sp":s}),
        Pat::Slice(sl) => json!({"k":"p_slice","elems":sl.elems.iter().map(pat).collect::<Vec<_>>(),"sp":s}),
        Pat::Rest(_) => json!({"k":"p_rest","sp":s}),
        Pat::Paren(pp) => pat(&pp.pat),
        Pat::Type(t) => {
            let mut v = pat(&t.pat);
            v["ty"] = Value::String(toks(&t.ty));
            v
        }
        Pat::Range(r) => json!({"k":"p_range","src":toks(r),"sp":s}),
        Pat::Const(c) => json!({"k":"p_other","src":toks(c),"sp":s}),
        Pat::Macro(m) => mac(&m.mac),
        other => json!({"k":"p_other","src":toks(other),"sp":s}),
    }
}

fn opt_expr(e: &Option<Box<Expr>>) -> Value {
    match e {
        Some(e) => expr(e),
        None => Value::Null,
    }
}

fn expr(e: &Expr) -> Value {
    let s = sp(e.span());
    match e {
        Expr::Lit(l) => lit(&l.lit),
        Expr::Path(p) => json!({"k":"path","path":path_str(&p.path),"sp":s}),
        Expr::Call(c) => json!({"k":"call","func":expr(&c.func),"args":c.args.iter().map(expr).collect::<Vec<_>>(),"sp":s}),
        Expr::MethodCall(m) => {
            let mut v = json!({"k":"mcall","recv":expr(&m.receiver),"method":m.method.to_string(),
                "args":m.args.iter().map(expr).collect::<Vec<_>>(),"sp":s,"msp":sp(m.method.span())});
            if let Some(t) = &m.turbofish {
                v["turbofish"] = Value::String(toks(t));
            }
            v
        }
        Expr::Macro(m) => mac(&m.mac),
        Expr::Match(m) => json!({"k":"match","scrut":expr(&m.expr),"sp":s,
            "arms":m.arms.iter().map(|a| {
                let mut v = json!({"pat":pat(&a.pat),"body":expr(&a.body),"sp":sp(a.span())});
                if let Some((_, g)) = &a.guard { v["guard"] = expr(g); }
                v
            }).collect::<Vec<_>>()}),
        Expr::If(i) => json!({"k":"if","cond":expr(&i.cond),"then":block(&i.then_branch),
            "else": match &i.else_branch { Some((_, e)) => expr(e), None => Value::Null },"sp":s}),
        Expr::Let(l) => json!({"k":"let_cond","pat":pat(&l.pat),"e":expr(&l.expr),"sp":s}),
        Expr::Block(b) => {
            let mut v = block(&b.block);
            if let Some(l) = &b.label { v["label"] = Value::String(l.name.ident.to_string()); }
            v
        }
        Expr::Unsafe(u) => { let mut v = block(&u.block); v["unsafe"] = Value::Bool(true); v }
        Expr::Const(c) => block(&c.block),
        Expr::Async(a) => { let mut v = block(&a.block); v["async"] = Value::Bool(true); v }
        Expr::Closure(c) => json!({"k":"closure","params":c.inputs.iter().map(pat).collect::<Vec<_>>(),"body":expr(&c.body),
            "move":c.capture.is_some(),"sp":s}),
        Expr::Field(f) => json!({"k":"field","base":expr(&f.base),"member":toks(&f.member),"sp":s}),
        Expr::Index(i) => json!({"k":"index","base":expr(&i.expr),"index":expr(&i.index),"sp":s}),
        Expr::Unary(u) => json!({"k":"unary","op":toks(&u.op),"e":expr(&u.expr),"sp":s}),
        Expr::Binary(b) => json!({"k":"binary","op":toks(&b.op),"l":expr(&b.left),"r":expr(&b.right),"sp":s}),
        Expr::Assign(a) => json!({"k":"assign","l":expr(&a.left),"r":expr(&a.right),"sp":s}),
        Expr::Reference(r) => json!({"k":"ref","mut":r.mutability.is_some(),"e":expr(&r.expr),"sp":s}),
        Expr::Return(r) => json!({"k":"return","e":opt_expr(&r.expr),"sp":s}),
        Expr::Break(b) => json!({"k":"break","e":opt_expr(&b.expr),"label":b.label.as_ref().map(|l| l.ident.to_string()),"sp":s}),
        Expr::Continue(_) => json!({"k":"continue","sp":s}),
        Expr::Tuple(t) => json!({"k":"tuple","elems":t.elems.iter().map(expr).collect::<Vec<_>>(),"sp":s}),
        Expr::Array(a) => json!({"k":"array","elems":a.elems.iter().map(expr).collect::<Vec<_>>(),"sp":s}),
        Expr::Struct(st) => json!({"k":"struct","path":path_str(&st.path),
            "fields":st.fields.iter().map(|f| json!({"name":toks(&f.member),"e":expr(&f.expr),"shorthand":f.colon_token.is_none()})).collect::<Vec<_>>(),
            "rest":opt_expr(&st.rest),"sp":s}),
        Expr::Paren(p) => expr(&p.expr),
        Expr::Group(g) => expr(&g.expr),
        Expr::Cast(c) => json!({"k":"cast","e":expr(&c.expr),"ty":toks(&c.ty),"sp":s}),
        Expr::Range(r) => json!({"k":"range","start":opt_expr(&r.start),"end":opt_expr(&r.end),"limits":toks(&r.limits),"sp":s}),
        Expr::Try(t) => json!({"k":"try","e":expr(&t.expr),"sp":s}),
        Expr::ForLoop(f) => json!({"k":"for","pat":pat(&f.pat),"iter":expr(&f.expr),"body":block(&f.body),"sp":s}),
        Expr::While(w) => json!({"k":"while","cond":expr(&w.cond),"body":block(&w.body),"sp":s}),
        Expr::Loop(l) => json!({"k":"loop","body":block(&l.body),"sp":s}),
        Expr::Await(a) => json!({"k":"await","e":expr(&a.base),"sp":s}),
        Expr::Repeat(r) => json!({"k":"repeat","e":expr(&r.expr),"len":expr(&r.len),"sp":s}),
        other => json!({"k":"other","src":toks(other),"sp":s}),
    }
}

fn sig(sg: &Signature) -> Value {
    json!({
        "name": sg.ident.to_string(),
        "generics": toks(&sg.generics),
        "params": sg.inputs.iter().map(|a| match a {
            FnArg::Receiver(r) => json!({"self":true,"src":toks(r)}),
            FnArg::Typed(t) => json!({"pat":pat(&t.pat),"ty":toks(&t.ty)}),
        }).collect::<Vec<_>>(),
        "ret": match &sg.output { ReturnType::Default => Value::Null, ReturnType::Type(_, t) => Value::String(toks(t)) },
        "unsafe": sg.unsafety.is_some(),
        "async": sg.asyncness.is_some(),
    })
}

fn fields(f: &Fields) -> Value {
    Value::Array(
        f.iter()
            .enumerate()
            .map(|(i, f)| {
                json!({"name": f.ident.as_ref().map(|i| i.to_string()).unwrap_or_else(|| i.to_string()),
                       "ty": toks(&f.ty), "vis": toks(&f.vis), "attrs": attrs(&f.attrs)})
            })
            .collect(),
    )
}

fn item(i: &Item) -> Value {
    let s = sp(i.span());
    match i {
        Item::Fn(f) => json!({"k":"fn","sig":sig(&f.sig),"body":block(&f.block),"attrs":attrs(&f.attrs),"vis":toks(&f.vis),"sp":s}),
        Item::Impl(im) => json!({"k":"impl","self_ty":toks(&im.self_ty),
            "trait": im.trait_.as_ref().map(|(bang, p, _)| format!("{}{}", if bang.is_some() {"!"} else {""}, toks(p))),
            "generics": toks(&im.generics),
            "attrs":attrs(&im.attrs),
            "items": im.items.iter().map(|ii| match ii {
                ImplItem::Fn(f) => json!({"k":"fn","sig":sig(&f.sig),"body":block(&f.block),"attrs":attrs(&f.attrs),"vis":toks(&f.vis),"sp":sp(f.span())}),
                ImplItem::Const(c) => json!({"k":"const","name":c.ident.to_string(),"ty":toks(&c.ty),"e":expr(&c.expr),"sp":sp(c.span())}),
                ImplItem::Type(t) => json!({"k":"type","name":t.ident.to_string(),"ty":toks(&t.ty),"sp":sp(t.span())}),
                ImplItem::Macro(m) => mac(&m.mac),
                other => json!({"k":"other","src":toks(other)}),
            }).collect::<Vec<_>>(),"sp":s}),
        Item::Mod(m) => json!({"k":"mod","name":m.ident.to_string(),"attrs":attrs(&m.attrs),
            "items": m.content.as_ref().map(|(_, items)| items.iter().map(item).collect::<Vec<_>>()),"sp":s}),
        Item::Struct(st) => json!({"k":"struct_def","name":st.ident.to_string(),"generics":toks(&st.generics),"fields":fields(&st.fields),"attrs":attrs(&st.attrs),"sp":s}),
        Item::Enum(en) => json!({"k":"enum_def","name":en.ident.to_string(),"attrs":attrs(&en.attrs),
            "variants": en.variants.iter().map(|v| json!({"name":v.ident.to_string(),"fields":fields(&v.fields),
                "named": matches!(v.fields, Fields::Named(_)),
                "discr": v.discriminant.as_ref().map(|(_, e)| expr(e))})).collect::<Vec<_>>(),"sp":s}),
        Item::Const(c) => json!({"k":"const","name":c.ident.to_string(),"ty":toks(&c.ty),"e":expr(&c.expr),"attrs":attrs(&c.attrs),"sp":s}),
        Item::Static(c) => json!({"k":"static","name":c.ident.to_string(),"ty":toks(&c.ty),"e":expr(&c.expr),"attrs":attrs(&c.attrs),"sp":s}),
        Item::Trait(t) => json!({"k":"trait","name":t.ident.to_string(),"attrs":attrs(&t.attrs),
            "items": t.items.iter().map(|ti| match ti {
                TraitItem::Fn(f) => json!({"k":"fn","sig":sig(&f.sig),"body":f.default.as_ref().map(block),"attrs":attrs(&f.attrs),"sp":sp(f.span())}),
                other => json!({"k":"other","src":toks(other)}),
            }).collect::<Vec<_>>(),"sp":s}),
        Item::Macro(m) => {
            let mut v = mac(&m.mac);
            if let Some(id) = &m.ident { v["ident"] = Value::String(id.to_string()); }
            v["attrs"] = attrs(&m.attrs);
            v
        }
        Item::Use(u) => json!({"k":"use","src":toks(&u.tree),"sp":s}),
        Item::Type(t) => json!({"k":"type","name":t.ident.to_string(),"ty":toks(&t.ty),"sp":s}),
        Item::ForeignMod(fm) => json!({"k":"foreign_mod","attrs":attrs(&fm.attrs),
            "items": fm.items.iter().map(|fi| match fi {
                ForeignItem::Fn(f) => json!({"k":"foreign_fn","sig":sig(&f.sig),"attrs":attrs(&f.attrs),"sp":sp(f.span())}),
                other => json!({"k":"other","src":toks(other)}),
            }).collect::<Vec<_>>(),"sp":s}),
        other => json!({"k":"other","src":toks(other),"sp":s}),
    }
}

fn parse_text(text: &str) -> std::result::Result<Value, String> {
    match parse_file(text) {
        Ok(f) => Ok(json!({"mode":"file","attrs":attrs(&f.attrs),"items":f.items.iter().map(item).collect::<Vec<_>>()})),
        Err(e1) => {
            // try as block contents
            match Block::parse_within.parse_str(text) {
                Ok(stmts) => Ok(json!({"mode":"block","stmts":stmts.iter().map(stmt).collect::<Vec<_>>()})),
                Err(e2) => match parse_str::<Expr>(text) {
                    Ok(e) => Ok(json!({"mode":"expr","e":expr(&e)})),
                    Err(_) => Err(format!("file: {e1}; block: {e2}")),
                },
            }
        }
    }
}

fn main() {
    let args: Vec<String> = std::env::args().collect();
    if args.len() >= 3 && args[1] == "--snippet-file" {
        let text = std::fs::read_to_string(&args[2]).expect("read");
        match parse_text(&text) {
            Ok(v) => println!("{}", v),
            Err(e) => {
                println!("{}", json!({"error": e}));
            }
        }
        return;
    }
    if args.len() < 4 {
        eprintln!("usage: synfacts <outdir> <root> <file>...");
        std::process::exit(2);
    }
    let outdir = &args[1];
    let root = &args[2];
    std::fs::create_dir_all(outdir).unwrap();
    let mut failed = 0;
    for rel in &args[3..] {
        let p = format!("{root}/{rel}");
        let text = match std::fs::read_to_string(&p) {
            Ok(t) => t,
            Err(e) => {
                eprintln!("synfacts: cannot read {p}: {e}");
                failed += 1;
                continue;
            }
        };
        match parse_text(&text) {
            Ok(mut v) => {
                v["file"] = Value::String(rel.clone());
                let name = rel.replace('/', "__");
                std::fs::write(format!("{outdir}/{name}.json"), v.to_string()).unwrap();
            }
            Err(e) => {
                eprintln!("synfacts: parse error in {p}: {e}");
                failed += 1;
            }
        }
    }
    if failed > 0 {
        std::process::exit(1);
    }
}
