#!/usr/bin/env bash
# Build the fact extractors offline and warm the caches (idempotent).
set -euo pipefail
export CARGO_NET_OFFLINE=true
cd /verif
(cd tools/synfacts && cargo build --offline 2>&1 | tail -2)
(cd tools/mirfacts && cargo build --offline 2>&1 | tail -2)
python3 - <<'PY'
import sys
sys.path.insert(0, "/verif")
from lib import facts
facts.ensure_tools()
print("syn facts:", facts.syn_dir())
for cfg in ("ws", "full"):
    print("mir facts:", cfg, facts.mir_dir(cfg))
from rules import witness
print("witnesses:", len(witness._run_all()["results"]))
PY
