"""C12 — generated C builds and componentizes as exactly the requested world (structural clauses)."""
import os
import re

from lib import facts, mir, synq
from lib.synq import render
from .C13 import lookup, tail_values, contains

AnchorMissing = mir.AnchorMissing

REL = "crates/c/src/lib.rs"
OBJ = "crates/c/src/component_type_object.rs"

CLAIM = dict(
    level="other", engine="synfacts+mirfacts", design="DESIGN.md §5 C12",
    technique="evaluation of the `to_c_ident` match table over the C17 keyword list and over every identifier the "
              "bindings add to a wrapper's scope; def-use of counter-suffixed identifiers into `Ns`; sibling-argument "
              "agreement between the C source and its component-type object",
    text="Decides necessary conditions for the generated C to compile and link as the requested world: every C17 "
         "keyword (and stdbool.h macro) that is a valid WIT identifier is renamed by to_c_ident, in both spellings WIT "
         "allows; identifiers the bindings themselves add next to user-named parameters (return pointers, the return "
         "area, `maybe_` parameters, typedef names used in casts) cannot be produced from a user name; counter-suffixed "
         "identifiers are struct members or are registered in `Ns` before `abi::call`; symbol names of wrappers come "
         "from `Ns::tmp`; the C file and the component-type object agree on the linking symbol, the world and the "
         "section-name prefix the component encoder looks for. Partial: clang, wasm-ld and the encoder are not run.",
    note="mir+syn")

# ISO/IEC 9899:2018 (C17) §6.4.1 "Keywords"
C17_KEYWORDS = """auto break case char const continue default do double else enum extern float for goto if inline int
long register restrict return short signed sizeof static struct switch typedef union unsigned void volatile while
_Alignas _Alignof _Atomic _Bool _Complex _Generic _Imaginary _Noreturn _Static_assert _Thread_local""".split()
# macros of <stdbool.h> (C17 §7.18), which every generated header includes
STDBOOL = ["bool", "true", "false"]
# not part of the C17 claim, reported as information only
EXTRA_KEYWORDS = [
    ("asm", "GNU extension keyword (clang / gcc in their default gnu modes)"),
    ("typeof", "C23 keyword, and a GNU extension keyword in clang's default -std=gnu17"),
    ("alignas", "C23 keyword"), ("alignof", "C23 keyword"), ("constexpr", "C23 keyword"), ("nullptr", "C23 keyword"),
]
RESERVED = set(C17_KEYWORDS) | set(STDBOOL)

WORD = r"(?:[a-z][a-z0-9]*|[A-Z][A-Z0-9]*)"
WIT_ID = re.compile(rf"^{WORD}(?:-{WORD})*$")
C_IDENT = re.compile(r"^[A-Za-z_][A-Za-z0-9_]*$")


def snake(s):
    """heck's to_snake_case restricted to WIT identifiers (words are all-lower or all-upper, separated by '-')"""
    return s.replace("-", "_").lower()


# ============================================================================ evaluating to_c_ident
class CIdent:
    """`to_c_ident` as a function on strings, evaluated on its syntax tree (first matching arm)."""

    def __init__(self):
        self.fn = synq.find_fn(REL, "to_c_ident")
        ps = [p for p in self.fn.params if p != "self"]
        if len(ps) != 1 or ps[0] is None:
            raise AnchorMissing("to_c_ident: expected one named parameter")
        self.param = ps[0]
        self.tables = [m for m in synq.matches_in(self.fn.body) if len(self.literals(m)) >= 20]
        if len(self.tables) != 1:
            raise AnchorMissing(f"to_c_ident: {len(self.tables)} keyword tables (match with >= 20 literal arms)")
        self.table = self.tables[0]

    @staticmethod
    def literals(m):
        out = []
        for a in m["arms"]:
            for alt in synq.pat_alts(a["pat"]):
                if alt.get("k") == "p_lit" and alt["lit"].get("k") == "str":
                    out.append((alt["lit"]["v"], a))
        return out

    def loc(self, node=None):
        return self.fn.loc(node)

    def __call__(self, name):
        return self.block(self.fn.body, {self.param: name})

    def scrutinee(self, name):
        """value the keyword table is consulted with, for WIT name `name`"""
        env = {self.param: name}
        for s in self.fn.body["stmts"]:
            if contains(s, self.table):
                break
            self.stmt(s, env)
        return self.val(self.table["scrut"], env)

    # ---- a small evaluator for string-valued expressions
    def stmt(self, s, env):
        if s.get("k") == "let" and s["pat"].get("k") == "p_ident" and s.get("init") is not None:
            env[s["pat"]["name"]] = self.val(s["init"], env)
        elif s.get("k") == "let":
            raise AnchorMissing("to_c_ident: destructuring `let` not understood")

    def block(self, b, env):
        env = dict(env)
        st = b["stmts"]
        for s in st[:-1]:
            self.stmt(s, env)
            if s.get("k") == "expr_stmt":
                self.effect(s["e"], env)
        last = st[-1] if st else None
        if last is None or last.get("k") != "expr_stmt" or last.get("semi"):
            raise AnchorMissing("to_c_ident: body has no tail expression")
        return self.val(last["e"], env)

    def effect(self, e, env):
        """statements with no influence on the returned string (logging, assertions) are skipped"""
        if e.get("k") == "macro" and synq.short(e["name"]) in ("debug_assert", "assert", "log", "trace", "debug", "eprintln",
                                                                "println", "debug_assert_eq", "assert_eq"):
            return
        raise AnchorMissing(f"to_c_ident: statement not understood: {render(e)[:60]}")

    def val(self, e, env):
        k = e.get("k")
        if k == "str":
            return e["v"]
        if k == "path":
            if e["path"] in env:
                return env[e["path"]]
            raise AnchorMissing(f"to_c_ident: free name {e['path']}")
        if k in ("ref", "paren", "try"):
            return self.val(e["e"], env)
        if k == "unary" and e["op"] in ("*", "&"):
            return self.val(e["e"], env)
        if k == "block":
            return self.block(e, env)
        if k == "match":
            return self.match(e, env)
        if k == "binary" and e["op"] == "+":
            return self.val(e["l"], env) + self.val(e["r"], env)
        if k == "mcall":
            m = e["method"]
            v = self.val(e["recv"], env)
            if m in ("into", "to_string", "to_owned", "clone", "as_str", "as_ref", "borrow", "deref", "into_owned"):
                return v
            if m == "to_snake_case":
                return snake(v)
            if m in ("to_lowercase", "to_ascii_lowercase"):
                return v.lower()
            if m == "replace" and len(e["args"]) == 2 and all(a.get("k") in ("str", "char") for a in e["args"]):
                return v.replace(e["args"][0]["v"], e["args"][1]["v"])
            raise AnchorMissing(f"to_c_ident: method .{m}() not understood")
        if k == "call" and e["func"].get("k") == "path" and len(e["args"]) == 1 and \
                synq.short(e["func"]["path"]) in ("from", "to_string", "to_owned", "into", "new") and \
                e["func"]["path"].split("::")[0] in ("String", "From", "ToString", "ToOwned", "Into", "Cow"):
            return self.val(e["args"][0], env)
        if k == "macro" and synq.short(e["name"]) == "format" and e.get("args"):
            fm = synq.Fmt(e)
            if fm.template is None:
                raise AnchorMissing("to_c_ident: format! without a literal template")
            out, pos = "", 0
            for kind, key, ex, off in fm.hole_exprs():
                out += fm.template[pos:off].replace("{{", "{").replace("}}", "}")
                pos = fm.template.index("}", off) + 1
                if ex is None and kind == "name":
                    ex = {"k": "path", "path": key}
                if ex is None:
                    raise AnchorMissing("to_c_ident: format! hole without an argument")
                out += self.val(ex, env)
            return out + fm.template[pos:].replace("{{", "{").replace("}}", "}")
        raise AnchorMissing(f"to_c_ident: expression not understood: {render(e)[:60]}")

    def match(self, m, env):
        s = self.val(m["scrut"], env)
        for a in m["arms"]:
            for alt in synq.pat_alts(a["pat"]):
                k = alt.get("k")
                hit, env2 = False, env
                if k == "p_lit" and alt["lit"].get("k") == "str":
                    hit = alt["lit"]["v"] == s
                elif k == "p_wild":
                    hit = True
                elif k == "p_ident" and not alt.get("sub") and not alt["name"][:1].isupper():
                    hit, env2 = True, dict(env, **{alt["name"]: s})
                else:
                    raise AnchorMissing(f"to_c_ident: pattern {synq.pat_head(alt)} not understood")
                if hit:
                    if a.get("guard") is not None:
                        raise AnchorMissing("to_c_ident: guarded arm not understood")
                    return self.val(a["body"], env2)
        raise AnchorMissing("to_c_ident: no arm matches")


def producible(ci, ident):
    """a WIT identifier whose C name is exactly `ident`, or None"""
    n = ident.replace("_", "-")     # (upper-case spellings are the subject of one R12.1 obligation of their own)
    if WIT_ID.match(n) and ci(n) == ident:
        return n
    return None


# ============================================================================ R12.1 / R12.2 keyword table
def r12_1(rep, ci):
    rep.saw(f"{REL}::to_c_ident")
    lits = CIdent.literals(ci.table)
    rep.floor("R12.1", "literal arms of the to_c_ident table", len(lits), 100)
    lower = [k for k in C17_KEYWORDS if WIT_ID.match(k)]
    rep.floor("R12.1", "C17 keywords that are valid WIT identifiers", len(lower), 34)
    for kw in lower + STDBOOL:
        what = "C17 keyword" if kw in C17_KEYWORDS else "<stdbool.h> macro"
        img = ci(kw)
        rep.ob("R12.1", f"to_c_ident renames the {what} `{kw}`", img not in RESERVED and bool(C_IDENT.match(img)),
               f"to_c_ident(\"{kw}\") = \"{img}\"" + ("" if img not in RESERVED else
                                                    f": a WIT parameter / field / case named `{kw}` is emitted verbatim and the C does not compile"),
               ci.loc(ci.table))
        if img != kw:
            other = producible(ci, img)
            rep.ob("R12.1", f"the replacement for `{kw}` is not the C name of another WIT identifier", other is None,
                   f"\"{img}\" is also produced from `{other}`" if other else f"\"{img}\" has no WIT preimage", ci.loc(ci.table),
                   nontrivial=False)
    # WIT words may be written in upper case; heck folds them to lower case *after* the table was consulted
    entries = sorted({lit for lit, arm in lits if WIT_ID.match(lit) and ci.scrutinee(lit) == lit})
    bad = [(e.upper(), ci(e.upper()), ci(e)) for e in entries if ci(e.upper()) != ci(e)]
    rep.ob("R12.1", "the upper-case WIT spelling of every table entry is renamed like the lower-case one", not bad,
           "the table is consulted with " + ("the name as written" if ci.scrutinee("INT") == "INT" else "a normalised name") +
           ("; " + ", ".join(f"`{a}` -> `{b}` (but `{a.lower()}` -> `{c}`)" for a, b, c in bad[:4]) + (" …" if len(bad) > 4 else "") +
            f" ({len(bad)} entries): e.g. a parameter named `INT` is emitted as `int`, one named `RET` as `ret` next to the "
            "return pointer `ret`" if bad else ""), ci.loc(ci.table))
    for kw, why in EXTRA_KEYWORDS:
        img = ci(kw)
        rep.ob("R12.1", f"informational: `{kw}` — {why}", True,
               f"to_c_ident(\"{kw}\") = \"{img}\": " + ("renamed" if img != kw else
                                                       "NOT renamed; outside the C17 claim, breaks -std=gnu17 / c23 builds"),
               ci.loc(ci.table), nontrivial=False)


def r12_2(rep, ci):
    lits = CIdent.literals(ci.table)
    dead = []
    for lit, arm in lits:
        reach = [n for n in {lit, lit.replace("_", "-")} if WIT_ID.match(n) and ci.scrutinee(n) == lit]
        if reach:
            continue
        dead.append(lit)
        kebab = lit.replace("_", "-")
        emitted = ci(kebab) if WIT_ID.match(kebab) else None
        rep.ob("R12.2", f"unreachable arm \"{lit}\" does not hide a C keyword", lit not in RESERVED,
               "no WIT identifier makes the table's scrutinee equal to this literal" +
               (f"; the kebab spelling `{kebab}` is emitted as `{emitted}`" if emitted else "") +
               (" (not reserved in C17; matters for C++ consumers only)" if lit not in RESERVED else
                " — and that is a C17 reserved word"), ci.loc(arm), nontrivial=False)
    rep.extra["to_c_ident_unreachable_arms"] = sorted(dead)
    rep.ob("R12.2", "every literal arm of to_c_ident was classified reachable / unreachable", True,
           f"{len(lits) - len(dead)} reachable, {len(dead)} unreachable: {sorted(dead)}", ci.loc(ci.table))


# ============================================================================ R12.3 temporaries come from Ns
def fns_inner_first():
    fs = [f for f in synq.all_fns(REL) if f.body is not None and "tests" not in f.mod]
    return sorted(fs, key=lambda f: (f.node["sp"][2] - f.node["sp"][0], f.node["sp"][0]))


def is_counter(f, name, use):
    """is `name` (as seen at node `use`) the index of `for (name, ..) in ...enumerate()` or of `for name in a..b`?"""
    b = lookup(f.node, name, use)
    if not b or b[0] != "pat" or b[1].get("k") != "for":
        return False
    loop = b[1]
    it, pat = loop["iter"], loop["pat"]
    if it.get("k") == "mcall" and it["method"] == "enumerate":
        return pat.get("k") == "p_tuple" and pat["elems"] and pat["elems"][0].get("k") == "p_ident" and \
            pat["elems"][0]["name"] == name
    while it.get("k") == "paren":
        it = it["e"]
    if it.get("k") == "mcall" and it["method"] == "rev":
        it = it["recv"]
        while it.get("k") == "paren":
            it = it["e"]
    return it.get("k") == "range" and pat.get("k") == "p_ident" and pat["name"] == name


def mentions(node, name):
    return any(n.get("k") == "path" and n["path"] == name for n in synq.walk(node))


def csig_fields(f):
    """local name -> CSig field it initialises, for `CSig { params, retptrs, .. }` literals of the function"""
    out = {}
    for n in synq.walk(f.body):
        if n.get("k") == "struct" and synq.short(n["path"]) == "CSig":
            for fld in n["fields"]:
                if fld["e"].get("k") == "path":
                    out.setdefault(fld["e"]["path"], set()).add(fld["name"])
    return out


def r12_3_seed(rep):
    """FunctionBindgen::new registers every parameter name; import_body_sync registers the return pointers before abi::call"""
    f = synq.find_fn(REL, "new", self_ty="FunctionBindgen")
    rep.saw(f"{REL}::FunctionBindgen::new")
    sigp = [p["pat"]["name"] for p in f.node["sig"]["params"] if not p.get("self") and p["pat"].get("k") == "p_ident"
            and p["ty"].replace(" ", "") == "CSig"]
    if len(sigp) != 1:
        raise AnchorMissing("FunctionBindgen::new: no single parameter of type CSig")
    S = sigp[0]
    ns_locals = [nm for nm, init, st in synq.bindings(f.body) if init is not None and re.match(r"^Ns::(default|new)\(\)$", render(init))]
    seeded = []
    for lp in (n for n in synq.walk(f.body) if n.get("k") == "for"):
        it = render(lp["iter"])
        if not re.match(rf"^&?{re.escape(S)}\.params(\.iter\(\))?$", it):
            continue
        second = lp["pat"]["elems"][1]["name"] if lp["pat"].get("k") == "p_tuple" and len(lp["pat"]["elems"]) == 2 and \
            lp["pat"]["elems"][1].get("k") == "p_ident" else None
        for c in synq.method_calls(lp["body"], "insert"):
            if render(c["recv"]) in ns_locals and len(c["args"]) == 1 and second is not None and mentions(c["args"][0], second):
                seeded.append((render(c["recv"]), lp))
    rep.ob("R12.3", "FunctionBindgen::new inserts the name of every `sig.params` entry into its Ns", len(seeded) == 1,
           f"{len(seeded)} loop(s) over {S}.params calling Ns::insert on the (pointer, name) pair's name", f.loc())
    lit = [n for n in synq.walk(f.body) if n.get("k") == "struct" and synq.short(n["path"]) == "FunctionBindgen"]
    flds = {x["name"]: render(x["e"]) for n in lit for x in n["fields"]}
    rep.ob("R12.3", "the seeded Ns is the `locals` of the constructed FunctionBindgen, built for the same signature",
           bool(seeded) and flds.get("locals") == seeded[0][0] and flds.get("sig") == S, f"locals: {flds.get('locals')}, sig: {flds.get('sig')}",
           f.loc())
    r12_3_retptrs(rep)


def r12_3_seed_mir(rep):
    """MIR cross-check: the insertion really is Ns::insert and sits in a loop"""
    c = mir.load("ws", "wit_bindgen_c", "rlib")
    mf = c.method("FunctionBindgen", "new")
    rep.saw(mf)
    ins = mf.calls("Ns::insert")
    rep.ob("R12.3", "FunctionBindgen::new (MIR): Ns::insert is called inside the parameter loop",
           len(ins) >= 1 and all(mf.in_cycle(x.bb) for x in ins), f"{len(ins)} call(s) of Ns::insert", mf.loc(ins[0].bb) if ins else mf.loc())


def r12_3_retptrs(rep):
    g = synq.find_fn(REL, "import_body_sync")
    rep.saw(f"{REL}::import_body_sync")
    st = g.body["stmts"]
    calls = [(i, c) for i, s in enumerate(st) for c in synq.fn_calls(s, "call") if c["func"]["path"].endswith("abi::call")]
    if len(calls) != 1:
        raise AnchorMissing(f"import_body_sync: {len(calls)} top-level abi::call statements")
    ci_, call = calls[0]
    bg = [render(a["e"]) for a in call["args"] if a.get("k") == "ref" and a.get("mut")]
    F = bg[0] if len(bg) == 1 else None
    loops = []
    for i, s in enumerate(st):
        lp = s.get("e") if s.get("k") == "expr_stmt" else None
        if not lp or lp.get("k") != "for" or lp["pat"].get("k") != "p_ident":
            continue
        if not re.match(rf"^&?{re.escape(F or '?')}\.sig\.retptrs(\.iter\(\))?$", render(lp["iter"])):
            continue
        for c in synq.method_calls(lp["body"], "insert"):
            if render(c["recv"]) == f"{F}.locals" and mentions(c["args"][0], lp["pat"]["name"]):
                loops.append(i)
    rep.ob("R12.3", "import_body_sync inserts every return-pointer name into the bindgen's Ns before abi::call",
           len(loops) == 1 and loops[0] < ci_,
           f"insertion loop at statement {loops}, abi::call at statement {ci_} of the function body (bindgen `{F}`)", g.loc(call))
    news = [(i, c) for i, s in enumerate(st) for c in synq.fn_calls(s, "new") if c["func"]["path"].endswith("FunctionBindgen::new")]
    rep.ob("R12.3", "import_body_sync builds its bindgen with FunctionBindgen::new from the wrapper's own CSig",
           len(news) == 1 and news[0][0] < ci_ and len(news[0][1]["args"]) == 3 and
           render(news[0][1]["args"][1]) in [p for p, t in zip(g.params, g.node["sig"]["params"]) if t.get("ty", "").replace(" ", "") == "CSig"],
           f"{[render(c)[:60] for _, c in news]}", g.loc())


def r12_3_symbols(rep):
    """file-scope symbols of the raw wasm imports / exports come from `names.tmp`, public names are inserted"""
    n = 0
    for f in fns_inner_first():
        if f.name not in ("import", "export") or f.self_ty != "InterfaceGenerator":
            continue
        rep.saw(f"{REL}::{f.name}")
        for c in synq.walk(f.body):
            if c.get("k") != "macro" or synq.short(c["name"]) != "format" or not c.get("args") or c["args"][0].get("k") != "str":
                continue
            t = c["args"][0]["v"]
            if not re.match(r"^__wasm_(import|export)_\{", t):
                continue
            n += 1
            parent = [m for m in synq.method_calls(f.body, "tmp") if any(x is c for a in m["args"] for x in synq.walk(a))]
            ok = len(parent) == 1 and render(parent[0]["recv"]).endswith(".names")
            rep.ob("R12.3", f"{f.name}: the symbol `{t}` is made unique by `names.tmp`", ok,
                   f"passed to {render(parent[0]['recv']) + '.tmp' if parent else 'nothing'}", f.loc(c))
    rep.floor("R12.3", "raw wasm import/export symbol templates", n, 2)
    ps = synq.find_fn(REL, "print_sig")
    ins = [c for c in synq.method_calls(ps.body, "insert") if render(c["recv"]).endswith(".names")]
    nm = [nm_ for nm_, init, st in synq.bindings(ps.body) if init is not None and init.get("k") == "mcall" and init["method"] == "c_func_name"]
    rep.ob("R12.3", "print_sig registers the public C function name in the world's Ns (duplicates stop generation)",
           len(ins) == 1 and len(nm) == 1 and mentions(ins[0]["args"][0], nm[0]), f"{[render(c)[:60] for c in ins]}", ps.loc())


def r12_3_counters(rep):
    """identifiers made of a literal prefix and a loop counter are struct members, or are registered in Ns"""
    seen, sites = set(), []
    for f in fns_inner_first():
        for fm in synq.fmts(f.body):
            key_ = tuple(fm.node["sp"])
            if fm.template is None or key_ in seen:
                continue
            seen.add(key_)
            for kind, key, e, off in fm.hole_exprs():
                m = re.search(r"[A-Za-z_][A-Za-z0-9_]*$", fm.template[:off])
                if not m:
                    continue
                nm = key if (kind == "name" and e is None) else (e["path"] if e is not None and e.get("k") == "path" else None)
                if nm is None or "::" in str(nm) or not is_counter(f, nm, fm.node):
                    continue
                sites.append((f, fm, m.group(0), fm.template[:m.start()], nm))
    rep.floor("R12.3", "identifiers built as `prefix{counter}`", len(sites), 6)
    uniq = {}
    for f, fm, prefix, before, nm in sites:
        rep.saw(f"{REL}::{f.name}")
        inst = f"{f.name}: identifier `{prefix}{{{nm}}}`"
        uniq[inst] = uniq.get(inst, 0) + 1
        if uniq[inst] > 1:
            inst += f" (#{uniq[inst]})"
        if re.search(r"(\.|->)\s*$", before):
            rep.ob("R12.3", inst + " is a struct member access", True, "preceded by `.` / `->`", f.loc(fm.node))
            continue
        if fm.dest is not None and render(fm.dest).endswith(".h_defs"):
            rep.ob("R12.3", inst + " is declared in a type definition (header `h_defs`)", True,
                   "a struct member: its scope is the struct", f.loc(fm.node))
            continue
        # a function-scope identifier: its value must reach a CSig field that is inserted into Ns
        holder = [st for nm_, init, st in synq.bindings(f.body) if init is not None and contains(init, fm.node)]
        bound = holder[-1]["pat"]["name"] if holder and holder[-1]["pat"].get("k") == "p_ident" else None
        cs = csig_fields(f)
        reg = []
        csig_locals = {nm_ for nm_, init, st in synq.bindings(f.body) if init is not None and init.get("k") == "struct"
                       and synq.short(init["path"]) == "CSig"}
        if bound is not None:
            for c in synq.method_calls(f.body, "push"):
                if not any(mentions(a, bound) for a in c["args"]):
                    continue
                r = render(c["recv"])
                if re.search(r"\.(params|retptrs)$", r) and r.split(".")[0] in csig_locals:
                    reg.append(r)
                elif r in cs and cs[r] & {"params", "retptrs"}:
                    reg.append(f"CSig.{sorted(cs[r])[0]} (via `{r}`)")
        rep.ob("R12.3", inst + " is registered in Ns (pushed into CSig.params / CSig.retptrs)", bool(reg),
               f"bound to `{bound}`; pushed into {reg}" if reg else
               f"bound to `{bound}`: the name never reaches a CSig field that FunctionBindgen::new / import_body_sync insert into Ns",
               f.loc(fm.node))


def r12_3_sources(rep):
    """names handed to nested blocks (payload pointers, auto-dropped borrows) are Ns temporaries"""
    f = [x for x in synq.all_fns(REL) if x.name == "emit" and x.trait == "Bindgen" and x.body is not None]
    if len(f) != 1:
        raise AnchorMissing(f"impl Bindgen for FunctionBindgen: {len(f)} emit functions")
    f = f[0]
    rep.saw(f"{REL}::emit")
    n = 0
    for c in synq.method_calls(f.body, "push"):
        r = render(c["recv"])
        if r not in ("self.payloads", "self.borrows"):
            continue
        n += 1
        arg = c["args"][0]
        nm = arg["path"] if arg.get("k") == "path" else None
        if arg.get("k") == "struct":
            fl = [x for x in arg["fields"] if x["name"] == "name"]
            nm = fl[0]["e"]["path"] if fl and fl[0]["e"].get("k") == "path" else None
        b = lookup(f.node, nm, c) if nm else None
        init = b[1].get("init") if b and b[0] == "let" else None
        ok = init is not None and init.get("k") == "mcall" and init["method"] == "tmp" and render(init["recv"]).endswith(".locals")
        rep.ob("R12.3", f"emit: the name pushed to `{r}` is a fresh `locals.tmp(..)` temporary", ok,
               f"`{nm}` = {render(init)[:50] if init is not None else '?'}", f.loc(c))
    rep.floor("R12.3", "pushes to self.payloads / self.borrows", n, 2)


HOLE_DECL = re.compile(r"(?:^|[;{}\n])[ \t]*(?:const[ \t]+)?(?!(?:return|case|goto|else|break|continue)\b)(?:\{\w*\}|[A-Za-z_]\w*)(?:[ \t]*\*+[ \t]*|[ \t]+)\{(\w*)\}[ \t]*(?:=(?!=)|;)")


def r12_3_declared(rep):
    """every C local that a FunctionBindgen template declares under a computed name got that name from Ns::tmp"""
    fs = [f for f in fns_inner_first() if f.self_ty == "FunctionBindgen"]
    seen, n = set(), 0
    uniq = {}
    for f in fs:
        for fm in synq.fmts(f.body):
            if fm.template is None or tuple(fm.node["sp"]) in seen:
                continue
            seen.add(tuple(fm.node["sp"]))
            t = fm.template.replace("{{", "\x01\x01").replace("}}", "\x02\x02")
            holes = {off: (kind, key, e) for kind, key, e, off in fm.hole_exprs()}
            for m in HOLE_DECL.finditer(t):
                off = m.start(1) - 1
                if off not in holes:
                    continue
                kind, key, e = holes[off]
                nm = key if (kind == "name" and e is None) else (e["path"] if e is not None and e.get("k") == "path" else None)
                n += 1
                why, ok = "the declared name is not a plain local", False
                if nm is not None:
                    b = lookup(f.node, nm, fm.node)
                    ok, why = fresh_origin(f, b, fm.node)
                inst = f"{f.name}: the local declared by `{' '.join(fm.template.split())[:50]}` is named by Ns"
                uniq[inst] = uniq.get(inst, 0) + 1
                rep.ob("R12.3", inst + (f" (#{uniq[inst]})" if uniq[inst] > 1 else ""), ok, f"`{nm}`: {why}", f.loc(fm.node))
    rep.floor("R12.3", "locals declared under a computed name by FunctionBindgen templates", n, 20)


def fresh_origin(f, b, use, depth=0):
    """(ok, why) — does binding `b` hold a name produced by `<Ns>.tmp(..)` (directly, or stored in self.payloads)?"""
    if b is None or depth > 3:
        return False, "unknown binding"
    if b[0] == "let":
        init = b[1].get("init")
        r = render(init) if init is not None else ""
        if init is not None and init.get("k") == "mcall" and init["method"] == "tmp" and re.search(r"\.(locals|names)$", render(init["recv"])):
            return True, r[:50]
        if re.search(r"^self\.payloads\.(pop\(\)\.unwrap\(\)|drain\()", r):
            return True, "taken from self.payloads (filled with locals.tmp values only)"
        return False, f"bound to `{r[:50]}`"
    if b[0] == "pat" and b[1].get("k") == "for":
        it = b[1]["iter"]
        for x in synq.walk(it):
            if x.get("k") == "path" and "::" not in x["path"]:
                ok, why = fresh_origin(f, lookup(f.node, x["path"], b[1]), b[1], depth + 1)
                if ok:
                    return True, f"element of `{x['path']}` ({why})"
        return False, f"loop variable over `{render(it)[:50]}`"
    return False, f"{b[0]} binding"


DECL = re.compile(r"(?m)(?:^|[;{}])[ \t]*(?:const[ \t]+|static[ \t]+)*[A-Za-z_][A-Za-z0-9_]*(?:[ \t]*\*+[ \t]*|[ \t]+)"
                  r"([A-Za-z_][A-Za-z0-9_]*)[ \t]*(?:\[[^\]\n]*\])?[ \t]*(?:=(?!=)|;)")


def r12_3_fixed(rep, ci):
    """identifiers the bindings add to the scope of an import wrapper (whose parameters carry user-chosen names)"""
    # (i) literal return-pointer names of print_sig
    ps = synq.find_fn(REL, "print_sig")
    rep.saw(f"{REL}::print_sig")
    cs = csig_fields(ps)
    rvec = [nm for nm, flds in cs.items() if "retptrs" in flds]
    lits = []
    for c in synq.method_calls(ps.body, "push"):
        if render(c["recv"]) not in rvec or len(c["args"]) != 1 or c["args"][0].get("k") != "path":
            continue
        b = lookup(ps.node, c["args"][0]["path"], c)
        if not b or b[0] != "let":
            raise AnchorMissing("print_sig: the return-pointer name is not a `let` binding")
        for v in tail_values(b[1].get("init"), []):
            if v is None:
                raise AnchorMissing("print_sig: a return-pointer name of unknown shape")
            w = v
            while w.get("k") == "mcall" and w["method"] in ("into", "to_string", "to_owned"):
                w = w["recv"]
            if w.get("k") == "str":
                lits.append((w["v"], v))
            elif not (w.get("k") == "macro" and synq.short(w["name"]) == "format"):
                raise AnchorMissing(f"print_sig: return-pointer name `{render(v)[:40]}` not understood")
    rep.floor("R12.3", "literal return-pointer names in print_sig", len(lits), 3)
    for lit in sorted({l for l, _ in lits}):
        src = producible(ci, lit)
        rep.ob("R12.3", f"the return-pointer name `{lit}` cannot be the C name of a user parameter", src is None,
               f"a parameter named `{src}` is emitted as `{lit}`" if src else f"to_c_ident never yields `{lit}`", ps.loc(lits[0][1]))
    # (ii) fixed locals declared by import_body_sync itself
    g = synq.find_fn(REL, "import_body_sync")
    decl = []
    for s in synq.strings(g.body):
        for m in DECL.finditer(s["v"]):
            if m.group(1) not in ("NULL",) and "{" not in m.group(0).split(m.group(1))[0]:
                decl.append((m.group(1), s))
    rep.floor("R12.3", "fixed-name locals declared by import_body_sync", len(decl), 1)
    for name, s in decl:
        src = producible(ci, name)
        rep.ob("R12.3", f"import wrapper: the local `{name}` cannot be the C name of a user parameter", src is None,
               f"a parameter named `{src}` is emitted as `{name}`; the wrapper then declares `{name}` twice in its outermost "
               "scope (C17 §6.7p3: redefinition)" if src else f"to_c_ident never yields `{name}`", g.loc(s))
    # (iii) parameter names that are a literal prefix + a user name
    pp = synq.find_fn(REL, "print_sig_params")
    rep.saw(f"{REL}::print_sig_params")
    pre = []
    for fm in synq.fmts(pp.body):
        if fm.name != "format" or fm.template is None:
            continue
        hs = fm.hole_exprs()
        if len(hs) == 1 and hs[0][2] is not None and hs[0][2].get("k") == "call" and \
                render(hs[0][2]["func"]) == "to_c_ident" and re.match(r"^[A-Za-z_][A-Za-z0-9_]*\{\}$", fm.template):
            pre.append((fm.template[:-2], fm))
    rep.floor("R12.3", "prefixed parameter names in print_sig_params", len(pre), 1)
    for prefix in sorted({p for p, _ in pre}):
        cand = prefix + ci("x")
        src = producible(ci, cand)
        rep.ob("R12.3", f"the parameter name `{prefix}<name>` cannot be the C name of another user parameter", src is None,
               f"parameters `x: option<..>` and `{src}` are both declared as `{cand}` (duplicate parameter name)" if src else
               f"to_c_ident never yields `{cand}`", pp.loc(pre[0][1].node))


# ============================================================================ R12.4 typedef names used by wrapper bodies
def r12_4(rep, ci):
    names = set()
    for fname in ("wasm_type", "int_repr"):
        f = synq.find_fn(REL, fname)
        rep.saw(f"{REL}::{fname}")
        for s in synq.strings(f.body):
            names |= set(re.findall(r"[A-Za-z_][A-Za-z0-9_]*", s["v"]))
    e = [x for x in synq.all_fns(REL) if x.name in ("emit", "perform_cast", "load", "store", "load_ext") and x.body is not None]
    for f in e:
        for s in synq.strings(f.body):
            for m in re.finditer(r"\(\(?\s*([a-z][a-z0-9_]*)\s*\*?\s*\)", s["v"]):   # casts written in templates
                if m.group(1).endswith("_t"):
                    names.add(m.group(1))
    tys = sorted(n for n in names if n.endswith("_t") or n in ("float", "double", "bool"))
    rep.floor("R12.4", "C type names the wrapper bodies use in casts / declarations", len(tys), 10)
    bad = [(t, producible(ci, t)) for t in tys if producible(ci, t)]
    rep.ob("R12.4", "no user parameter can be named like a type the wrapper body uses", not bad,
           (", ".join(f"`{src}` -> `{t}`" for t, src in bad) + ": e.g. `f: func(uint8-t: string)` gives "
            "`void f(w_string_t *uint8_t) { …((uint8_t *) (*uint8_t).ptr… }`, where the parameter hides the typedef "
            "inside the body (expected expression)") if bad else f"none of {tys} is in the image of to_c_ident",
           ci.loc(ci.table))


# ============================================================================ R12.5 the component-type object
def decode_prefix():
    d = facts.registry_src("wit-component")
    if d is None:
        raise AnchorMissing("wit-component source not found in the cargo registry")
    p = os.path.join(d, "src/metadata.rs")
    ast = facts.parse_snippet(open(p).read())
    if "items" not in ast:
        raise AnchorMissing("wit-component metadata.rs does not parse")
    out = []
    for it in ast["items"]:
        if it.get("k") == "fn" and it["sig"]["name"] == "decode" and it.get("body"):
            for c in synq.method_calls(it["body"], "starts_with"):
                if "name()" in render(c["recv"]) and c["args"] and c["args"][0].get("k") == "str":
                    out.append(c["args"][0]["v"])
    if len(set(out)) != 1:
        raise AnchorMissing(f"wit-component metadata::decode: custom-section prefixes {out}")
    return out[0], p


def r12_5(rep):
    fin = synq.find_fn(REL, "finish", self_ty="C")
    obj = synq.find_fn(OBJ, "object")
    lsym = synq.find_fn(OBJ, "linking_symbol")
    for x in (f"{REL}::finish", f"{OBJ}::object", f"{OBJ}::linking_symbol"):
        rep.saw(x)
    rep.saw(file=OBJ)
    prefix, path = decode_prefix()
    rep.saw("wit-component::metadata::decode")
    # ---- callee side
    op = obj.params
    if len(op) < 3:
        raise AnchorMissing("component_type_object::object: fewer than three parameters")
    tys = [p["ty"].replace(" ", "") for p in obj.node["sig"]["params"]]
    wi = [i for i, t in enumerate(tys) if t == "WorldId"]
    si = [i for i, t in enumerate(tys) if t == "&str"]
    ri = [i for i, t in enumerate(tys) if t == "&Resolve"]
    ei = [i for i, t in enumerate(tys) if t == "StringEncoding"]
    if not (len(wi) == len(si) == len(ri) == len(ei) == 1):
        raise AnchorMissing(f"component_type_object::object: parameter types {tys}")
    W, N, R, E = op[wi[0]], op[si[0]], op[ri[0]], op[ei[0]]
    enc = [c for c in synq.fn_calls(obj.body, "encode") if c["func"]["path"].endswith("metadata::encode")]
    rep.ob("R12.5", "object(): the embedded type is metadata::encode(resolve, world, encoding, ..) of its own arguments",
           len(enc) == 1 and [render(a) for a in enc[0]["args"][:3]] == [R, W, E], f"{[render(c)[:70] for c in enc]}", obj.loc())
    secs = [fm for fm in synq.fmts(obj.body) if fm.name == "format" and fm.template and "component-type" in fm.template]
    ok = len(secs) == 1 and secs[0].template.startswith(prefix) and (("name", N) in [(k, key) for k, key, e, off in secs[0].hole_exprs()]
                                                                   or any(e is not None and render(e) == N for k, key, e, off in secs[0].hole_exprs()))
    rep.ob("R12.5", f"object(): the custom section is named `{prefix}…` (the prefix metadata::decode looks for) + the world name",
           ok, f"{[fm.template for fm in secs]}; decoder prefix read from {os.path.basename(path)}", obj.loc(secs[0].node) if secs else obj.loc())
    if secs:
        b = [nm for nm, init, st in synq.bindings(obj.body) if init is secs[0].node]
        used = [n for n in synq.walk(obj.body) if n.get("k") == "struct" and synq.short(n["path"]) == "CustomSection"]
        rep.ob("R12.5", "object(): that name and the encoded metadata are what the CustomSection carries",
               len(b) == 1 and len(used) == 1 and mentions(used[0], b[0]) and
               any(mentions(used[0], nm) for nm, init, st in synq.bindings(obj.body) if init is not None and enc and contains(init, enc[0])),
               f"{render(used[0])[:120] if used else None}", obj.loc())
    lcalls = [c for c in synq.fn_calls(obj.body, "linking_symbol")]
    args = [render(c["args"][0]) for c in lcalls if c["args"]]
    flows = 0
    for c in synq.method_calls(obj.body, "function"):
        for lc in lcalls:
            if any(x is lc for a in c["args"] for x in synq.walk(a)):
                flows += 1
            else:
                for nm, init, st in synq.bindings(obj.body):
                    if init is not None and contains(init, lc) and any(mentions(a, nm) for a in c["args"]):
                        flows += 1
    rep.ob("R12.5", "object(): the symbol table defines linking_symbol(<world name>)", len(lcalls) == 1 and args == [N] and flows == 1,
           f"linking_symbol({args}) reaches {flows} symbol-table entr{'y' if flows == 1 else 'ies'}", obj.loc())
    # ---- caller side
    calls_o = [c for c in synq.fn_calls(fin.body, "object") if "component_type_object" in c["func"]["path"]]
    calls_l = [c for c in synq.fn_calls(fin.body, "linking_symbol") if "component_type_object" in c["func"]["path"]]
    if len(calls_o) != 1 or len(calls_l) != 1:
        raise AnchorMissing(f"C::finish: {len(calls_o)} object() / {len(calls_l)} linking_symbol() calls")
    co, cl = calls_o[0], calls_l[0]
    ftys = {p["pat"]["name"]: p["ty"].replace(" ", "") for p in fin.node["sig"]["params"] if not p.get("self") and p["pat"].get("k") == "p_ident"}
    a = [render(x) for x in co["args"]]
    rep.ob("R12.5", "finish(): object() receives finish's own resolve and world id", len(a) == len(op) and
           ftys.get(a[ri[0]]) == "&Resolve" and ftys.get(a[wi[0]]) == "WorldId", f"object({', '.join(a)})", fin.loc(co))
    rep.ob("R12.5", "finish(): the C file references the symbol of the same world name the object defines",
           len(a) == len(op) and a[si[0]] == render(cl["args"][0]), f"linking_symbol({render(cl['args'][0])}) vs object(.., {a[si[0]] if len(a) == len(op) else '?'}, ..)",
           fin.loc(cl))
    rep.ob("R12.5", "finish(): the object is built with the configured string encoding", len(a) == len(op) and
           a[ei[0]].endswith("opts.string_encoding"), f"{a[ei[0]] if len(a) == len(op) else '?'}", fin.loc(co))
    lb = [nm for nm, init, st in synq.bindings(fin.body) if init is not None and contains(init, cl)]
    tmpl = [fm for fm in synq.fmts(fin.body) if fm.template and lb and ("{" + lb[0] + "}") in fm.template]
    ok = False
    det = "no template uses the linking symbol"
    if len(tmpl) == 1:
        t = tmpl[0].template
        h = "{" + lb[0] + "}"
        decl = re.search(r"extern\s+void\s+" + re.escape(h) + r"\s*\(void\)\s*;", t)
        use = re.search(r"__attribute__\(\(used\)\)\s*void\s+" + re.escape(h) + r"\w*\s*\(void\)\s*\{\{\s*" + re.escape(h) + r"\(\);\s*\}\}", t)
        ok = bool(decl and use)
        det = f"declared extern: {bool(decl)}; called from a function marked `used`: {bool(use)}"
    rep.ob("R12.5", "finish(): the C file declares the linking symbol extern and calls it from a `used` function", ok, det,
           fin.loc(tmpl[0].node) if tmpl else fin.loc())
    # the linking symbol itself
    fm = [x for x in synq.fmts(lsym.body) if x.name == "format" and x.template]
    ok = len(fm) == 1 and re.match(r"^[A-Za-z_][A-Za-z0-9_]*\{\w*\}$", fm[0].template) is not None
    src = None
    if ok:
        k, key, e, off = fm[0].hole_exprs()[0]
        b = lookup(lsym.node, key, fm[0].node) if e is None else None
        src = render(b[1]["init"]) if b and b[0] == "let" else (render(e) if e is not None else None)
        ok = src is not None and src.endswith(".to_snake_case()")
    rep.ob("R12.5", "linking_symbol(): a C identifier (literal prefix + snake-cased world name)", ok,
           f"`{fm[0].template if fm else None}` with {src}", lsym.loc())
    # emitted under --no-object-file only
    pushes = [c for c in synq.method_calls(fin.body, "push") if render(c["recv"]) == "files" and any(x is co for a in c["args"] for x in synq.walk(a))]
    guards = [n for n in synq.walk(fin.body) if n.get("k") == "if" and pushes and contains(n["then"], pushes[0])]
    rep.ob("R12.5", "finish(): the object file is written unless `no_object_file` is set (and under no other condition)",
           len(pushes) == 1 and [render(g["cond"]) for g in guards] == ["!self.opts.no_object_file"],
           f"conditions: {[render(g['cond']) for g in guards]}", fin.loc(pushes[0]) if pushes else fin.loc())


# ============================================================================ R12.6 every user-named member goes through to_c_ident; every section is written
USES = {"type_record": 1, "type_variant": 1, "define_dtor": 2, "print_sig_params": 1, "print_sig_async_import_params": 2, "emit": 3}


def r12_6(rep):
    # declaration and use sites of user-named members / parameters must agree on the renaming
    total = 0
    for fname, least in USES.items():
        fs = [f for f in synq.all_fns(REL) if f.name == fname and f.body is not None and (fname != "emit" or f.trait == "Bindgen")]
        if len(fs) != 1:
            raise AnchorMissing(f"{REL}: fn {fname}: {len(fs)} candidates")
        f = fs[0]
        rep.saw(f"{REL}::{fname}")
        calls = synq.fn_calls(f.body, "to_c_ident")
        total += len(calls)
        rep.ob("R12.6", f"{fname}: user-chosen member / parameter names are written through to_c_ident", len(calls) >= least,
               f"{len(calls)} call(s), {least} site(s) confirmed by hand", f.loc())
        bare = [render(c)[:60] for c in synq.method_calls(f.body, "to_snake_case") if re.search(r"\.name$|^&?name$", render(c["recv"]))
                and not any(x is c for t in calls for x in synq.walk(t))]
        # a name that only ever appears behind a namespace prefix (`{ns}_{snake}`) cannot be a keyword: those are in type_* fns
        if fname in ("emit", "define_dtor", "print_sig_params", "print_sig_async_import_params", "type_record"):
            rep.ob("R12.6", f"{fname}: no user name is snake-cased directly (bypassing the keyword table)", not bare, f"{bare}", f.loc())
    rep.floor("R12.6", "to_c_ident call sites in the generators", total, 13)
    # every section of `Source` is carried over by append() and written by finish()
    sd = [it for it in synq.items_of(REL, ("struct_def",)) if it["name"] == "Source"]
    if len(sd) != 1:
        raise AnchorMissing("struct Source not found")
    fields = [x["name"] for x in sd[0]["fields"]]
    rep.floor("R12.6", "sections of struct Source", len(fields), 9)
    ap = synq.find_fn(REL, "append", self_ty="Source")
    rep.saw(f"{REL}::Source::append")
    other = [p for p in ap.params if p != "self"]
    for fld in fields:
        cs = [c for c in synq.method_calls(ap.body, "push_str") if render(c["recv"]) == f"self.{fld}"]
        rep.ob("R12.6", f"Source::append carries the `{fld}` section over (into the same section)",
               len(cs) == 1 and len(other) == 1 and render(cs[0]["args"][0]) == f"&{other[0]}.{fld}", f"{[render(c) for c in cs]}", ap.loc())
    fin = synq.find_fn(REL, "finish", self_ty="C")
    strs = {nm: render(init) for nm, init, st in synq.bindings(fin.body) if init is not None and re.search(r"Source::default\(\)$", render(init))}
    outs = {}
    for c in synq.method_calls(fin.body, "push"):
        if render(c["recv"]) == "files" and len(c["args"]) == 2:
            tpl = [x for x in synq.walk(c["args"][0]) if x.get("k") == "str"]
            used = [v for v in strs if mentions(c["args"][1], v)]
            if tpl and used:
                outs[used[0]] = tpl[0]["v"]
    for fld in fields:
        want = [v for v, t in outs.items() if t.endswith(".h" if fld.startswith("h_") else ".c")]
        cs = [c for c in synq.method_calls(fin.body, "push_str") if want and render(c["recv"]) == want[0] and
              re.search(r"self\.src\." + fld + r"\b", render(c["args"][0]))]
        rep.ob("R12.6", f"finish writes the `{fld}` section into the {'header' if fld.startswith('h_') else 'C source'} file", len(cs) == 1,
               f"{[render(c)[:70] for c in cs]} (file buffers {outs})", fin.loc(cs[0]) if cs else fin.loc())


# ============================================================================ R12.7 one definition per C type name
def r12_7(rep):
    """World-level anonymous types (`<world>_list_string_t`, named from their structure only) are emitted by
    define_live_types when first met.  A second emission (typedef + `*_free` redefinition) happens when the same TypeId is
    met again after `type_names` forgot it and the `already emitted` decision compares TypeIds.  Accepted shapes:
    (a) every removal from `type_names` keeps the types `is_prim_type_id` holds for, or
    (b) define_live_types decides `already emitted` from the name alone (no TypeId comparison)."""
    fns = [x for x in synq.all_fns(REL) if x.body is not None]
    REMOVE = ("retain", "remove", "clear", "drain", "remove_entry", "extract_if", "take")
    sites = []
    for fn in fns:
        for mc in synq.method_calls(fn.body, REMOVE):
            if render(mc["recv"]).endswith(".type_names"):
                sites.append((fn, mc))
    rep.floor("R12.7", "removals from `type_names` in crates/c", len(sites), 1)

    def keeps_prims(fn, mc):
        if mc["method"] != "retain" or not mc["args"] or mc["args"][0].get("k") != "closure":
            return False, f"`{mc['method']}` forgets entries unconditionally"
        body = mc["args"][0]["body"]
        while body.get("k") == "block" and len(body["stmts"]) == 1 and body["stmts"][0].get("k") == "expr_stmt":
            body = body["stmts"][0]["e"]
        # `keep(k)` where `let keep = |k| ...` in the same function
        if body.get("k") == "call" and body["func"].get("k") == "path":
            for nm, init, st in synq.bindings(fn.body):
                if nm == body["func"]["path"] and init is not None and init.get("k") == "closure":
                    body = init["body"]
        disj = []

        def split(c):
            if c.get("k") == "binary" and c["op"] == "||":
                split(c["l"])
                split(c["r"])
            else:
                disj.append(c)
        split(body)
        hit = [d for d in disj if d.get("k") == "call" and d["func"].get("k") == "path" and
               synq.short(d["func"]["path"]) == "is_prim_type_id" and len(d["args"]) == 2]
        return bool(hit), " || ".join(render(d) for d in disj)
    res = [(fn, mc) + keeps_prims(fn, mc) for fn, mc in sites]
    form_a = bool(res) and all(ok for _, _, ok, _ in res)
    f = synq.find_fn(REL, "define_live_types")
    rep.saw(f"{REL}::define_live_types")
    by_id = [n for n in synq.walk(f.body) if n.get("k") == "binary" and n["op"] in ("==", "!=") and
             "ty" in (render(n["l"]).lstrip("*&"), render(n["r"]).lstrip("*&"))]
    uses_names = any(render(mc["recv"]).endswith("prim_names") for mc in synq.method_calls(f.body))
    form_b = uses_names and not by_id
    rep.ob("R12.7", "a world-level anonymous C type is defined once: every removal from `type_names` keeps the types "
           "is_prim_type_id holds for, or define_live_types decides `already emitted` from the name alone",
           form_a or form_b,
           "; ".join(f"{fn.name}: type_names.{mc['method']}({d})" for fn, mc, ok, d in res if not ok) +
           (f"; and define_live_types compares TypeIds (`{render(by_id[0])}`): a type met again after it was forgotten is "
            "emitted a second time (typedef redefinition, redefinition of its *_free helper)" if by_id else ""),
           sites[0][0].loc(sites[0][1]) if sites else f.loc())


def run(rep, tier):
    rep.describe(
        "other",
        "Necessary conditions for the generated C to compile for wasm32 and to link as the requested world, decided on "
        "the syntax tree of crates/c (and MIR of FunctionBindgen::new). (R12.1) `to_c_ident` is evaluated as a function: "
        "every C17 §6.4.1 keyword and <stdbool.h> macro that is a valid WIT identifier is renamed, in the lower- and in "
        "the upper-case spelling WIT allows, and no replacement is the C name of another WIT identifier; `asm`, `typeof` "
        "and the C23 additions are reported as information. (R12.2) arms whose literal no WIT identifier can reach are "
        "listed (information) and must not be the only protection of a C17 keyword. (R12.3) FunctionBindgen::new inserts "
        "every parameter name into `locals`, import_body_sync inserts the return pointers before abi::call, raw wasm "
        "import/export symbols come from `names.tmp`, public names are inserted into `names`, every `prefix{counter}` "
        "identifier is a struct member or reaches a CSig field that is inserted into Ns, names handed to nested blocks "
        "are `locals.tmp` values, every local a FunctionBindgen template declares under a computed name was named by "
        "`Ns::tmp` (directly or via `self.payloads`), and the identifiers the bindings add to an import wrapper's scope (return-pointer "
        "names, `ret_area`, `maybe_<name>`) cannot be produced from a user name. (R12.4) the typedef names used in "
        "casts inside wrapper bodies cannot be parameter names. (R12.5) the C file and the component-type object agree "
        "on the linking symbol, world id, resolve, string encoding, and the section name starts with the prefix "
        "wit-component's metadata::decode searches for. (R12.6) every declaration / use site of a user-named member or "
        "parameter calls to_c_ident (no direct snake-casing), Source::append carries every section over and finish() "
        "writes every section into the header resp. the C file. (R12.7) a world-level anonymous type is defined once: `type_names` "
        "never forgets a type `is_prim_type_id` holds for, or `already emitted` is decided by name. NOT decided: that clang / wasm-ld / the encoder accept the "
        "output, type-name collisions between interfaces (`a:b/c-d` vs `a:b-c/d`), collisions of a user name with the "
        "fixed `result` / `arg` / `args` parameters of async imports, macro names of headers the user includes.",
        trusted_base=["syn parse of crates/c", "C17 keyword list transcribed from ISO/IEC 9899:2018 §6.4.1",
                      "heck::to_snake_case on WIT identifiers = lower-casing + `-` to `_`",
                      "wit-component metadata.rs read from the cargo registry", "Ns (proved by C26)"],
        assumptions=["WIT identifiers: words of [a-z][a-z0-9]* or [A-Z][A-Z0-9]* joined by `-`"],
    )
    rep.rule("R12.1", "to_c_ident renames every C17 keyword / stdbool macro that a WIT identifier can spell")
    rep.rule("R12.2", "arms of to_c_ident that no WIT identifier reaches (informational) hide no C17 keyword")
    rep.rule("R12.3", "C temporaries and bindings-chosen identifiers come from Ns or cannot collide with user names")
    rep.rule("R12.4", "typedef names used inside wrapper bodies cannot be parameter names")
    rep.rule("R12.5", "the C source and the component-type object describe the same world and link together")
    rep.rule("R12.6", "user-named members are renamed consistently; every generated section reaches its output file")
    rep.rule("R12.7", "a world-level anonymous C type (and its free helper) is defined once even when its TypeId is met from imports and exports")
    rep.saw(file=REL)
    holder = {}

    def table():
        holder["ci"] = CIdent()
    rep.guard("R12.1", "to_c_ident table", table)
    ci = holder.get("ci")
    if ci is not None:
        rep.guard("R12.1", "keywords", lambda: r12_1(rep, ci))
        rep.guard("R12.2", "unreachable arms", lambda: r12_2(rep, ci))
    rep.guard("R12.3", "seeding of Ns", lambda: r12_3_seed(rep))
    rep.guard("R12.3", "seeding of Ns (MIR)", lambda: r12_3_seed_mir(rep))
    rep.guard("R12.3", "file-scope symbols", lambda: r12_3_symbols(rep))
    rep.guard("R12.3", "counter-suffixed identifiers", lambda: r12_3_counters(rep))
    rep.guard("R12.3", "names handed to nested blocks", lambda: r12_3_sources(rep))
    rep.guard("R12.3", "locals declared by templates", lambda: r12_3_declared(rep))
    if ci is not None:
        rep.guard("R12.3", "identifiers added to an import wrapper's scope", lambda: r12_3_fixed(rep, ci))
        rep.guard("R12.4", "typedef names", lambda: r12_4(rep, ci))
    rep.guard("R12.5", "component-type object", lambda: r12_5(rep))
    rep.guard("R12.6", "renaming sites and output sections", lambda: r12_6(rep))
    rep.guard("R12.7", "one definition per C type name", lambda: r12_7(rep))
