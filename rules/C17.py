"""C17 — async selection directives select exactly the documented functions (structural clauses)."""
import os

from lib import facts, mir, synq
from lib.mir import AnchorMissing
from lib.synq import render
from .rtcommon import bool_switches_on_call, discr_switches, variant_target

CLAIM = dict(
    level="other", engine="mirfacts+synfacts", design="DESIGN.md §5 C17",
    technique="MIR path rules on AsyncFilterSet::is_async / ensure_all_used (first-match return, polarity of the "
              "is_import switch, default table), constant is_import argument at every backend call site, table "
              "evaluation of Async::parse / Display, (AbiVariant, prefix) tuples under the answer",
    text="Decides that the directive loop consults the directives in order and returns the `enabled` bit of the first "
         "entry that matches name and direction (marking it used), that the fall-through equals the WIT's async-ness, "
         "that unused non-`all` directives are an error which the Rust generator propagates, that every backend call "
         "site passes the direction of its enclosing function as a constant, that the async AbiVariant / name prefix "
         "is selected on the true edge of the answer, and that parse and Display agree on `-`, `all`, `import:`, "
         "`export:`. Partial: generated output for a concrete directive list is not produced.",
    note="mir+syn")

ASYNC_RS = "crates/core/src/async_.rs"
RUST_IF = "crates/rust/src/interface.rs"
RUST_LIB = "crates/rust/src/lib.rs"
C_LIB = "crates/c/src/lib.rs"
GO_LIB = "crates/go/src/lib.rs"
MB_LIB = "crates/moonbit/src/lib.rs"
MB_ASYNC = "crates/moonbit/src/async_support.rs"

IS_ASYNC = "AsyncFilterSet::is_async"
ENSURE = "AsyncFilterSet::ensure_all_used"

# --- direction of the functions that ask the filter set (built by reading the four backends) -----------------------
# (crate, generic-stripped path suffix of the enclosing function) -> the is_import constant it must pass
SITE_DIRECTION = {
    ("wit_bindgen_c", "InterfaceGenerator::import"): True,
    ("wit_bindgen_c", "InterfaceGenerator::export"): False,
    ("wit_bindgen_go", "Go::import"): True,
    ("wit_bindgen_go", "Go::export"): False,
    ("wit_bindgen_moonbit", "AsyncSupport::import_plan"): True,
    ("wit_bindgen_moonbit", "AsyncSupport::export_plan"): False,
    ("wit_bindgen_rust", "InterfaceGenerator::generate_guest_import"): True,
    ("wit_bindgen_rust", "InterfaceGenerator::generate_exports"): False,
    ("wit_bindgen_rust", "InterfaceGenerator::generate_stub_impl"): False,
}
# forwarders: pass their own `is_import` parameter through unchanged
FORWARDERS = {("wit_bindgen_rust", "RustWasm::is_async")}
# callee (suffix) -> direction; every caller must itself be of that direction (table below)
WRAPPER_DIRECTION = {
    "wit_bindgen_c": {"InterfaceGenerator::import": True, "InterfaceGenerator::export": False},
    "wit_bindgen_go": {"Go::import": True, "Go::export": False},
    "wit_bindgen_moonbit": {"AsyncSupport::import_plan": True, "AsyncSupport::export_plan": False,
                            "InterfaceGenerator::import": True, "InterfaceGenerator::export": False},
    "wit_bindgen_rust": {"InterfaceGenerator::generate_guest_import": True,
                         "InterfaceGenerator::generate_imports": True,
                         "InterfaceGenerator::generate_exports": False,
                         "InterfaceGenerator::generate_stub": False,
                         "InterfaceGenerator::generate_stub_impl": False},
}
# functions of a known direction that may call the wrappers above (WorldGenerator entry points + the wrappers)
CALLER_DIRECTION = {
    "WorldGenerator>::import_interface": True, "WorldGenerator>::import_funcs": True,
    "WorldGenerator>::export_interface": False, "WorldGenerator>::export_funcs": False,
}
BACKENDS = ["wit_bindgen_rust", "wit_bindgen_c", "wit_bindgen_go", "wit_bindgen_moonbit"]
ASYNC_VARIANTS = {"GuestImportAsync", "GuestExportAsync", "GuestExportAsyncStackful"}
CMP = ["PartialEq>::eq", "PartialEq>::ne", "PartialEq::eq", "PartialEq::ne"]


# ----------------------------------------------------------------------------------------------------------------
# helpers local to this module (lib gaps: origins of multiply-defined locals, constant-pruned reachability)
# ----------------------------------------------------------------------------------------------------------------
def ws(crate):
    return mir.load("ws", crate, "rlib")


def def_origins(f, local):
    """Origins of every whole-local definition of `local` (Fn.origin gives up on locals with several definitions)."""
    out = []
    for b, i, kind, payload in f.defs.get(local, []):
        if kind == "partial":
            continue
        if kind == "call":
            out.append((b, {"kind": "call", "call": mir.Call(b, payload), "proj": []}))
            continue
        rv = payload
        if rv["k"] == "use":
            out.append((b, f.origin(rv["o"])))
        elif rv["k"] in ("ref", "rawptr"):
            inner = rv["p"]
            base = dict(f.place_origin({"l": inner["l"]}))
            base["proj"] = list(base.get("proj", [])) + inner.get("p", []) + ["&"]
            out.append((b, base))
        else:
            out.append((b, {"kind": "rv", "rv": rv}))
    return out


def origins(f, op):
    """All origins of an operand: follows a multiply-defined local one level (match arms assigning one variable)."""
    o = f.origin(op)
    if o.get("kind") == "place" and o.get("ndefs", 0) > 1:
        return def_origins(f, o["local"])
    return [(None, o)]


def _plain_local(op):
    p = op.get("cp") or op.get("mv")
    if p is not None and not p.get("p"):
        return p["l"]
    return None


def follow_consts(f, start, stop=()):
    """Blocks reachable from `start` when a switch on a local that currently holds a known constant only takes the
    matching edge (`matches!` lowers to `tmp = const true/false; switch tmp`).  Blocks in `stop` are entered, not left."""
    stop = set(stop)
    seen = set()
    out = set()
    st = [(start, ())]
    while st:
        b, envt = st.pop()
        if (b, envt) in seen:
            continue
        seen.add((b, envt))
        out.add(b)
        if b in stop:
            continue
        env = dict(envt)
        for s in f.stmts(b):
            if s["k"] == "=" and not s["p"].get("p"):
                rv = s["rv"]
                if rv["k"] == "use" and "c" in rv["o"] and "v" in rv["o"]:
                    env[s["p"]["l"]] = int(rv["o"]["v"])
                else:
                    env.pop(s["p"]["l"], None)
        t = f.term(b)
        succ = list(f.succ[b])
        if t["k"] == "call" and not t["d"].get("p"):
            env.pop(t["d"]["l"], None)
        if t["k"] == "switch":
            l = _plain_local(t["d"])
            if l is not None and l in env:
                tg = f.switch_targets(b)
                succ = [tg.get(env[l], tg["else"])]
        nxt = tuple(sorted(env.items()))
        for s in succ:
            if not f.bbs[s]["cl"]:
                st.append((s, nxt))
    return out


def call_chain(f, op, limit=12):
    """Callee names from an operand back to its root origin, following the first argument (`a.b().c()` chains)."""
    names = []
    o = f.origin(op)
    while o.get("kind") == "call" and limit > 0:
        names.append(mir.norm(o["call"].callee))
        if not o["call"].args:
            break
        o = f.origin(o["call"].args[0])
        limit -= 1
    return names, o


def local_callee(c, call):
    """the same-crate function a call resolves to (None for foreign or indirect callees)."""
    n = mir.norm(call.callee)
    for g in c.fns.values():
        if g.npath == n:
            return g
    return None


def ret_sources(f):
    """origins of every value that reaches the return place: assignments to `_0` and calls writing it."""
    out = []
    for b, s in ret_writes(f):
        rv = s["rv"]
        if rv["k"] == "un":
            out.append((b, {"kind": "un", "op": rv.get("op"), "a": f.origin(rv["a"])}))
        else:
            out.append((b, f.stored(s)))
    for x in f.calls():
        if x.dest["l"] == 0 and not x.dest.get("p"):
            out.append((x.bb, {"kind": "call", "call": x, "proj": []}))
    return out


def self_field_uses(f, a_self):
    """{field: loc} for the first-level fields of the `self` parameter that any place of f goes through."""
    out = {}

    def place(pl, loc):
        l, p = pl["l"], list(pl.get("p") or [])
        if l != a_self:
            o = f.place_origin({"l": l})
            if o.get("kind") != "arg" or o.get("n") != a_self:
                return
            p = list(o.get("proj", [])) + p
        for e in p:
            if isinstance(e, str) and e.startswith("."):
                out.setdefault(e[1:], loc)
                return

    def rec(x, loc):
        if isinstance(x, dict):
            if isinstance(x.get("l"), int) and "f" not in x and set(x) <= {"l", "p"}:
                place(x, loc)
                return
            for k, v in x.items():
                if k != "sp":
                    rec(v, loc)
        elif isinstance(x, list):
            for v in x:
                rec(v, loc)
    for b in sorted(f.live):
        rec(f.stmts(b), f.loc(b))
        rec(f.term(b), f.loc(b))
    return out


def run_mir(g, args, discr_pred, discr_val, oracle, oracle_val, limit=400):
    """Evaluate a small bool-valued MIR function concretely: `args` maps parameter locals to ints, the discriminant of
    any place whose origin satisfies discr_pred is discr_val, every call matching `oracle` returns oracle_val (negated
    for `ne`); anything else is unknown, and branching on an unknown fails closed."""
    env = dict(args)
    b = 0

    def val(o):
        if "c" in o:
            return int(o["v"]) if "v" in o else None
        l = _plain_local(o)
        return env.get(l) if l is not None else None
    for _ in range(limit):
        for s_ in g.stmts(b):
            if s_["k"] != "=":
                continue
            rv, dst = s_["rv"], s_["p"]
            v = None
            if rv["k"] == "use":
                v = val(rv["o"])
            elif rv["k"] == "un" and rv.get("op") == "Not":
                a = val(rv["a"])
                v = None if a is None else 1 - a
            elif rv["k"] == "discr" and discr_pred(g.place_origin(rv["p"])):
                v = discr_val
            if not dst.get("p"):
                env[dst["l"]] = v
        t = g.term(b)
        k = t["k"]
        if k == "return":
            return env.get(0)
        if k in ("goto", "drop", "assert"):
            b = t["t"]
        elif k == "switch":
            v = val(t["d"])
            if v is None:
                raise AnchorMissing(f"{g.npath}: branch on a value the table evaluation cannot determine")
            tg = g.switch_targets(b)
            b = tg.get(v, tg["else"])
        elif k == "call":
            x = mir.Call(b, t)
            v = None
            if x.matches(oracle):
                v = 1 - oracle_val if mir.norm(x.callee).endswith("::ne") else oracle_val
            if not t["d"].get("p"):
                env[t["d"]["l"]] = v
            if t["t"] < 0:
                raise AnchorMissing(f"{g.npath}: diverging call during table evaluation")
            b = t["t"]
        else:
            raise AnchorMissing(f"{g.npath}: terminator {k} during table evaluation")
    raise AnchorMissing(f"{g.npath}: table evaluation did not terminate")


def arg_of_type(f, sub):
    """Index (1-based local) of the unique parameter whose type contains `sub`."""
    c = [i for i in range(1, f.argc + 1) if sub in f.locals[i]]
    if len(c) != 1:
        raise AnchorMissing(f"{f.npath}: {len(c)} parameters of type *{sub}*")
    return c[0]


def is_arg_field(o, n, *fields):
    return o.get("kind") == "arg" and o.get("n") == n and all(("." + x) in o.get("proj", []) for x in fields)


def ret_writes(f):
    """Statements assigning the return place `_0` (whole)."""
    out = []
    for b in sorted(f.live):
        for s in f.stmts(b):
            if s["k"] == "=" and s["p"]["l"] == 0 and not s["p"].get("p"):
                out.append((b, s))
    return out


def true_region(f, sw):
    b, ft, tt = sw
    return f.edge_region(b, tt) if tt is not None else set()


def false_region(f, sw):
    b, ft, tt = sw
    return f.edge_region(b, ft) if ft is not None else set()


def bool_switches_on(f, pred):
    """(switch_bb, false_target, true_target) for switches on a bool whose origin (looking through `!`) satisfies pred."""
    out = []
    for b, t in f.switches():
        o = f.switch_origin(b)
        neg = False
        while o.get("kind") == "un" and o.get("op") == "Not":
            o = o["a"]
            neg = not neg
        if pred(o):
            tg = f.switch_targets(b)
            if set(tg) - {0, 1, "else"}:
                continue
            ft = tg.get(0)
            tt = tg.get(1, tg["else"]) if 0 in tg else None
            if 0 not in tg:           # `[1 -> T] else F` form
                tt, ft = tg.get(1), tg["else"]
            if neg:
                ft, tt = tt, ft
            out.append((b, ft, tt))
    return out


# ================================================================================================================
def run(rep, tier):
    rep.describe(
        "other",
        "Structural necessary conditions of C17. On the MIR of wit_bindgen_core: AsyncFilterSet::is_async walks "
        "self.async_ front to back; `All` marks the entry used and returns its `enabled` bit at once; `Import(s)` is "
        "skipped exactly when is_import is false and `Export(s)` exactly when it is true; otherwise the payload is "
        "compared with the name under test and on equality the entry is marked used and its own `enabled` bit is "
        "returned, on inequality the loop goes on; after the loop the answer is true exactly for the Async* function "
        "kinds. ensure_all_used returns Err for every entry that is neither used nor `All`, and RustWasm::finish only "
        "returns Ok through its Continue edge. On the MIR of the four backends: every call of is_async passes a "
        "constant direction that matches its enclosing function (9 sites + 1 forwarder) and those functions are only "
        "reached from entry points of the same direction. On MIR and syntax trees: the async AbiVariant and the "
        "`[async-lower]` / `[async-lift]` prefix are chosen on the true edge of the answer, the sync pair on the "
        "false edge (C, Go, Rust; MoonBit through wit-parser's LiftLowerAbi tables, read as an oracle). On the syntax "
        "tree of async_.rs: Async::parse evaluated on sample directives yields the documented (enabled, filter) and "
        "Display prints the same text back. NOT decided: the text generated for a concrete world and directive list, "
        "wit-parser's name_world_key, what the callers do with functions they never ask about (futures/streams).",
        trusted_base=["rustc nightly MIR (opt-level 0) of the workspace crates", "tools/mirfacts", "tools/synfacts",
                      "direction tables SITE_DIRECTION / WRAPPER_DIRECTION transcribed by reading the backends",
                      "wit-parser LiftLowerAbi::{import,export}_{variant,prefix} (oracle source in the cargo registry)",
                      "documented directive grammar (doc comment of AsyncFilterSet) transcribed in rules/C17.py"],
        assumptions=["native (x86_64) build; the generator crates are target independent"],
    )
    rep.guard("R17.1", "is_async loop", lambda: r1_loop(rep))
    rep.guard("R17.1", "name under test", lambda: r1_name(rep))
    rep.guard("R17.1", "macro option order", lambda: r1_macro(rep))
    rep.guard("R17.2", "default table", lambda: r2_default(rep))
    rep.guard("R17.3", "ensure_all_used", lambda: r3_ensure(rep))
    rep.guard("R17.3", "RustWasm::finish", lambda: r3_finish(rep))
    rep.guard("R17.4", "call sites", lambda: r4_sites(rep))
    rep.guard("R17.4", "wrapper callers", lambda: r4_wrappers(rep))
    rep.guard("R17.5", "C / Go tuples", lambda: r5_tuples(rep))
    rep.guard("R17.5", "Rust selection", lambda: r5_rust(rep))
    rep.guard("R17.5", "MoonBit plans", lambda: r5_moonbit(rep))
    rep.guard("R17.5", "who constructs async variants", lambda: r5_constructors(rep))
    rep.guard("R17.5", "who prints an async prefix", lambda: r5_printers(rep))
    rep.guard("R17.6", "parse / Display", lambda: r6_parse_display(rep))


# ================================================================================================================
# R17.1  the directive loop
# ================================================================================================================
class Loop:
    """Anchors of a `for (i, opt) in self.async_.iter().enumerate()` loop."""

    def __init__(self, f, who):
        self.f = f
        nx = f.calls("Iterator>::next") or [c for c in f.calls() if mir.norm(c.callee).endswith("::next")]
        if len(nx) != 1:
            raise AnchorMissing(f"{who}: expected one iterator `next` site, found {len(nx)}")
        self.next = nx[0]
        self.head = self.next.bb
        sws = [(b, m, o) for b, m, o in discr_switches(f) if o["of"].get("kind") == "call"
               and o["of"]["call"].bb == self.head and not o["of"].get("proj")]
        if len(sws) != 1:
            raise AnchorMissing(f"{who}: switch on the result of `next` not found")
        self.sw, m, _ = sws[0]
        self.some = variant_target(m, "Some")
        self.none = variant_target(m, "None")
        if self.some is None or self.none is None:
            raise AnchorMissing(f"{who}: Some/None edges of `next`")

    def elem(self, o, *path):
        """is origin `o` the current element's projection `path` (e.g. '.0' index, '.1' entry)?"""
        if o.get("kind") != "call" or o["call"].bb != self.head:
            return False
        pr = [p for p in o.get("proj", []) if p not in ("&", "*")]
        want = ["as Some", ".0"] + list(path)
        return pr[:len(want)] == want

    def chain(self):
        names, root = call_chain(self.f, self.next.args[0])
        return names, root


def filter_switch(f, loop, who):
    c = [(b, m, o) for b, m, o in discr_switches(f, ty_sub="AsyncFilter")
         if loop.elem(o["of"], ".1") and ".filter" in o["of"].get("proj", [])]
    if len(c) != 1:
        raise AnchorMissing(f"{who}: switch on the element's `.filter` discriminant: {len(c)} found")
    return c[0]


def has_directive_loop(g):
    try:
        a = arg_of_type(g, "AsyncFilterSet")
        L = Loop(g, g.npath)
        names, root = L.chain()
        return is_arg_field(root, a, "async_")
    except (AnchorMissing, IndexError):
        return False


def scan_fn(c):
    """(function holding the directive loop, the call in is_async that reaches it or None)."""
    top = c.method("AsyncFilterSet", "is_async")
    if has_directive_loop(top):
        return top, top, None
    a_self = arg_of_type(top, "AsyncFilterSet")
    cands = []
    for x in top.calls():
        g = local_callee(c, x)
        if g is None or not has_directive_loop(g):
            continue
        if any(o.get("kind") == "arg" and o.get("n") == a_self and not [p for p in o.get("proj", []) if p.startswith(".")]
               for o in (top.origin(a) for a in x.args)):
            cands.append((x, g))
    if len(cands) != 1:
        raise AnchorMissing(f"is_async: the directive loop (in is_async or in one helper it hands `self` to): {len(cands)} found")
    return top, cands[0][1], cands[0][0]


def derives_name(f, o, depth=6):
    """is the value the name under test: func.name / format of name_world_key and func.name, possibly borrowed?"""
    if depth <= 0:
        return False
    if o.get("kind") == "place" and o.get("ndefs", 0) > 1:
        ds = def_origins(f, o["local"])
        return bool(ds) and all(derives_name(f, x, depth - 1) for _, x in ds)
    if o.get("kind") == "call":
        n = mir.norm(o["call"].callee)
        if n.endswith(("Deref>::deref", "String::as_str", "Borrow>::borrow", "AsRef>::as_ref")) and o["call"].args:
            return derives_name(f, f.origin(o["call"].args[0]), depth - 1)
        return _from_name(f, o)
    return False


ALLOWED_SELF_FIELDS = {"async_", "used_options"}


def r1_purity(rep, top, f, via):
    """the answer is a function of (directives, name, direction, func): no other state of the set takes part."""
    for g in ([top] if f is top else [top, f]):
        a = arg_of_type(g, "AsyncFilterSet")
        uses = self_field_uses(g, a)
        extra = sorted(set(uses) - ALLOWED_SELF_FIELDS)
        who = g.npath.split("::")[-1]
        rep.ob("R17.1", f"{who}: only the directive list and the usage marks of the set are touched (the answer "
               "depends on directives, name, direction and function alone)", not extra,
               f"also goes through self.{', self.'.join(extra)}", uses[extra[0]] if extra else g.loc())
    if via is None:
        return
    a_imp = [i for i in range(1, top.argc + 1) if top.locals[i] == "bool"]
    a_func = arg_of_type(top, "Function")
    srcs = ret_sources(top)
    bad = [b for b, o in srcs if not (o.get("kind") == "call" and not o.get("proj") and o["call"].bb == via.bb)]
    rep.ob("R17.1", "is_async: every answer is the result of the directive scan for this very query", bool(srcs) and not bad,
           f"{len(bad)} return value(s) come from somewhere else (a cache, a constant)", top.loc(bad[0]) if bad else top.loc())
    for i, t in enumerate(via.arg_types):
        o = top.origin(via.args[i])
        if t == "bool":
            rep.ob("R17.1", "is_async: the scan receives the caller's is_import unchanged",
                   o.get("kind") == "arg" and [o.get("n")] == a_imp and not o.get("proj"), f"{o.get('kind')}", top.loc(via.bb))
        elif "Function" in t:
            rep.ob("R17.1", "is_async: the scan receives the caller's function",
                   o.get("kind") == "arg" and o.get("n") == a_func, f"{o.get('kind')}", top.loc(via.bb))
        elif "str" in t or "String" in t:
            rep.ob("R17.1", "is_async: the scan receives the name under test (built from interface and func)",
                   derives_name(top, o), "the name handed to the scan is not derived from func.name / name_world_key", top.loc(via.bb))


def r1_loop(rep):
    c = ws("wit_bindgen_core")
    top, f, via = scan_fn(c)
    rep.saw(top)
    rep.saw(f)
    r1_purity(rep, top, f, via)
    a_self = arg_of_type(f, "AsyncFilterSet")
    if via is None:
        def name_ok(o_):
            return derives_name(f, o_)
    else:
        a_name = [i for i in range(1, f.argc + 1) if "str" in f.locals[i] or "String" in f.locals[i]]

        def name_ok(o_):
            return o_.get("kind") == "arg" and [o_.get("n")] == a_name
    a_imp = [i for i in range(1, f.argc + 1) if f.locals[i] == "bool"]
    if len(a_imp) != 1:
        raise AnchorMissing("is_async: the bool parameter `is_import`")
    a_imp = a_imp[0]
    L = Loop(f, "is_async")
    N = L.head

    # (a) in the order given
    names, root = L.chain()
    short = [n.split("::")[-1] for n in names]
    rep.ob("R17.1", "is_async: iterates self.async_ front to back, enumerated",
           is_arg_field(root, a_self, "async_") and "enumerate" in short and "iter" in short
           and set(short) <= {"into_iter", "enumerate", "iter", "deref", "as_slice"},
           f"iterator chain {short} over {root.get('place', root.get('kind'))}", f.loc(N))

    # used_options.insert(i) sites: same set, index of the current element
    def touches_used(x):
        return any(is_arg_field(f.origin(a), a_self, "used_options") for a in x.args)
    ins = [x for x in f.calls() if touches_used(x) and any(L.elem(f.origin(a), ".0") for a in x.args)
           and (x.matches("HashSet::insert") or local_callee(c, x) is not None)]
    ins_b = [x.bb for x in ins]
    rep.floor("R17.1", "used_options.insert(i) sites in is_async", len(ins), 1)
    others = [x for x in f.calls() if touches_used(x) and x.bb not in ins_b
              and not mir.norm(x.callee).endswith(("Deref>::deref", "DerefMut>::deref_mut"))]
    rep.ob("R17.1", "is_async: every used_options.insert records the index of the current element",
           not others, f"{len(others)} insert site(s) with another set or index", f.loc(others[0].bb) if others else f.loc())

    # return values: `.enabled` of the current element inside the loop, constants after it
    loop_region = f.edge_region(L.sw, L.some)
    enabled_writes = []
    bad = []
    for b, s in ret_writes(f):
        if b not in loop_region:
            continue
        o = f.stored(s)
        if L.elem(o, ".1") and ".enabled" in o.get("proj", []) and o.get("kind") == "call":
            enabled_writes.append(b)
        else:
            bad.append(b)
    rep.floor("R17.1", "`return opt.enabled` sites in the loop", len(enabled_writes), 1)
    rep.ob("R17.1", "is_async: every value returned from inside the loop is the `enabled` bit of the matching element",
           not bad, "a return inside the loop yields something else (negated, constant, another element)",
           f.loc(bad[0]) if bad else f.loc())

    try:
        swb, m, o = filter_switch(f, L, "is_async")
    except AnchorMissing:
        return r1_predicate(rep, c, f, L, a_imp, ins_b, enabled_writes, loop_region, name_ok)
    want_vars = {"All", "Function", "Import", "Export"}
    have = set(o["vars"].values())
    rep.ob("R17.1", "is_async: AsyncFilter has exactly the variants All / Function / Import / Export",
           have == want_vars, f"variants {sorted(have)}", f.loc(swb))

    # the name test
    eqs = [x for x in f.calls(CMP) if x.bb in loop_region]
    rep.floor("R17.1", "name comparison sites in the loop", len(eqs), 1)
    if len(eqs) != 1:
        raise AnchorMissing(f"is_async: expected one name comparison in the loop, found {len(eqs)}")
    E = eqs[0]
    is_ne = mir.norm(E.callee).endswith("::ne")
    esw = [s for s in bool_switches_on_call(f, CMP) if f.switch_origin(s[0]) is not None
           and _origin_call_bb(f.switch_origin(s[0])) == E.bb]
    if len(esw) != 1:
        raise AnchorMissing("is_async: switch on the name comparison")
    eb, eft, ett = esw[0]
    if is_ne:
        eft, ett = ett, eft
    # operands: one side a payload of the element's filter, the other the name under test
    sides = [origins(f, a) for a in E.args[:2]]

    def payload_side(os_):
        return all(L.elem(o_, ".1") and ".filter" in o_.get("proj", []) and
                   any(p.startswith("as ") and p != "as Some" for p in o_.get("proj", [])) for _, o_ in os_)
    pay = [i for i, os_ in enumerate(sides) if payload_side(os_)]
    rep.ob("R17.1", "is_async: the comparison tests the matching entry's own payload string",
           len(pay) == 1, f"{len(pay)} operand(s) are payloads of the current element's filter", f.loc(E.bb))
    if len(pay) == 1:
        for db, o_ in sides[pay[0]]:
            v = [p[3:] for p in o_["proj"] if p.startswith("as ") and p != "as Some"][0]
            tv = variant_target(m, v)
            rep.ob("R17.1", f"is_async: the string compared under {v} is {v}'s payload",
                   tv is not None and (db is None or f.dominates(tv, db) or db == tv),
                   f"payload of {v} is selected outside the {v} arm", f.loc(db) if db is not None else f.loc(E.bb))
        got = sorted(p[3:] for _, o_ in sides[pay[0]] for p in o_["proj"] if p.startswith("as ") and p != "as Some")
        rep.ob("R17.1", "is_async: Function, Import and Export payloads all reach the comparison",
               got == ["Export", "Function", "Import"], f"payloads compared: {got}", f.loc(E.bb))
        other = sides[1 - pay[0]]
        rep.ob("R17.1", "is_async: the payload is compared with the name under test (built from interface and func)",
               len(other) >= 1 and all(name_ok(o_) for _, o_ in other),
               "the other operand is not derived from func.name / name_world_key", f.loc(E.bb))

    rets = f.returns()
    # equality: mark used, return, never continue
    rep.ob("R17.1", "is_async: a name match marks the entry used before returning",
           ett is not None and f.all_paths_pass(ett, rets, ins_b), "a path from the equal edge returns without "
           "used_options.insert(i)", f.loc(eb))
    rep.ob("R17.1", "is_async: a name match returns at once (first match wins, later directives are not consulted)",
           ett is not None and N not in f.reachable(ett) and bool(set(f.reachable(ett)) & set(enabled_writes)),
           "the equal edge can reach the loop head again or does not return the element's bit", f.loc(eb))
    rep.ob("R17.1", "is_async: a name mismatch goes on to the next directive without returning",
           eft is not None and f.all_paths_pass(eft, rets, [N]) and N in f.reachable(eft)
           and not (f.reachable(eft, avoid=[N]) & set(ins_b)),
           "the unequal edge returns, or marks the entry used", f.loc(eb))

    # per variant
    t_all = variant_target(m, "All")
    r_all = f.reachable(t_all) if t_all is not None else set()
    rep.ob("R17.1", "is_async: All returns unconditionally (no name or direction test, loop not continued)",
           t_all is not None and N not in r_all and E.bb not in r_all and bool(r_all & set(enabled_writes))
           and not [s for s in bool_switches_on(f, lambda o_: o_.get("kind") == "arg" and o_.get("n") == a_imp) if s[0] in r_all],
           "the All arm can continue the loop, compares a name or looks at is_import", f.loc(t_all) if t_all is not None else f.loc())
    rep.ob("R17.1", "is_async: All marks the entry used before returning",
           t_all is not None and f.all_paths_pass(t_all, rets, ins_b), "", f.loc(t_all) if t_all is not None else f.loc())

    imp_sw = bool_switches_on(f, lambda o_: o_.get("kind") == "arg" and o_.get("n") == a_imp and not o_.get("proj"))
    rep.floor("R17.1", "switches on is_import in is_async", len(imp_sw), 2)
    t_fn = variant_target(m, "Function")
    r_fn = f.reachable(t_fn, avoid=[E.bb]) if t_fn is not None else set()
    rep.ob("R17.1", "is_async: Function(s) is compared whatever the direction",
           t_fn is not None and f.all_paths_pass(t_fn, rets + [N], [E.bb]) and not [s for s in imp_sw if s[0] in r_fn],
           "the Function arm can skip the name test or looks at is_import", f.loc(t_fn) if t_fn is not None else f.loc())
    for v, skip_when in (("Import", False), ("Export", True)):
        tv = variant_target(m, v)
        if tv is None:
            rep.ob("R17.1", f"is_async: {v} arm present", False, "", f.loc(swb))
            continue
        region = f.edge_region(swb, tv)
        mine = [s for s in imp_sw if s[0] in region or s[0] == tv]
        rep.ob("R17.1", f"is_async: {v}(s) tests is_import exactly once before the name test",
               len(mine) == 1 and f.all_paths_pass(tv, rets + [N, E.bb], [mine[0][0]] if mine else []),
               f"{len(mine)} is_import switch(es) in the {v} arm", f.loc(tv))
        if len(mine) != 1:
            continue
        b, ft, tt = mine[0]
        skip_t, go_t = (tt, ft) if skip_when else (ft, tt)
        word = "true" if skip_when else "false"
        rep.ob("R17.1", f"is_async: {v}(s) is skipped (continue) when is_import = {word}",
               skip_t is not None and f.all_paths_pass(skip_t, rets + [E.bb], [N]) and N in f.reachable(skip_t)
               and not (f.reachable(skip_t, avoid=[N]) & set(ins_b)),
               f"on is_import = {word} the {v} directive is still compared, returns, or is marked used", f.loc(b))
        rep.ob("R17.1", f"is_async: {v}(s) is compared when is_import = {'false' if skip_when else 'true'}",
               go_t is not None and f.all_paths_pass(go_t, rets + [N], [E.bb]) and E.bb in f.reachable(go_t),
               f"on the applicable direction the {v} directive does not reach the name test", f.loc(b))


WANT_MATCH = {"All": lambda imp, eq: 1, "Function": lambda imp, eq: eq,
              "Import": lambda imp, eq: imp & eq, "Export": lambda imp, eq: (1 - imp) & eq}


def r1_predicate(rep, c, f, L, a_imp, ins_b, enabled_writes, loop_region, name_ok):
    """the per-directive decision lives in a helper `fn(&AsyncFilter, name, is_import) -> bool` called from the loop."""
    N = L.head
    cands = []
    for x in f.calls():
        if x.bb not in loop_region:
            continue
        g = local_callee(c, x)
        if g is None or g.locals[0] != "bool":
            continue
        fi = [i for i, a in enumerate(x.args) if L.elem(f.origin(a), ".1") and ".filter" in f.origin(a).get("proj", [])]
        if fi:
            cands.append((x, g, fi[0]))
    rep.floor("R17.1", "per-directive match decisions in the loop (inline table or helper predicate)", len(cands), 1)
    if len(cands) != 1:
        raise AnchorMissing(f"is_async: neither an inline match on the directive's filter nor one helper predicate ({len(cands)})")
    x, g, fi = cands[0]
    rep.saw(g)
    who = g.npath.split("::")[-1]
    sws = bool_switches_on(f, lambda o_: o_.get("kind") == "call" and not o_.get("proj") and o_["call"].bb == x.bb)
    if len(sws) != 1:
        raise AnchorMissing(f"is_async: switch on the result of {who}")
    b, ft, tt = sws[0]
    rets = f.returns()
    rep.ob("R17.1", "is_async: a name match marks the entry used before returning",
           tt is not None and f.all_paths_pass(tt, rets, ins_b), "a path from the matching edge returns without marking", f.loc(b))
    rep.ob("R17.1", "is_async: a name match returns at once (first match wins, later directives are not consulted)",
           tt is not None and N not in f.reachable(tt) and bool(set(f.reachable(tt)) & set(enabled_writes)),
           "the matching edge can reach the loop head again or does not return the element's bit", f.loc(b))
    rep.ob("R17.1", "is_async: a name mismatch goes on to the next directive without returning",
           ft is not None and f.all_paths_pass(ft, rets, [N]) and N in f.reachable(ft)
           and not (f.reachable(ft, avoid=[N]) & set(ins_b)), "the non-matching edge returns, or marks the entry used", f.loc(b))
    g_flt = fi + 1
    g_imp = [i for i in range(1, g.argc + 1) if g.locals[i] == "bool"]
    g_name = [i for i in range(1, g.argc + 1) if i != g_flt and i not in g_imp]
    if len(g_imp) != 1 or len(g_name) != 1:
        raise AnchorMissing(f"{who}: parameters (filter, name, is_import)")
    oi = f.origin(x.args[g_imp[0] - 1])
    rep.ob("R17.1", f"is_async: {who} receives the caller's is_import unchanged",
           oi.get("kind") == "arg" and oi.get("n") == a_imp and not oi.get("proj"), f"{oi.get('kind')}", f.loc(x.bb))
    on = origins(f, x.args[g_name[0] - 1])
    rep.ob("R17.1", "is_async: the payload is compared with the name under test (built from interface and func)",
           bool(on) and all(name_ok(o_) for _, o_ in on), "the name handed to the predicate is not the name under test", f.loc(x.bb))
    sw = [(b_, m_, o_) for b_, m_, o_ in discr_switches(g, ty_sub="AsyncFilter")
          if o_["of"].get("kind") == "arg" and o_["of"].get("n") == g_flt]
    if len(sw) != 1:
        raise AnchorMissing(f"{who}: switch on the filter's discriminant: {len(sw)} found")
    sb, m, o = sw[0]
    have = set(o["vars"].values())
    rep.ob("R17.1", "is_async: AsyncFilter has exactly the variants All / Function / Import / Export",
           have == set(WANT_MATCH), f"variants {sorted(have)}", g.loc(sb))
    words = {"All": "always", "Function": "name equal, whatever the direction", "Import": "is_import and name equal",
             "Export": "not is_import and name equal"}
    for dv, v in sorted(o["vars"].items()):
        if v not in WANT_MATCH:
            continue
        got = {}
        for imp in (0, 1):
            for eq in (0, 1):
                got[(imp, eq)] = run_mir(g, {g_imp[0]: imp}, lambda po: po.get("kind") == "arg" and po.get("n") == g_flt,
                                         dv, CMP, eq)
        want = {k: WANT_MATCH[v](*k) for k in got}
        rep.ob("R17.1", f"is_async: {v} matches exactly when: {words[v]}", got == want,
               f"(is_import, equal) -> {got}", g.loc(variant_target(m, v)) if variant_target(m, v) is not None else g.loc())
    cmps = g.calls(CMP)
    rep.floor("R17.1", f"name comparisons in {who}", len(cmps), 1)
    seen = set()
    for e in cmps:
        sides = [g.origin(a) for a in e.args[:2]]
        pv = [p[3:] for o_ in sides if o_.get("kind") == "arg" and o_.get("n") == g_flt for p in o_.get("proj", []) if p.startswith("as ")]
        nm = [o_ for o_ in sides if o_.get("kind") == "arg" and o_.get("n") == g_name[0]]
        tv = variant_target(m, pv[0]) if len(pv) == 1 else None
        seen.update(pv)
        rep.ob("R17.1", f"{who}: a comparison tests the matching variant's own payload against the name",
               len(pv) == 1 and len(nm) == 1 and tv is not None and g.dominates(tv, e.bb),
               f"compares payload of {pv} with {len(nm)} name operand(s)", g.loc(e.bb))
    rep.ob("R17.1", "is_async: Function, Import and Export payloads all reach the comparison",
           seen == {"Function", "Import", "Export"}, f"payloads compared: {sorted(seen)}", g.loc())


def _origin_call_bb(o):
    while o.get("kind") == "un":
        o = o["a"]
    return o["call"].bb if o.get("kind") == "call" else None


def _from_name(f, o, depth=8):
    """does the origin derive from `func.name` (clone) or from a format of name_world_key(..) and func.name?"""
    if depth <= 0 or o.get("kind") != "call":
        return False
    n = mir.norm(o["call"].callee)
    a_func = arg_of_type(f, "Function")
    if n.endswith("Clone>::clone"):
        return is_arg_field(f.origin(o["call"].args[0]), a_func, "name")
    if n.endswith("hint::must_use") or n.endswith("fmt::format"):
        inner = f.origin(o["call"].args[0])
        if n.endswith("fmt::format"):
            # the Arguments value: both displayed operands must be name_world_key(resolve, key) and func.name
            disp = [x for x in f.calls("Argument::new_display")]
            srcs = []
            for d in disp:
                od = f.origin(d.args[0])
                if od.get("kind") == "agg":       # the `(&a, &b)` tuple of format_args!, not projected
                    for op in od["rv"]["ops"]:
                        srcs.append(f.origin(op))
                else:                              # lib/mir.py resolves `tuple.N` to the operand itself
                    srcs.append(od)
            has_key = any(s.get("kind") == "call" and mir.norm(s["call"].callee).endswith("Resolve::name_world_key")
                          for s in srcs)
            has_name = any(is_arg_field(s, a_func, "name") for s in srcs)
            return has_key and has_name and inner.get("kind") == "call"
        return _from_name(f, inner, depth - 1)
    return False


def r1_name(rep):
    """syntax tree: `"{world_key}#{func.name}"` with an interface, `func.name` without."""
    fn = synq.find_fn(ASYNC_RS, "is_async", self_ty="AsyncFilterSet")
    rep.saw(file=ASYNC_RS)
    roles = {}
    for p in fn.node["sig"]["params"]:
        if p.get("self") or p["pat"].get("k") != "p_ident":
            continue
        ty = p["ty"].replace(" ", "")
        nm = p["pat"]["name"]
        if "Resolve" in ty:
            roles[nm] = "$resolve"
        elif "WorldKey" in ty:
            roles[nm] = "$interface"
        elif "Function" in ty:
            roles[nm] = "$func"
        elif ty == "bool":
            roles[nm] = "$is_import"
    ms = [m for m in synq.matches_in(fn.body) if render(m["scrut"], roles) == "$interface"]
    rep.floor("R17.1", "match on `interface` in is_async", len(ms), 1)
    if len(ms) != 1:
        raise AnchorMissing("is_async: match on the interface parameter")
    m = ms[0]
    some = synq.arm_for(m, "Some")
    none = synq.arm_for(m, "None")
    ok = False
    detail = ""
    if some is not None and "_" not in some.heads and some.alts[0].get("k") == "p_tuple_struct":
        el = some.alts[0]["elems"]
        ren = dict(roles)
        if len(el) == 1 and el[0].get("k") == "p_ident":
            ren[el[0]["name"]] = "$key"
        fm = [x for x in synq.fmts(some.body) if x.name == "format"]
        if len(fm) == 1:
            x = fm[0]
            args = [render(e, ren) if e is not None else "{" + str(k) + "}" for _, k, e, _ in x.hole_exprs()]
            # implicit captures render through their names
            args = [ren.get(a.strip("{}"), a) if a.startswith("{") else a for a in args]
            detail = f"format!({x.template!r}, {', '.join(args)})"
            import re as _re
            skeleton = _re.sub(r"\{[^{}]*\}", "{}", x.template or "")
            ok = skeleton == "{}#{}" and args == ["$resolve.name_world_key($key)", "$func.name"]
    rep.ob("R17.1", "is_async: with an interface the name under test is \"{name_world_key(key)}#{func.name}\"", ok,
           detail or "Some(key) arm does not build the name with one format!", fn.loc(some.node if some else None))
    nb = render(none.body, roles) if none is not None else None
    rep.ob("R17.1", "is_async: without an interface the name under test is func.name",
           nb in ("$func.name.clone()", "$func.name.to_string()", "$func.name.to_owned()"), f"None arm yields `{nb}`",
           fn.loc(none.node if none else None))


def r1_macro(rep):
    """`generate!({ async: ["a", "b"] })`: the directives reach the set in the order written."""
    c = mir.load("ws", "wit_bindgen_rust_macro", "procmacro")
    fs = [f for f in c.fns.values() if f.calls("AsyncFilterSet::push")]
    rep.floor("R17.1", "macro functions that push --async directives", len(fs), 1)
    for f in fs:
        rep.saw(f)
        who = f.npath.replace("crate::", "")
        for p in f.calls("AsyncFilterSet::push"):
            loops = [x for x in f.calls() if mir.norm(x.callee).endswith("::next")
                     and p.bb in f.reachable(x.bb) and x.bb in f.reachable(p.bb)]
            if len(loops) != 1:
                rep.ob("R17.1", f"macro {who}: the directive list is pushed from one loop", False, f"{len(loops)} loops", f.loc(p.bb))
                continue
            nx = loops[0]
            names, root = call_chain(f, nx.args[0])
            short = [n.split("::")[-1] for n in names]
            bad = [n for n in short if n in ("rev", "skip", "step_by", "take", "filter", "rposition", "sorted", "rev_iter")]
            rep.ob("R17.1", f"macro {who}: `async: [..]` directives are pushed in the order written",
                   not bad and short[:1] == ["into_iter"] and "parse_terminated" in short,
                   f"iterator chain {short}", f.loc(nx.bb))
            vnames, vroot = call_chain(f, p.args[1])
            rep.ob("R17.1", f"macro {who}: each pushed directive is the text of the current list element",
                   any(n.endswith("LitStr::value") for n in vnames) and mir.norm(nx.callee) in vnames,
                   f"value chain {[n.split('::')[-1] for n in vnames]}", f.loc(p.bb))
            o = f.origin(p.args[0])
            rep.ob("R17.1", f"macro {who}: the list starts from an empty set",
                   o.get("kind") == "call" and mir.norm(o["call"].callee).endswith("Default>::default"),
                   f"set comes from {o.get('kind')}", f.loc(p.bb))


# ================================================================================================================
# R17.2  default: the WIT's own async-ness
# ================================================================================================================
def r2_default(rep):
    c = ws("wit_bindgen_core")
    top, h, via = scan_fn(c)
    L = Loop(h, "is_async")
    a_func = arg_of_type(h, "Function")

    def kind_switches(g, a):
        return [(b, m, o) for b, m, o in discr_switches(g, ty_sub="FunctionKind") if is_arg_field(o["of"], a, "kind")]
    f = h
    sws = kind_switches(h, a_func)
    site = sws[0][0] if len(sws) == 1 else None
    if not sws:
        # the fallback table lives in a helper called with `func` after the loop
        for x in h.calls():
            g = local_callee(c, x)
            if g is None or x.bb in h.edge_region(L.sw, L.some):
                continue
            ai = [i for i, a in enumerate(x.args) if h.origin(a).get("kind") == "arg" and h.origin(a).get("n") == a_func
                  and not [p for p in h.origin(a).get("proj", []) if p.startswith(".")]]
            if ai and kind_switches(g, ai[0] + 1):
                srcs = [(b_, o_) for b_, o_ in ret_sources(h) if b_ not in h.edge_region(L.sw, L.some)]
                if all(o_.get("kind") == "call" and not o_.get("proj") and o_["call"].bb == x.bb for _, o_ in srcs) and srcs:
                    f, a_func, site = g, ai[0] + 1, x.bb
                    sws = kind_switches(g, a_func)
                    rep.saw(g)
                    break
    rep.floor("R17.2", "switch on func.kind in is_async", len(sws), 1)
    if len(sws) != 1:
        raise AnchorMissing(f"is_async: switch on func.kind: {len(sws)} found")
    b, m, o = sws[0]
    rep.ob("R17.2", "is_async: the default table is consulted only after every directive was tried (loop exhausted)",
           h.dominates(L.none, site) and site not in h.edge_region(L.sw, L.some),
           "func.kind is inspected before / inside the directive loop", h.loc(site))
    kinds = sorted(o["vars"].values())
    rep.floor("R17.2", "FunctionKind variants", len(kinds), 7)
    n_async = 0
    for v in kinds:
        tv = variant_target(m, v)
        want = 1 if v.startswith("Async") else 0
        n_async += want
        vals = []
        if tv is not None:
            reach = follow_consts(f, tv)
            for wb, s in ret_writes(f):
                if wb in reach:
                    st = f.stored(s)
                    vals.append(st.get("v") if st.get("kind") == "const" else "?")
        rep.ob("R17.2", f"is_async default: FunctionKind::{v} => {'true' if want else 'false'}",
               tv is not None and vals == [want], f"returns {vals}", f.loc(tv) if tv is not None else f.loc(b))
    rep.ob("R17.2", "FunctionKind has async variants (the table is not vacuous)", n_async >= 3, f"{n_async}", f.loc(b))


# ================================================================================================================
# R17.3  unused directives are an error, and the Rust generator reports it
# ================================================================================================================
def used_test(f, o, root_pred, idx_pred):
    """is origin `o` the bool "entry i is marked used"?  Accepted shapes: `used.contains(&i)` (set) and
    `used.get(i).copied().unwrap_or(false)` (bit vector).  Returns the outermost call or None."""
    if o.get("kind") != "call" or o.get("proj"):
        return None
    outer = o["call"]
    names, has_idx = [], False
    while o.get("kind") == "call" and len(names) < 8:
        x = o["call"]
        n = mir.norm(x.callee).split("::")[-1]
        names.append(n)
        if any(idx_pred(f.origin(a)) for a in x.args[1:]):
            has_idx = True
        if n == "unwrap_or":
            d = f.origin(x.args[1])
            if not (d.get("kind") == "const" and d.get("v") == 0):
                return None
        if not x.args:
            return None
        o = f.origin(x.args[0])
    core = [n for n in names if n not in ("deref", "as_slice", "borrow")]
    if root_pred(o) and has_idx and core in (["contains"], ["unwrap_or", "copied", "get"]):
        return outer
    return None


def closure_of(c, f, op):
    o = f.origin(op)
    if o.get("kind") == "agg" and o["rv"].get("closure"):
        return c.fns.get(o["rv"]["closure"]), o["rv"]
    return None, None


def r3_adapter(rep, c, f):
    """`self.async_.iter().enumerate().filter(unused).map(entry).find(not All)` followed by `Some => Err, None => Ok`."""
    a_self = 1
    finds = f.calls(["Iterator::find", "Iterator::find_map"])
    nx = [x for x in f.calls() if mir.norm(x.callee).endswith("::next")]
    term = finds or nx
    rep.floor("R17.3", "walks of the directive list in ensure_all_used (loop or iterator chain)", len(term), 1)
    if len(term) != 1 or not mir.norm(term[0].callee).endswith("::find"):
        raise AnchorMissing("ensure_all_used: neither a `for` loop nor one iterator chain ending in find()")
    X = term[0]
    chain = []
    o = f.origin(X.args[0])
    while o.get("kind") == "call" and len(chain) < 10:
        chain.append(o["call"])
        o = f.origin(o["call"].args[0])
    short = [mir.norm(x.callee).split("::")[-1] for x in chain]
    ok = is_arg_field(o, a_self, "async_") and set(short) <= {"map", "filter", "enumerate", "iter", "deref", "into_iter"} \
        and "enumerate" in short and "filter" in short and short.index("enumerate") > short.index("filter")
    rep.ob("R17.3", "ensure_all_used: walks self.async_ enumerated (indices agree with is_async)", ok,
           f"iterator chain {['find'] + short}", f.loc(X.bb))
    errs = [b for b, s in ret_writes(f) if f.stores_variant(s, "Err")]
    oks = [b for b, s in ret_writes(f) if f.stores_variant(s, "Ok")]
    rep.floor("R17.3", "Err(..) returns in ensure_all_used", len(errs), 1)
    rep.floor("R17.3", "Ok(()) returns in ensure_all_used", len(oks), 1)
    # filter: keeps exactly the entries that are not marked used
    for x in [x for x in chain if mir.norm(x.callee).endswith("::filter")]:
        k, rv = closure_of(c, f, x.args[1])
        if k is None:
            raise AnchorMissing("ensure_all_used: filter closure")
        rep.saw(k)
        cap_self = any(f.origin(op).get("kind") == "arg" and f.origin(op).get("n") == a_self and
                       not [p for p in f.origin(op).get("proj", []) if p.startswith(".")] for op in rv["ops"])
        tests = []
        for b, o_ in ret_sources(k):
            while o_.get("kind") == "un" and o_.get("op") == "Not":
                o_ = o_["a"]
            t = used_test(k, o_, lambda r: r.get("kind") == "arg" and r.get("n") == 1 and ".used_options" in r.get("proj", []),
                          lambda i: i.get("kind") == "arg" and i.get("n") == 2 and ".0" in i.get("proj", []))
            tests.append(t)
        rep.ob("R17.3", "ensure_all_used: asks used_options about the index of the current entry",
               cap_self and bool(tests) and all(t is not None for t in tests),
               "the filter does not test self.used_options for the entry's own index", k.loc())
        if tests and all(t is not None for t in tests):
            pat = mir.norm(tests[0].callee).split("::")[-2:]
            got = {u: run_mir(k, {}, lambda po: False, 0, "::".join(pat), u) for u in (0, 1)}
            rep.ob("R17.3", "ensure_all_used: a used entry is accepted (loop continues)", got == {0: 1, 1: 0},
                   f"used -> kept: {got}", k.loc())
    for x in [x for x in chain if mir.norm(x.callee).endswith("::map")]:
        k, rv = closure_of(c, f, x.args[1])
        srcs = ret_sources(k) if k is not None else []
        rep.ob("R17.3", "ensure_all_used: the entry examined is the one whose index was tested",
               bool(srcs) and all(o_.get("kind") == "arg" and o_.get("n") == 2 and
                                  [p for p in o_.get("proj", []) if p.startswith(".")] == [".1"] for _, o_ in srcs),
               "map() does not project the enumerated pair to its entry", k.loc() if k is not None else f.loc(x.bb))
    k, rv = closure_of(c, f, X.args[1])
    if k is None:
        raise AnchorMissing("ensure_all_used: find closure")
    rep.saw(k)
    sw = [(b, m, o_) for b, m, o_ in discr_switches(k, ty_sub="AsyncFilter")
          if o_["of"].get("kind") == "arg" and o_["of"].get("n") == 2 and ".filter" in o_["of"].get("proj", [])]
    if len(sw) != 1:
        raise AnchorMissing("ensure_all_used: the find closure's test of the entry's filter")
    res = [(b, m, o_) for b, m, o_ in discr_switches(f) if o_["of"].get("kind") == "call" and o_["of"]["call"].bb == X.bb
           and not o_["of"].get("proj")]
    if len(res) != 1:
        raise AnchorMissing("ensure_all_used: switch on the result of find()")
    rb, rm, _ = res[0]
    some_t, none_t = variant_target(rm, "Some"), variant_target(rm, "None")
    rets = f.returns()
    some_err = some_t is not None and f.all_paths_pass(some_t, rets, errs) and not (f.reachable(some_t) & set(oks))
    for dv, v in sorted(sw[0][2]["vars"].items(), key=lambda kv: kv[1]):
        if v == "All":
            continue
        got = run_mir(k, {}, lambda po: po.get("kind") == "arg" and po.get("n") == 2 and ".filter" in po.get("proj", []),
                      dv, CMP, 0)
        rep.ob("R17.3", f"ensure_all_used: an unused {v} directive is an error", got == 1 and some_err,
               f"find() selects {v}: {got}; a found entry always yields Err: {some_err}", k.loc())
    rep.ob("R17.3", "ensure_all_used: Ok(()) only after the whole list was walked",
           none_t is not None and bool(oks) and all(f.dominates(none_t, b) for b in oks),
           "Ok is returned although find() produced an unused directive", f.loc(oks[0]) if oks else f.loc())


def r3_ensure(rep):
    c = ws("wit_bindgen_core")
    f = c.method("AsyncFilterSet", "ensure_all_used")
    rep.saw(f)
    a_self = 1
    try:
        L = Loop(f, "ensure_all_used")
    except AnchorMissing:
        return r3_adapter(rep, c, f)
    N = L.head
    names, root = L.chain()
    rep.ob("R17.3", "ensure_all_used: walks self.async_ enumerated (indices agree with is_async)",
           is_arg_field(root, a_self, "async_") and "enumerate" in [n.split("::")[-1] for n in names]
           and not [n for n in names if n.split("::")[-1] in ("rev", "skip", "take", "filter", "step_by")],
           f"iterator chain {[n.split('::')[-1] for n in names]}", f.loc(N))
    def is_used_test(o_):
        return used_test(f, o_, lambda r: is_arg_field(r, a_self, "used_options"), lambda i: L.elem(i, ".0")) is not None
    csw = bool_switches_on(f, is_used_test)
    rep.floor("R17.3", "used_options.contains sites", len(csw), 1)
    touching = [x for x in f.calls() if any(is_arg_field(f.origin(a), a_self, "used_options") for a in x.args)
                and not mir.norm(x.callee).endswith(("Deref>::deref",))]
    rep.ob("R17.3", "ensure_all_used: asks used_options about the index of the current entry",
           len(csw) == 1 and len(touching) <= 1,
           f"{len(csw)} test(s) of the current index among {len(touching)} use(s) of used_options", f.loc(touching[0].bb) if touching else f.loc())
    if len(csw) != 1:
        raise AnchorMissing("ensure_all_used: switch on `entry i is used`")
    cb, cft, ctt = csw[0]
    errs = [b for b, s in ret_writes(f) if f.stores_variant(s, "Err")]
    oks = [b for b, s in ret_writes(f) if f.stores_variant(s, "Ok")]
    rep.floor("R17.3", "Err(..) returns in ensure_all_used", len(errs), 1)
    rep.floor("R17.3", "Ok(()) returns in ensure_all_used", len(oks), 1)
    rets = set(f.returns())
    used_reach = follow_consts(f, ctt, stop=[N]) if ctt is not None else set()
    rep.ob("R17.3", "ensure_all_used: a used entry is accepted (loop continues)",
           ctt is not None and N in used_reach and not (used_reach & set(errs)) and not (used_reach & rets),
           "a used entry can produce the error or end the walk", f.loc(cb))
    swb, m, o = filter_switch(f, L, "ensure_all_used")
    rep.ob("R17.3", "ensure_all_used: the filter test is made on unused entries only",
           cft is not None and swb in f.reachable(cft, avoid=[N]) and f.dominates(cb, swb), "", f.loc(swb))
    for v in sorted(o["vars"].values()):
        if v == "All":
            continue
        tv = variant_target(m, v)
        r2 = follow_consts(f, tv, stop=[N] + errs) if tv is not None else set()
        rep.ob("R17.3", f"ensure_all_used: an unused {v} directive is an error",
               tv is not None and N not in r2 and not (r2 & rets) and bool(r2 & set(errs)),
               f"an unused {v}(..) entry lets the walk continue or return without Err", f.loc(tv) if tv is not None else f.loc(swb))
    rep.ob("R17.3", "ensure_all_used: Ok(()) only after the whole list was walked",
           all(f.dominates(L.none, b) for b in oks) and bool(oks), "Ok is returned before every entry was examined",
           f.loc(oks[0]) if oks else f.loc())


def r3_finish(rep):
    c = ws("wit_bindgen_rust")
    f = c.method("RustWasm", "finish", trait="WorldGenerator")
    rep.saw(f)
    calls = f.calls(ENSURE)
    rep.floor("R17.3", "ensure_all_used calls in RustWasm::finish", len(calls), 1)
    if len(calls) != 1:
        raise AnchorMissing(f"RustWasm::finish: {len(calls)} calls of ensure_all_used")
    E = calls[0]
    o = f.origin(E.args[0])
    rep.ob("R17.3", "RustWasm::finish: checks the set the generator consulted (self.opts.async_)",
           is_arg_field(o, 1, "opts", "async_"), f"receiver is {o.get('place', o.get('kind'))}", f.loc(E.bb))
    # the result is branched on: Ok(()) of finish lies on the Continue edge only
    br = [x for x in f.calls("Try>::branch") if _origin_call_bb(f.origin(x.args[0])) == E.bb]
    sw = [(b, m, o_) for b, m, o_ in discr_switches(f, ty_sub="ControlFlow")
          if br and o_["of"].get("kind") == "call" and o_["of"]["call"].bb == br[0].bb]
    oks = [b for b, s in ret_writes(f) if f.stores_variant(s, "Ok")]
    if len(br) == 1 and len(sw) == 1:
        rep.floor("R17.3", "Ok(()) returns in RustWasm::finish", len(oks), 1)
        b, m, _ = sw[0]
        cont = variant_target(m, "Continue")
        brk = variant_target(m, "Break")
        creg = f.edge_region(b, cont) if cont is not None else set()
        rep.ob("R17.3", "RustWasm::finish: Ok is returned only when ensure_all_used succeeded",
               bool(oks) and all(x in creg for x in oks),
               "an Ok(()) return of finish does not depend on the result of ensure_all_used", f.loc(E.bb))
        rep.ob("R17.3", "RustWasm::finish: the error of ensure_all_used is returned to the caller",
               brk is not None and not (f.reachable(brk) & set(oks)) and
               bool([x for x in f.calls("FromResidual>::from_residual") if x.bb in f.reachable(brk) and x.dest["l"] == 0]),
               "the Break edge does not return the residual", f.loc(b))
    else:
        # no `?`: accept a direct return of the call's result only
        after = f.reachable(E.bb) - {E.bb}
        direct = E.dest["l"] == 0 and not E.dest.get("p") and not [b for b, s in ret_writes(f) if b in after] and \
            not [x for x in f.calls() if x.bb in after and x.dest["l"] == 0]
        rep.ob("R17.3", "RustWasm::finish: Ok is returned only when ensure_all_used succeeded",
               direct and not oks, "the result of ensure_all_used is neither `?`-propagated nor returned", f.loc(E.bb))
    # the same set is the one is_async marks: the forwarder uses self.opts.async_ in place (no clone)
    g = c.method("RustWasm", "is_async")
    rep.saw(g)
    fw = g.calls(IS_ASYNC)
    ok = len(fw) == 1 and is_arg_field(g.origin(fw[0].args[0]), 1, "opts", "async_")
    rep.ob("R17.3", "RustWasm::is_async marks usage in self.opts.async_ itself (the set finish checks)", ok,
           "the forwarder asks a copy / another set", g.loc())
    clones = [(fn_, x) for fn_ in c.fns.values() for x in fn_.calls("Clone>::clone")
              if x.arg_types and "AsyncFilterSet" in x.arg_types[0] and not fn_.npath.endswith("Clone>::clone")]
    rep.ob("R17.3", "wit_bindgen_rust never clones the AsyncFilterSet outside derive(Clone) (usage marks would be lost)",
           not clones, f"{len(clones)} clone site(s)", clones[0][0].loc(clones[0][1].bb) if clones else "")


# ================================================================================================================
# R17.4  every call site passes the direction of its enclosing function
# ================================================================================================================
def _suffix(npath, table_keys):
    for k in table_keys:
        if mir.suffix_match(npath, k) or npath.endswith("::" + k):
            return k
    return None


def r4_sites(rep):
    nconst = 0
    nfwd = 0
    for crate in BACKENDS:
        c = ws(crate)
        keys = [k for (cr, k) in SITE_DIRECTION if cr == crate]
        fkeys = [k for (cr, k) in FORWARDERS if cr == crate]
        for f in c.fns.values():
            sites = f.calls(IS_ASYNC)
            # callers of a forwarder are call sites of is_async too
            for fk in fkeys:
                sites += [x for x in f.calls(fk)]
            if not sites:
                continue
            rep.saw(f)
            short = crate.replace("wit_bindgen_", "")
            me = _suffix(f.npath, keys)
            fwd = _suffix(f.npath, fkeys)
            for x in sites:
                o = f.origin(x.args[-1])
                inst = f"{short}::{(me or fwd or f.npath.replace('crate::', ''))}"
                if fwd is not None and x.matches(IS_ASYNC):
                    nfwd += 1
                    bools = [i for i in range(1, f.argc + 1) if f.locals[i] == "bool"]
                    rep.ob("R17.4", f"{inst}: forwards its own is_import parameter unchanged",
                           o.get("kind") == "arg" and not o.get("proj") and bools == [o.get("n")],
                           f"passes {o.get('kind')} {o.get('place', o.get('v', ''))}", f.loc(x.bb))
                    continue
                if me is None and o.get("kind") == "const" and f.npath in answer_helpers(crate):
                    # a private helper that fixes the direction: judged at each of its callers
                    callers = [(h, y) for h in c.fns.values() for y in h.calls() if mir.norm(y.callee) == f.npath]
                    hkeys = [_suffix(h.npath, keys) for h, _ in callers]
                    if callers and all(hk is not None for hk in hkeys):
                        ki = [i for i, t in enumerate(x.arg_types) if "WorldKey" in t]
                        oi = f.origin(x.args[ki[0]]) if len(ki) == 1 else {}
                        if oi.get("kind") == "call" and mir.norm(oi["call"].callee).endswith("Option::map") and oi["call"].args:
                            oi = f.origin(oi["call"].args[0])
                        for (h, y), hk in zip(callers, hkeys):
                            want = SITE_DIRECTION[(crate, hk)]
                            nconst += 1
                            rep.saw(h)
                            pi = [h.origin(a) for a, t in zip(y.args, y.arg_types) if "WorldKey" in t]
                            rep.ob("R17.4", f"{short}::{hk}: asks about the interface it was given (a parameter, not a constant)",
                                   oi.get("kind") == "arg" and bool(pi) and all(q.get("kind") == "arg" for q in pi),
                                   f"interface argument comes from {oi.get('kind')} / {[q.get('kind') for q in pi]}", h.loc(y.bb))
                            rep.ob("R17.4", f"{short}::{hk}: is_import is the constant {'true' if want else 'false'}",
                                   o.get("v") == int(want),
                                   f"asks through {f.npath.split('::')[-1]}, which passes const {o.get('v')}", h.loc(y.bb))
                        continue
                if me is None:
                    rep.ob("R17.4", f"{inst}: call site of is_async in a function of known direction", False,
                           "unclassified call site: add it to SITE_DIRECTION after reading which direction it serves",
                           f.loc(x.bb))
                    continue
                want = SITE_DIRECTION[(crate, me)]
                nconst += 1
                ki = [i for i, t in enumerate(x.arg_types) if "WorldKey" in t]
                oi = f.origin(x.args[ki[0]]) if len(ki) == 1 else {}
                if oi.get("kind") == "call" and mir.norm(oi["call"].callee).endswith("Option::map") and oi["call"].args:
                    oi = f.origin(oi["call"].args[0])       # `interface.map(|p| p.1)`
                rep.ob("R17.4", f"{inst}: asks about the interface it was given (a parameter, not a constant)",
                       oi.get("kind") == "arg", f"interface argument comes from {oi.get('kind')}", f.loc(x.bb))
                rep.ob("R17.4", f"{inst}: is_import is the constant {'true' if want else 'false'}",
                       o.get("kind") == "const" and o.get("v") == int(want),
                       f"passes {o.get('kind')} {o.get('v', o.get('place', ''))}", f.loc(x.bb))
    rep.floor("R17.4", "constant-direction call sites of is_async", nconst, 9)
    rep.floor("R17.4", "forwarders of is_async", nfwd, 1)


def r4_wrappers(rep):
    """the functions of SITE_DIRECTION are only reached from entry points of the same direction."""
    n = 0
    for crate in BACKENDS:
        c = ws(crate)
        table = WRAPPER_DIRECTION[crate]
        short = crate.replace("wit_bindgen_", "")
        for f in c.fns.values():
            for callee, want in table.items():
                for x in f.calls(callee):
                    me = _suffix(f.npath, list(table)) or _suffix(f.npath, list(CALLER_DIRECTION))
                    mydir = table.get(me, CALLER_DIRECTION.get(me)) if me else None
                    n += 1
                    rep.ob("R17.4", f"{short}: {callee} is called from {f.npath.replace('crate::', '')} of the same direction",
                           mydir is not None and mydir == want,
                           "caller has no known direction" if mydir is None else "an import-side function is used for "
                           "exports (or vice versa)", f.loc(x.bb))
    rep.floor("R17.4", "calls of direction-specific generator functions", n, 23)



# ================================================================================================================
# R17.5  the ABI follows the answer
# ================================================================================================================
def abi_aggregates(f):
    """(bb, variant) for every construction of an AbiVariant value in f."""
    return [(b, rv["var"]) for b, i, rv, s in f.aggregates("AbiVariant")]


def str_consts(f):
    """(bb, text) for every string constant operand in statements and call arguments of f."""
    out = []

    def ops_of(rv):
        k = rv["k"]
        if k == "use":
            return [rv["o"]]
        if k == "agg":
            return rv["ops"]
        if k == "cast":
            return [rv["o"]]
        return []
    for b in sorted(f.live):
        for s in f.stmts(b):
            if s["k"] == "=":
                for o in ops_of(s["rv"]):
                    if "c" in o and "s" in o:
                        out.append((b, o["s"]))
        t = f.term(b)
        if t["k"] == "call":
            for o in t["args"]:
                if "c" in o and "s" in o:
                    out.append((b, o["s"]))
    return out


def answer_switches(f, pred):
    sw = bool_switches_on(f, pred)
    return sw


_HELPERS = {}


def answer_helpers(crate):
    """same-crate bool functions every return value of which is the answer of is_async (forwarders such as
    RustWasm::is_async or a private `is_export_async`): {npath: function}."""
    if crate not in _HELPERS:
        c = ws(crate)
        out = {}
        changed = True
        while changed:
            changed = False
            for g in c.fns.values():
                if g.npath in out or g.locals[0] != "bool":
                    continue
                srcs = ret_sources(g)
                if srcs and all(o.get("kind") == "call" and not o.get("proj") and
                                (o["call"].matches(IS_ASYNC) or mir.norm(o["call"].callee) in out) for _, o in srcs):
                    out[g.npath] = g
                    changed = True
        _HELPERS[crate] = out
    return _HELPERS[crate]


def is_answer_call(o):
    if o.get("kind") != "call" or o.get("proj"):
        return False
    if o["call"].matches(IS_ASYNC):
        return True
    n = mir.norm(o["call"].callee)
    return any(n in answer_helpers(cr) for cr in BACKENDS if cr in _HELPERS) or \
        any(n in answer_helpers(cr) for cr in BACKENDS)


def region_check(rep, f, inst, sws, want_true, want_false, what):
    """every AbiVariant in `want_true` is constructed only on the true edge of an answer switch, `want_false` only on
    the false edge; each at least once."""
    aggs = abi_aggregates(f)
    tr = set().union(*[true_region(f, s) for s in sws]) if sws else set()
    fr = set().union(*[false_region(f, s) for s in sws]) if sws else set()
    for v in want_true:
        bs = [b for b, var in aggs if var == v]
        rep.ob("R17.5", f"{inst}: AbiVariant::{v} is selected exactly when {what} is true",
               bool(bs) and all(b in tr and b not in fr for b in bs),
               f"{len(bs)} construction(s), {len([b for b in bs if b in tr])} on the true edge", f.loc(bs[0]) if bs else f.loc())
    for v in want_false:
        bs = [b for b, var in aggs if var == v and (b in tr or b in fr)]
        rep.ob("R17.5", f"{inst}: AbiVariant::{v} is selected exactly when {what} is false",
               bool(bs) and all(b in fr and b not in tr for b in bs),
               f"{len(bs)} construction(s) under the answer, {len([b for b in bs if b in fr])} on the false edge",
               f.loc(bs[0]) if bs else f.loc())
    stray = [(b, var) for b, var in aggs if var in ASYNC_VARIANTS and var not in want_true]
    rep.ob("R17.5", f"{inst}: no other asynchronous AbiVariant is constructed", not stray, f"{[v for _, v in stray]}",
           f.loc(stray[0][0]) if stray else f.loc())
    return tr, fr


def abi_call_flag(rep, f, inst, tr, fr, pred):
    """the `async_` flag handed to abi::call is the answer itself, or a constant agreeing with the edge it is on."""
    for x in f.calls("abi::call"):
        if not x.arg_types or x.arg_types[-1] != "bool":
            continue
        o = f.origin(x.args[-1])
        ok = pred(o) or (o.get("kind") == "const" and ((o.get("v") == 0 and x.bb in fr and x.bb not in tr) or
                                                        (o.get("v") == 1 and x.bb in tr and x.bb not in fr)))
        rep.ob("R17.5", f"{inst}: abi::call is told the same async-ness as the selected variant", ok,
               f"async flag is {o.get('kind')} {o.get('v', '')}", f.loc(x.bb))


TUPLE_FNS = [
    # crate, self type, fn, source file, (async variant, async prefix), (sync variant, sync prefix)
    ("wit_bindgen_c", "InterfaceGenerator", "import", C_LIB, ("GuestImportAsync", "[async-lower]"), ("GuestImport", "")),
    ("wit_bindgen_c", "InterfaceGenerator", "export", C_LIB, ("GuestExportAsync", "[async-lift]"), ("GuestExport", "")),
    ("wit_bindgen_go", "Go", "import", GO_LIB, ("GuestImportAsync", "[async-lower]"), ("GuestImport", "")),
    ("wit_bindgen_go", "Go", "export", GO_LIB, ("GuestExportAsync", "[async-lift]"), ("GuestExport", "")),
]


def block_tail(b):
    """value expression of a block (its last statement when that is an expression without `;`)."""
    if b is None:
        return None
    if b.get("k") != "block":
        return b
    st = b.get("stmts") or []
    if st and st[-1].get("k") == "expr_stmt" and not st[-1].get("semi"):
        return st[-1]["e"]
    return None


def cond_name(cond):
    """(`name`, negated) of an `if` condition that is a plain variable or its negation."""
    neg = False
    while cond.get("k") == "unary" and cond.get("op") == "!":
        cond = cond["e"]
        neg = not neg
    if cond.get("k") == "path" and "::" not in cond["path"]:
        return cond["path"], neg
    return None, neg


def bound_from_call(fn, name, method):
    """is `name` introduced by exactly one `let name = <expr containing .method(..)>` in fn?"""
    ds = [(i, st) for n, i, st in synq.bindings(fn.body) if n == name]
    return len(ds) == 1 and ds[0][0] is not None and bool(synq.method_calls(ds[0][0], method))


def alias_root(fn, name, depth=6):
    """follow `let name = other_name;` renamings back to the first binding."""
    while depth > 0 and name is not None:
        ds = [i for n, i, st in synq.bindings(fn.body) if n == name and st["pat"].get("k") == "p_ident"]
        if len(ds) == 1 and ds[0] is not None and ds[0].get("k") == "path" and "::" not in ds[0]["path"]:
            name = ds[0]["path"]
            depth -= 1
            continue
        break
    return name


def variant_tuple(e):
    """('GuestImportAsync', '[async-lower]') for a `(AbiVariant::X, "lit")` tuple expression."""
    if e is None or e.get("k") != "tuple" or len(e["elems"]) != 2:
        return None
    a, b = e["elems"]
    if a.get("k") == "path" and a["path"].split("::")[-2:-1] == ["AbiVariant"] and b.get("k") == "str":
        return (a["path"].split("::")[-1], b["v"])
    return None


def r5_tuples(rep):
    nt = 0
    for crate, sty, name, rel, apair, spair in TUPLE_FNS:
        short = crate.replace("wit_bindgen_", "")
        inst = f"{short}::{sty}::{name}"
        fn = synq.find_fn(rel, name, self_ty=sty)
        rep.saw(file=rel)
        sel = []
        for n in synq.walk(fn.body):
            if n.get("k") == "if" and n.get("else") is not None:
                t, e = variant_tuple(block_tail(n["then"])), variant_tuple(block_tail(n["else"]))
                if t is not None or e is not None:
                    sel.append((n, t, e))
        nt += len(sel)
        rep.ob("R17.5", f"{inst}: one `if` selects the (AbiVariant, prefix) pair", len(sel) == 1, f"{len(sel)} found", fn.loc())
        if len(sel) != 1:
            continue
        n, t, e = sel[0]
        cn, neg = cond_name(n["cond"])
        if neg:
            t, e = e, t
        rep.ob("R17.5", f"{inst}: the pair is selected by the answer of is_async",
               cn is not None and bound_from_call(fn, cn, "is_async"),
               f"condition `{render(n['cond'])}` is not a variable bound from `.is_async(..)`", fn.loc(n))
        rep.ob("R17.5", f"{inst}: async => (AbiVariant::{apair[0]}, \"{apair[1]}\")", t == apair, f"selects {t}", fn.loc(n))
        rep.ob("R17.5", f"{inst}: sync => (AbiVariant::{spair[0]}, \"\")", e == spair, f"selects {e}", fn.loc(n))
        # what the two components are used for
        lets = []
        for nm, init, st in synq.bindings(fn.body):
            if init is n and st["pat"].get("k") == "p_tuple" and not any(st is x for x in lets):
                lets.append(st)
        vname = pname = None
        if len(lets) == 1 and len(lets[0]["pat"]["elems"]) == 2 and all(x.get("k") == "p_ident" for x in lets[0]["pat"]["elems"]):
            vname, pname = [x["name"] for x in lets[0]["pat"]["elems"]]
        sigs = [alias_root(fn, render(m["args"][0])) for m in synq.method_calls(fn.body, "wasm_signature")]
        rep.ob("R17.5", f"{inst}: the wasm signature is computed for the selected variant",
               vname is not None and bool(sigs) and all(s == vname for s in sigs), f"wasm_signature({sigs})", fn.loc(n))
        calls = [alias_root(fn, render(c["args"][1])) for c in synq.fn_calls(fn.body, "call")
                 if c["func"]["path"].endswith("abi::call") and len(c["args"]) >= 2]
        rep.ob("R17.5", f"{inst}: abi::call lifts / lowers with the selected variant",
               all(s == vname for s in calls), f"abi::call(.., {calls}, ..)", fn.loc(n), nontrivial=bool(calls))
        uses = []
        for x in synq.fmts(fn.body):
            for kind, key, ex, off in x.hole_exprs():
                if (kind == "name" and ex is None and alias_root(fn, key) == pname) or \
                        (ex is not None and ex.get("k") == "path" and alias_root(fn, ex["path"]) == pname):
                    end = x.template.index("}", off) + 1
                    uses.append((x.template[max(0, off - 10):off], x.template[end:end + 1]))
        rep.ob("R17.5", f"{inst}: the selected prefix is printed immediately before the function's wasm name",
               pname is not None and bool(uses) and all(after == "{" for _, after in uses)
               and any(not before.endswith("]") for before, _ in uses),
               f"uses of the prefix: {uses}", fn.loc(n))
        # MIR: polarity on the call result itself
        f = ws(crate).method(sty, name)
        rep.saw(f)
        sws = answer_switches(f, is_answer_call)
        rep.floor("R17.5", f"{inst}: switches on the answer of is_async", len(sws), 1)
        tr, fr = region_check(rep, f, inst, sws, [apair[0]], [spair[0]], "is_async(..)")
        abi_call_flag(rep, f, inst, tr, fr, is_answer_call)
        strs = str_consts(f)
        ab = [b for b, s in strs if s == apair[1]]
        rep.ob("R17.5", f"{inst}: \"{apair[1]}\" is used only on the true edge of the answer",
               bool(ab) and all(b in tr and b not in fr for b in ab), f"{len(ab)} use(s)", f.loc(ab[0]) if ab else f.loc())
        other = "[async-lift]" if apair[1] == "[async-lower]" else "[async-lower]"
        ob_ = [b for b, s in strs if s == other]
        rep.ob("R17.5", f"{inst}: the other direction's prefix \"{other}\" is not used", not ob_, f"{len(ob_)} use(s)",
               f.loc(ob_[0]) if ob_ else f.loc())
    rep.floor("R17.5", "(AbiVariant, prefix) selections in C and Go", nt, 4)


def bool_param(fn):
    c = [p["pat"]["name"] for p in fn.node["sig"]["params"] if not p.get("self") and p["pat"].get("k") == "p_ident"
         and p["ty"].replace(" ", "") == "bool"]
    if len(c) != 1:
        raise AnchorMissing(f"{fn.name}: expected one bool parameter, found {c}")
    return c[0]


def ifs_selecting(fn, pred):
    """`if` nodes with an else whose then / else value satisfies pred on at least one side: (node, then, else)."""
    out = []
    for n in synq.walk(fn.body):
        if n.get("k") == "if" and n.get("else") is not None:
            t, e = block_tail(n["then"]), block_tail(n["else"])
            if (t is not None and pred(t)) or (e is not None and pred(e)):
                out.append((n, t, e))
    return out


def r5_rust(rep):
    c = ws("wit_bindgen_rust")
    rep.saw(file=RUST_IF)
    ANS = sorted({"is_async"} | {n.split("::")[-1] for n in answer_helpers("wit_bindgen_rust")})
    # --- imports: generate_guest_import dispatches on the answer
    fn = synq.find_fn(RUST_IF, "generate_guest_import", self_ty="InterfaceGenerator")
    A, S = "generate_guest_import_body_async", "generate_guest_import_body_sync"
    sel = [n for n in synq.walk(fn.body) if n.get("k") == "if" and n.get("else") is not None and
           (synq.method_calls(n["then"], [A, S]) or synq.method_calls(n["else"], [A, S]))]
    rep.floor("R17.5", "rust: body_async / body_sync dispatch in generate_guest_import", len(sel), 1)
    for n in sel:
        cn, neg = cond_name(n["cond"])
        t, e = (n["else"], n["then"]) if neg else (n["then"], n["else"])
        rep.ob("R17.5", "rust::generate_guest_import: async answer => body_async, sync answer => body_sync",
               cn is not None and bound_from_call(fn, cn, ANS) and
               [m["method"] for m in synq.method_calls(t, [A, S])] == [A] and
               [m["method"] for m in synq.method_calls(e, [A, S])] == [S],
               f"if {render(n['cond'])}: then calls {[m['method'] for m in synq.method_calls(n['then'], [A, S])]}, else "
               f"{[m['method'] for m in synq.method_calls(n['else'], [A, S])]}", fn.loc(n))
    f = c.method("InterfaceGenerator", "generate_guest_import")
    rep.saw(f)
    sws = answer_switches(f, is_answer_call)
    tr = set().union(*[true_region(f, s) for s in sws]) if sws else set()
    fr = set().union(*[false_region(f, s) for s in sws]) if sws else set()
    ca, cs = f.call_blocks("InterfaceGenerator::" + A), f.call_blocks("InterfaceGenerator::" + S)
    rep.ob("R17.5", "rust::generate_guest_import (MIR): body_async only on the true edge of the answer, body_sync only on the false edge",
           bool(ca) and bool(cs) and all(b in tr and b not in fr for b in ca) and all(b in fr and b not in tr for b in cs),
           f"{len(ca)} async / {len(cs)} sync call(s)", f.loc(ca[0]) if ca else f.loc())
    # the two bodies: variants and prefixes
    fa = synq.find_fn(RUST_IF, A, self_ty="InterfaceGenerator")
    fs = synq.find_fn(RUST_IF, S, self_ty="InterfaceGenerator")
    va = sorted({p.split("::")[-1] for p in (n_["path"] for n_ in synq.paths(fa.body)) if "AbiVariant::" in p})
    vs = sorted({p.split("::")[-1] for p in (n_["path"] for n_ in synq.paths(fs.body)) if "AbiVariant::" in p})
    rep.ob("R17.5", "rust::generate_guest_import_body_async uses AbiVariant::GuestImportAsync only", va == ["GuestImportAsync"],
           f"{va}", fa.loc())
    rep.ob("R17.5", "rust::generate_guest_import_body_sync uses AbiVariant::GuestImport only", vs == ["GuestImport"], f"{vs}", fs.loc())
    pa = [x for x in synq.fmts(fa.body) if x.template and x.template.startswith("[async-")]
    ok = False
    detail = [x.template for x in pa]
    if len(pa) == 1:
        x = pa[0]
        hs = x.hole_exprs()
        if len(hs) == 1 and x.template == "[async-lower]" + x.template[len("[async-lower]"):] and \
                x.template[len("[async-lower]"):].startswith("{") and x.template.endswith("}"):
            kind, key, ex, off = hs[0]
            src = ex
            if ex is None:
                ds = [i for n_, i, st in synq.bindings(fa.body) if n_ == key]
                src = ds[0] if len(ds) == 1 else None
            role = {p_: "$func" for p_ in [q["pat"]["name"] for q in fa.node["sig"]["params"] if not q.get("self")
                                            and q["pat"].get("k") == "p_ident" and "Function" in q["ty"]]}
            ok = src is not None and render(src, role) in ("&$func.name", "$func.name")
            # ... and is what declare_import receives as the import name
            di = synq.fn_calls(fa.body, "declare_import")
            ok = ok and len(di) == 1 and synq.line(x.node) >= synq.line(di[0]["args"][1]) and \
                any(n_ is x.node for n_ in synq.walk(di[0]["args"][1]))
    rep.ob("R17.5", "rust::generate_guest_import_body_async imports \"[async-lower]{func.name}\"", ok, f"{detail}", fa.loc())
    ps = [x.template for x in synq.fmts(fs.body) if x.template and "[async-" in x.template] + \
         [s_["v"] for s_ in synq.strings(fs.body) if "[async-" in s_["v"]]
    rep.ob("R17.5", "rust::generate_guest_import_body_sync never prints an async prefix", not ps, f"{ps}", fs.loc())

    # --- exports: the bool parameter selects the variant / the name
    for nm in ("generate_guest_export", "print_export_sig"):
        g = synq.find_fn(RUST_IF, nm, self_ty="InterfaceGenerator")
        bp = bool_param(g)
        sel = ifs_selecting(g, lambda e: e.get("k") == "path" and "AbiVariant::" in e["path"])
        rep.ob("R17.5", f"rust::{nm}: one `if` selects the export AbiVariant", len(sel) == 1, f"{len(sel)}", g.loc())
        for n, t, e in sel:
            cn, neg = cond_name(n["cond"])
            if neg:
                t, e = e, t
            rep.ob("R17.5", f"rust::{nm}: async_ => GuestExportAsync, otherwise GuestExport",
                   cn == bp and render(t).endswith("AbiVariant::GuestExportAsync") and render(e).endswith("AbiVariant::GuestExport"),
                   f"if {render(n['cond'])} {{ {render(t)} }} else {{ {render(e)} }}", g.loc(n))
            lets = [nm_ for nm_, init, st in synq.bindings(g.body) if init is n]
            used = [render(m["args"][0]) for m in synq.method_calls(g.body, "wasm_signature")] + \
                   [render(c_["args"][1]) for c_ in synq.fn_calls(g.body, "call") if c_["func"]["path"].endswith("abi::call")]
            rep.ob("R17.5", f"rust::{nm}: the selected variant is the one used", len(lets) == 1 and bool(used) and
                   all(u == lets[0] for u in used), f"{used}", g.loc(n))
        mf = c.method("InterfaceGenerator", nm)
        rep.saw(mf)
        bi = [i for i in range(1, mf.argc + 1) if mf.locals[i] == "bool"]
        sws = answer_switches(mf, lambda o: o.get("kind") == "arg" and [o.get("n")] == bi and not o.get("proj"))
        rep.floor("R17.5", f"rust::{nm}: switches on the async_ parameter", len(sws), 1)
        tr_, fr_ = region_check(rep, mf, f"rust::{nm} (MIR)", sws, ["GuestExportAsync"], ["GuestExport"], "async_")
        abi_call_flag(rep, mf, f"rust::{nm} (MIR)", tr_, fr_,
                      lambda o, bi=bi: o.get("kind") == "arg" and [o.get("n")] == bi and not o.get("proj"))
    g = synq.find_fn(RUST_IF, "generate_raw_cabi_export", self_ty="InterfaceGenerator")
    bp = bool_param(g)

    def lift_fmt(e):
        return [x for x in synq.fmts(e) if x.template and x.template.startswith("[async-")]
    sel = ifs_selecting(g, lambda e: bool(lift_fmt(e)))
    rep.ob("R17.5", "rust::generate_raw_cabi_export: one `if` selects the export name", len(sel) == 1, f"{len(sel)}", g.loc())
    for n, t, e in sel:
        cn, neg = cond_name(n["cond"])
        if neg:
            t, e = e, t
        tf = lift_fmt(t) if t is not None else []
        base = None
        if len(tf) == 1 and len(tf[0].hole_exprs()) == 1:
            kind, key, ex, off = tf[0].hole_exprs()[0]
            base = key if ex is None else render(ex)
        rep.ob("R17.5", "rust::generate_raw_cabi_export: async_ => \"[async-lift]{export_name}\", otherwise the plain export name",
               cn == bp and len(tf) == 1 and base is not None and tf[0].template[:13] == "[async-lift]{"
               and tf[0].template.endswith("}") and tf[0].template.count("{") == 1
               and e is not None and not lift_fmt(e) and render(e) in (f"{base}.to_string()", base, f"{base}.clone()", f"{base}.to_owned()", f"{base}.into()"),
               f"if {render(n['cond'])} {{ {[x.template for x in tf]} }} else {{ {render(e)} }}", g.loc(n))
        lets = [nm_ for nm_, init, st in synq.bindings(g.body) if init is n]
        heads = [x for x in synq.fmts(g.body) if x.template and "export_name = " in x.template]
        ok = len(lets) == 1 and bool(heads)
        def hole_names(x, depth=4):
            out = set()
            for kind, key, ex, off in x.hole_exprs():
                nm_ = key if (kind == "name" and ex is None) else (ex["path"] if ex is not None and ex.get("k") == "path" else None)
                if nm_ is None:
                    continue
                out.add(nm_)
                inits = [i for n_, i, st in synq.bindings(g.body) if n_ == nm_ and i is not None]
                if depth > 0 and len(inits) == 1:       # a local built with format!: look through it
                    for y in synq.fmts(inits[0]):
                        if y.node is inits[0] or (inits[0].get("k") == "ref" and y.node is inits[0].get("e")):
                            out |= hole_names(y, depth - 1)
            return out
        for x in heads:
            ok = ok and lets[0] in hole_names(x)
        rep.ob("R17.5", "rust::generate_raw_cabi_export: every #[export_name] attribute prints the selected name", ok,
               f"{[x.template.strip()[:60] for x in heads]}", g.loc())
    # --- the answer reaches those parameters (generate_exports)
    ge = c.method("InterfaceGenerator", "generate_exports")
    rep.saw(ge)
    x1 = ge.calls("InterfaceGenerator::generate_guest_export")
    rep.floor("R17.5", "rust: generate_guest_export call sites", len(x1), 1)
    for x in x1:
        idx = [i for i, t_ in enumerate(x.arg_types) if t_ == "bool"]
        o = ge.origin(x.args[idx[0]]) if len(idx) == 1 else {}
        rep.ob("R17.5", "rust::generate_exports: generate_guest_export receives the answer of is_async", is_answer_call(o),
               f"async_ argument comes from {o.get('kind')}", ge.loc(x.bb))
    x2 = ge.calls("InterfaceGenerator::generate_raw_cabi_export")
    rep.floor("R17.5", "rust: generate_raw_cabi_export call sites", len(x2), 1)
    for x in x2:
        idx = [i for i, t_ in enumerate(x.arg_types) if t_ == "bool"]
        o = ge.origin(x.args[idx[0]]) if len(idx) == 1 else {}
        ok = False
        detail = f"async_ argument comes from {o.get('kind')}"
        if o.get("kind") == "call" and mir.norm(o["call"].callee).endswith("Iterator>::next"):
            pr = [p for p in o.get("proj", []) if p not in ("&", "*")]
            names, root = call_chain(ge, o["call"].args[0])
            if len(pr) == 3 and pr[:2] == ["as Some", ".0"] and root.get("kind") == "call" and \
                    mir.norm(root["call"].callee).endswith("Vec::new"):
                k = int(pr[2][1:])
                pushes = [p for p in ge.calls("Vec::push")
                          if _origin_call_bb(ge.origin(p.args[0])) == root["call"].bb]
                src = []
                for p in pushes:
                    po = ge.origin(p.args[1])
                    if po.get("kind") == "agg" and len(po["rv"]["ops"]) > k:
                        src.append(ge.origin(po["rv"]["ops"][k]))
                    else:
                        src.append({"kind": "unknown"})
                ok = bool(pushes) and all(is_answer_call(s) for s in src)
                detail = f"{len(pushes)} push site(s), component {k} from {[s.get('kind') for s in src]}"
        rep.ob("R17.5", "rust::generate_exports: generate_raw_cabi_export receives the answer recorded for the same function",
               ok, detail, ge.loc(x.bb))
    # stubs and trait signatures carry the same answer
    for nm in ("generate_exports", "generate_stub_impl", "generate_guest_import"):
        g = synq.find_fn(RUST_IF, nm, self_ty="InterfaceGenerator")
        sigs = [n for n in synq.walk(g.body) if n.get("k") == "struct" and n["path"].split("::")[-1] == "FnSig"]
        ok = bool(sigs)
        for s_ in sigs:
            fl = [x for x in s_["fields"] if x["name"] == "async_"]
            ok = ok and len(fl) == 1 and fl[0]["e"].get("k") == "path" and bound_from_call(g, fl[0]["e"]["path"], ANS)
        rep.ob("R17.5", f"rust::{nm}: the Rust signature (FnSig.async_) is the answer of is_async", ok,
               f"{len(sigs)} FnSig literal(s)", g.loc())


def wit_parser_lib():
    d = facts.registry_src("wit-parser")
    if d is None:
        raise AnchorMissing("wit-parser source not found in the cargo registry")
    p = os.path.join(d, "src/lib.rs")
    ast = facts.parse_snippet(open(p).read())
    if "error" in ast:
        raise AnchorMissing("wit-parser lib.rs does not parse: " + ast["error"])
    return ast, p


def oracle_table(ast, self_ty, name):
    """{variant: rendered value} of a `match self { Self::A => v, Self::B | Self::C => w }` method of wit-parser."""
    found = []

    def items(lst):
        for it in lst or []:
            if it.get("k") == "impl" and synq.base_name(it["self_ty"]) == self_ty and not it.get("trait"):
                for m in it["items"]:
                    if m.get("k") == "fn" and m["sig"]["name"] == name and m.get("body"):
                        found.append(m)
            elif it.get("k") == "mod":
                items(it.get("items"))
    items(ast.get("items"))
    if len(found) != 1:
        raise AnchorMissing(f"wit-parser {self_ty}::{name}: {len(found)} definitions")
    ms = synq.matches_in(found[0]["body"])
    if len(ms) != 1:
        raise AnchorMissing(f"wit-parser {self_ty}::{name}: not a single match")
    out = {}
    for a in synq.arms(ms[0]):
        for h in a.heads:
            out[h.split("::")[-1]] = render(a.body).split("::")[-1]
    return out


def r5_moonbit(rep):
    m = ws("wit_bindgen_moonbit")
    rep.saw(file=MB_ASYNC)
    rep.saw(file=MB_LIB)
    ast, p = wit_parser_lib()
    tables = {n: oracle_table(ast, "LiftLowerAbi", n) for n in ("import_variant", "export_variant", "import_prefix", "export_prefix")}
    want = {"import_variant": ("GuestImportAsync", "GuestImport"), "export_variant": ("GuestExportAsync", "GuestExport"),
            "import_prefix": ('"[async-lower]"', '""'), "export_prefix": ('"[async-lift]"', '""')}
    for n, (a, s) in want.items():
        rep.ob("R17.5", f"wit-parser LiftLowerAbi::{n}: AsyncCallback => {a}, Sync => {s}",
               tables[n].get("AsyncCallback") == a and tables[n].get("Sync") == s, f"{tables[n]}", os.path.basename(p))
    for plan, builder, variant_m in (("AsyncImportPlan", "import_plan", "import_variant"),
                                     ("AsyncExportPlan", "export_plan", "export_variant")):
        f = m.method("AsyncSupport", builder)
        rep.saw(f)
        aggs = [(b, rv) for b, i, rv, s in f.aggregates(plan)]
        rep.floor("R17.5", f"moonbit: {plan} constructions in {builder}", len(aggs), 1)
        for b, rv in aggs:
            k = rv.get("fields", []).index("is_async") if "is_async" in rv.get("fields", []) else None
            o = f.origin(rv["ops"][k]) if k is not None else {}
            rep.ob("R17.5", f"moonbit::{builder}: {plan}.is_async is the answer of is_async", is_answer_call(o),
                   f"field comes from {o.get('kind')}", f.loc(b))
        fn = synq.find_fn(MB_ASYNC, "mangling_and_abi", self_ty=plan)
        sel = ifs_selecting(fn, lambda e: "LiftLowerAbi::" in render(e))
        ok = False
        detail = f"{len(sel)} selecting `if`"
        if len(sel) == 1:
            n, t, e = sel[0]
            c_ = n["cond"]
            neg = False
            while c_.get("k") == "unary" and c_["op"] == "!":
                c_, neg = c_["e"], not neg
            if neg:
                t, e = e, t
            detail = f"if {render(n['cond'])} {{ {render(t)} }} else {{ {render(e)} }}"
            ok = render(c_) == "self.is_async" and render(t) == "ManglingAndAbi::Legacy(LiftLowerAbi::AsyncCallback)" and \
                render(e) == "ManglingAndAbi::Legacy(LiftLowerAbi::Sync)"
        rep.ob("R17.5", f"moonbit::{plan}::mangling_and_abi: is_async => Legacy(AsyncCallback), otherwise Legacy(Sync)", ok, detail, fn.loc())
        fv = synq.find_fn(MB_ASYNC, "abi_variant", self_ty=plan)
        tv = block_tail(fv.body)
        rep.ob("R17.5", f"moonbit::{plan}::abi_variant = mangling_and_abi().{variant_m}()",
               tv is not None and render(tv) == f"self.mangling_and_abi().{variant_m}()", f"`{render(tv)}`", fv.loc())
        for acc in ("is_async", "signature_is_async"):
            fa = synq.find_fn(MB_ASYNC, acc, self_ty=plan)
            ta = block_tail(fa.body)
            rep.ob("R17.5", f"moonbit::{plan}::{acc} returns the recorded answer", ta is not None and render(ta) == "self.is_async",
                   f"`{render(ta)}`", fa.loc())
    # the generator uses the plan for the signature, the ABI walk and the wasm name
    for nm, builder, namer in (("import", "import_plan", "wasm_import_name"), ("export", "export_plan", "wasm_export_name")):
        fn = synq.find_fn(MB_LIB, nm, self_ty="InterfaceGenerator", trait=None)
        plans = [n_ for n_, i, st in synq.bindings(fn.body) if i is not None and i.get("k") == "mcall" and i["method"] == builder]
        rep.ob("R17.5", f"moonbit::InterfaceGenerator::{nm}: one plan from {builder}", len(plans) == 1, f"{plans}", fn.loc())
        if len(plans) != 1:
            continue
        pl = plans[0]
        vnames = [n_ for n_, i, st in synq.bindings(fn.body) if i is not None and render(i) == f"{pl}.abi_variant()"]
        sigs = [render(x["args"][0]) for x in synq.method_calls(fn.body, "wasm_signature")]
        rep.ob("R17.5", f"moonbit::InterfaceGenerator::{nm}: wasm signature computed for the plan's variant",
               len(vnames) == 1 and bool(sigs) and all(s == vnames[0] for s in sigs), f"wasm_signature({sigs})", fn.loc())
        tagword = "WasmImport::Func" if nm == "import" else "WasmExportKind::Normal"
        nms = [render(x["args"][0]) for x in synq.method_calls(fn.body, namer)
               if len(x["args"]) == 2 and tagword in render(x["args"][1])]
        rep.ob("R17.5", f"moonbit::InterfaceGenerator::{nm}: the function's wasm name is mangled with the plan's ABI",
               bool(nms) and all(s == f"{pl}.mangling_and_abi()" for s in nms), f"{namer}({nms}, ..)", fn.loc())
        calls = [c_ for c_ in synq.fn_calls(fn.body, "call") if c_["func"]["path"].endswith("abi::call")]
        if nm == "export":
            ok = bool(calls) and all(render(c_["args"][1]) == (vnames[0] if vnames else None) and
                                     render(c_["args"][-1]) == f"{pl}.is_async()" for c_ in calls)
            rep.ob("R17.5", "moonbit::InterfaceGenerator::export: abi::call uses the plan's variant and async flag", ok,
                   f"{[(render(c_['args'][1]), render(c_['args'][-1])) for c_ in calls]}", fn.loc())
        else:
            sel = [n for n in synq.walk(fn.body) if n.get("k") == "if" and n.get("else") is not None and
                   (synq.method_calls(n["then"], "generate_async_import_body") or synq.method_calls(n["else"], "generate_async_import_body"))]
            ok = len(sel) == 1
            detail = f"{len(sel)} dispatch"
            if ok:
                n = sel[0]
                c_, neg = n["cond"], False
                while c_.get("k") == "unary" and c_["op"] == "!":
                    c_, neg = c_["e"], not neg
                t, e = (n["else"], n["then"]) if neg else (n["then"], n["else"])
                sync_vars = sorted({x["path"].split("::")[-1] for x in synq.paths(e) if "AbiVariant::" in x["path"]})
                async_vars = sorted({x["path"].split("::")[-1] for x in synq.paths(t) if "AbiVariant::" in x["path"]})
                detail = f"if {render(n['cond'])}: async side {async_vars}, sync side {sync_vars}"
                ok = render(c_) == f"{pl}.is_async()" and bool(synq.method_calls(t, "generate_async_import_body")) and \
                    not synq.method_calls(e, "generate_async_import_body") and sync_vars == ["GuestImport"] and not async_vars
            rep.ob("R17.5", "moonbit::InterfaceGenerator::import: async plan => async import body, otherwise abi::call with GuestImport",
                   ok, detail, fn.loc())


ASYNC_CONSTRUCTORS = {
    ("wit_bindgen_rust", "InterfaceGenerator::generate_guest_import_body_async"): {"GuestImportAsync"},
    ("wit_bindgen_rust", "InterfaceGenerator::generate_guest_export"): {"GuestExportAsync"},
    ("wit_bindgen_rust", "InterfaceGenerator::print_export_sig"): {"GuestExportAsync"},
    ("wit_bindgen_c", "InterfaceGenerator::import"): {"GuestImportAsync"},
    ("wit_bindgen_c", "InterfaceGenerator::export"): {"GuestExportAsync"},
    ("wit_bindgen_go", "Go::import"): {"GuestImportAsync"},
    ("wit_bindgen_go", "Go::export"): {"GuestExportAsync"},
}


def r5_constructors(rep):
    """an asynchronous AbiVariant is constructed only in the functions whose selection is checked above."""
    n = 0
    for crate in BACKENDS:
        c = ws(crate)
        keys = [k for (cr, k) in ASYNC_CONSTRUCTORS if cr == crate]
        short = crate.replace("wit_bindgen_", "")
        for f in c.fns.values():
            for b, var in abi_aggregates(f):
                if var not in ASYNC_VARIANTS:
                    continue
                n += 1
                me = _suffix(f.npath, keys)
                rep.ob("R17.5", f"{short}: AbiVariant::{var} constructed in {f.npath.replace('crate::', '')} (a checked selection site)",
                       me is not None and var in ASYNC_CONSTRUCTORS[(crate, me)],
                       "an asynchronous ABI variant is chosen outside the functions that consult is_async", f.loc(b))
    rep.floor("R17.5", "constructions of asynchronous AbiVariants in the backends", n, 7)



# functions that may spell the `[async-lower]` / `[async-lift]` prefix of a *function* name (intrinsic names such as
# `[async-lower][stream-read-0]f` continue with `[` and belong to the stream / future properties)
PREFIX_PRINTERS = {
    C_LIB: {"import", "export"},
    GO_LIB: {"import", "export"},
    RUST_IF: {"generate_guest_import_body_async", "generate_raw_cabi_export"},
}
PREFIX_DIRS = ("crates/rust/src/", "crates/c/src/", "crates/go/src/", "crates/moonbit/src/")


def r5_printers(rep):
    import re as _re
    pat = _re.compile(r"\[async-(lower|lift)\](?!\[)")
    n = 0
    for rel in sorted(synq.files()):
        if not rel.startswith(PREFIX_DIRS):
            continue
        ast = synq.load(rel)
        hits = [x for x in synq.walk(ast) if x.get("k") == "str" and isinstance(x.get("v"), str) and pat.search(x["v"])]
        if not hits:
            continue
        rep.saw(file=rel)
        fns = synq.all_fns(rel)
        for h in hits:
            ln = synq.line(h)
            encl = [g for g in fns if g.node["sp"][0] <= ln <= g.node["sp"][2]]
            encl.sort(key=lambda g: g.node["sp"][2] - g.node["sp"][0])
            g = encl[0] if encl else None
            if g is not None and ("tests" in g.mod or "test" in g.mod):
                continue
            n += 1
            name = g.name if g is not None else "<item>"
            rep.ob("R17.5", f"{rel}: `{pat.search(h['v']).group(0)}` function prefix is spelled in {name} (a checked selection site)",
                   name in PREFIX_PRINTERS.get(rel, ()), "an async function-name prefix is printed outside the functions "
                   "whose selection is checked against the answer of is_async", f"{rel}:{ln}")
    rep.floor("R17.5", "spellings of the async function-name prefixes in the backends", n, 6)


# ================================================================================================================
# R17.6  Async::parse and Display agree with the documented grammar (table evaluation on the syntax tree)
# ================================================================================================================
class Unsupported(Exception):
    pass


class _Return(Exception):
    def __init__(self, v):
        self.v = v


NONE = ("None",)


def _fmt_text(x, env, ev):
    """text produced by a format-like macro `x` (synq.Fmt) under env."""
    if x.template is None:
        raise Unsupported("format macro without a literal template")
    out = []
    pos = 0
    t = x.template
    holes = {off: (kind, key, ex) for kind, key, ex, off in x.hole_exprs()}
    i = 0
    while i < len(t):
        if t.startswith("{{", i) or t.startswith("}}", i):
            out.append(t[i])
            i += 2
            continue
        if t[i] == "{":
            j = t.index("}", i)
            spec = t[i + 1:j]
            if ":" in spec:
                raise Unsupported(f"format spec `{spec}`")
            kind, key, ex = holes[i]
            v = env[key] if ex is None else ev(ex, env)
            out.append(_display(v, ev))
            i = j + 1
            continue
        out.append(t[i])
        i += 1
    return "".join(out)


def _display(v, ev):
    if isinstance(v, str):
        return v
    if isinstance(v, bool):
        return "true" if v else "false"
    if isinstance(v, tuple) and v and v[0] in ("V", "S"):
        return display_value(v)
    raise Unsupported(f"Display of {v!r}")


def display_value(v):
    """evaluate `impl Display for <type of v>` from async_.rs on the value."""
    ty = "AsyncFilter" if v[0] == "V" else v[1]
    fn = synq.find_fn(ASYNC_RS, "fmt", self_ty=ty, trait="Display")
    out = []
    fname = [p["pat"]["name"] for p in fn.node["sig"]["params"] if not p.get("self")][0]
    env = {"self": v, fname: ("FMT", out)}
    try:
        _eval(fn.body, env)
    except _Return:
        pass
    return "".join(out)


def _pat(p, v, env):
    k = p.get("k")
    if k == "p_wild":
        return True
    if k == "p_ref":
        return _pat(p["pat"], v, env)
    if k == "p_or":
        return any(_pat(c, v, env) for c in p["cases"])
    if k == "p_lit":
        l = p["lit"]
        return l.get("v") == v
    if k == "p_ident":
        if p["name"] == "None":
            return v == NONE
        if p["name"][:1].isupper():
            return isinstance(v, tuple) and v[:2] == ("V", p["name"]) and not v[2]
        if p.get("sub") and not _pat(p["sub"], v, env):
            return False
        env[p["name"]] = v
        return True
    if k == "p_path":
        nm = p["path"].split("::")[-1]
        if nm == "None":
            return v == NONE
        return isinstance(v, tuple) and v[:2] == ("V", nm) and not v[2]
    if k == "p_tuple":
        return isinstance(v, tuple) and v[:1] == ("T",) and len(v) - 1 == len(p["elems"]) and \
            all(_pat(e, x, env) for e, x in zip(p["elems"], v[1:]))
    if k == "p_tuple_struct":
        nm = p["path"].split("::")[-1]
        if nm == "Some":
            return isinstance(v, tuple) and v[:1] == ("Some",) and len(p["elems"]) == 1 and _pat(p["elems"][0], v[1], env)
        return isinstance(v, tuple) and v[:2] == ("V", nm) and len(v[2]) == len(p["elems"]) and \
            all(_pat(e, x, env) for e, x in zip(p["elems"], v[2]))
    raise Unsupported(f"pattern kind {k}")


IDENTITY_METHODS = {"to_string", "to_owned", "into", "clone", "as_str", "as_ref", "borrow", "trim_matches_none"}


def _eval(e, env):
    k = e.get("k")
    if k == "block":
        env = dict(env)
        val = ("T",)
        st = e.get("stmts") or []
        for i, s in enumerate(st):
            sk = s.get("k")
            if sk == "let":
                if s.get("init") is None:
                    raise Unsupported("let without initialiser")
                v = _eval(s["init"], env)
                if not _pat(s["pat"], v, env):
                    raise Unsupported("refutable let")
                val = ("T",)
            elif sk == "expr_stmt":
                v = _eval(s["e"], env)
                val = v if (i == len(st) - 1 and not s.get("semi")) else ("T",)
            else:
                raise Unsupported(f"statement {sk}")
        return val
    if k == "path":
        p = e["path"]
        if p in env:
            return env[p]
        if p == "None":
            return NONE
        if "::" in p or p[:1].isupper():
            return ("V", p.split("::")[-1], [])
        raise Unsupported(f"unbound name {p}")
    if k in ("str", "char", "bool", "int"):
        return e["v"]
    if k == "tuple":
        return ("T",) + tuple(_eval(x, env) for x in e["elems"])
    if k == "ref":
        return _eval(e["e"], env)
    if k == "unary":
        v = _eval(e["e"], env)
        if e["op"] == "!":
            if not isinstance(v, bool):
                raise Unsupported("! on a non-bool")
            return not v
        if e["op"] == "*":
            return v
        raise Unsupported(f"unary {e['op']}")
    if k == "binary":
        a, b = _eval(e["l"], env), _eval(e["r"], env)
        if e["op"] == "==":
            return a == b
        if e["op"] == "!=":
            return a != b
        if e["op"] == "&&":
            return a and b
        if e["op"] == "||":
            return a or b
        raise Unsupported(f"binary {e['op']}")
    if k == "field":
        v = _eval(e["base"], env)
        if isinstance(v, tuple) and v[:1] == ("S",):
            return v[2][e["member"]]
        if isinstance(v, tuple) and v[:1] == ("T",) and str(e["member"]).isdigit():
            return v[1 + int(e["member"])]
        raise Unsupported("field access")
    if k == "struct":
        return ("S", e["path"].split("::")[-1], {f["name"]: _eval(f["e"], env) for f in e["fields"]})
    if k == "call":
        if e["func"].get("k") != "path":
            raise Unsupported("indirect call")
        p = e["func"]["path"]
        args = [_eval(a, env) for a in e["args"]]
        nm = p.split("::")[-1]
        if p == "Some":
            return ("Some", args[0])
        if p in ("Ok", "Err"):
            return (p, args[0])
        if p in ("String::from", "str::to_string", "ToString::to_string", "String::from_str"):
            return args[0]
        if "::" in p and nm[:1].isupper():
            return ("V", nm, args)
        raise Unsupported(f"call of {p}")
    if k == "mcall":
        r = _eval(e["recv"], env)
        m = e["method"]
        args = [_eval(a, env) for a in e["args"]]
        if m == "strip_prefix" and isinstance(r, str) and isinstance(args[0], str):
            return ("Some", r[len(args[0]):]) if r.startswith(args[0]) else NONE
        if m == "strip_suffix" and isinstance(r, str) and isinstance(args[0], str):
            return ("Some", r[:len(r) - len(args[0])]) if r.endswith(args[0]) else NONE
        if m == "starts_with" and isinstance(r, str) and isinstance(args[0], str):
            return r.startswith(args[0])
        if m in IDENTITY_METHODS and not args:
            return r
        if m == "fmt" and isinstance(r, tuple) and r[:1] in (("V",), ("S",)) and len(args) == 1 and args[0][:1] == ("FMT",):
            args[0][1].append(display_value(r))
            return ("Ok", ("T",))
        if m == "write_str" and isinstance(r, tuple) and r[:1] == ("FMT",):
            r[1].append(args[0])
            return ("Ok", ("T",))
        if m == "is_some":
            return r != NONE
        if m == "is_none":
            return r == NONE
        raise Unsupported(f"method {m}")
    if k == "macro":
        nm = e["name"].split("::")[-1]
        if nm in ("write", "writeln") and e.get("args"):
            x = synq.Fmt(e)
            dest = _eval(x.dest, env)
            if dest[:1] != ("FMT",):
                raise Unsupported("write! to something else")
            dest[1].append(_fmt_text(x, env, _eval) + ("\n" if nm == "writeln" else ""))
            return ("Ok", ("T",))
        if nm == "format" and e.get("args"):
            return _fmt_text(synq.Fmt(e), env, _eval)
        if nm == "matches":
            v = _eval(e["expr"], env)
            return _pat(e["pat"], v, dict(env))
        raise Unsupported(f"macro {nm}!")
    if k == "try":
        v = _eval(e["e"], env)
        if isinstance(v, tuple) and v[:1] == ("Ok",):
            return v[1]
        if isinstance(v, tuple) and v[:1] == ("Some",):
            return v[1]
        raise _Return(v)
    if k == "return":
        raise _Return(_eval(e["e"], env) if e.get("e") else ("T",))
    if k == "if":
        c = e["cond"]
        env2 = dict(env)
        if c.get("k") == "let_cond":
            ok = _pat(c["pat"], _eval(c["e"], env), env2)
        else:
            ok = _eval(c, env)
            if not isinstance(ok, bool):
                raise Unsupported("non-bool condition")
        if ok:
            return _eval(e["then"], env2)
        if e.get("else") is not None:
            return _eval(e["else"], env)
        return ("T",)
    if k == "match":
        v = _eval(e["scrut"], env)
        for a in e["arms"]:
            env2 = dict(env)
            if _pat(a["pat"], v, env2):
                if a.get("guard") is not None and not _eval(a["guard"], env2):
                    continue
                return _eval(a["body"], env2)
        raise Unsupported("no arm matched")
    if k == "paren":
        return _eval(e["e"], env)
    raise Unsupported(f"expression kind {k}")


def ref_parse(s):
    """The documented grammar (doc comment of AsyncFilterSet): [-](all | import:NAME | export:NAME | NAME)."""
    enabled = True
    if s.startswith("-"):
        enabled, s = False, s[1:]
    if s == "all":
        flt = ("V", "All", [])
    elif s.startswith("import:"):
        flt = ("V", "Import", [s[len("import:"):]])
    elif s.startswith("export:"):
        flt = ("V", "Export", [s[len("export:"):]])
    else:
        flt = ("V", "Function", [s])
    return ("S", "Async", {"enabled": enabled, "filter": flt})


SAMPLES = ["all", "-all", "foo:bar/baz#method", "-foo:bar/baz#method", "import:foo:bar/baz#method",
           "-import:foo:bar/baz#method", "export:foo:bar/baz#method", "-export:foo:bar/baz#method",
           "run", "-run", "import:run", "export:run", "-import:run", "-export:run",
           "allx", "import", "export", "import:all", "export:-x", "a-b"]


def show(v):
    if isinstance(v, tuple) and v[:1] == ("S",):
        return v[1] + " { " + ", ".join(f"{k}: {show(x)}" for k, x in v[2].items()) + " }"
    if isinstance(v, tuple) and v[:1] == ("V",):
        return v[1] + ("(" + ", ".join(show(x) for x in v[2]) + ")" if v[2] else "")
    return repr(v)


def r6_parse_display(rep):
    rep.saw(file=ASYNC_RS)
    fn = synq.find_fn(ASYNC_RS, "parse", self_ty="Async")
    pname = [p["pat"]["name"] for p in fn.node["sig"]["params"] if not p.get("self")]
    if len(pname) != 1:
        raise AnchorMissing("Async::parse takes one string")
    for s in SAMPLES:
        want = ref_parse(s)

        def one(s=s, want=want):
            try:
                got = _eval(fn.body, {pname[0]: s})
            except _Return as r:
                got = r.v
            rep.ob("R17.6", f"Async::parse({s!r}) = {show(want)}", got == want, f"evaluates to {show(got)}", fn.loc())
            if got == want:
                txt = display_value(got)
                rep.ob("R17.6", f"Display prints the parsed directive {s!r} back unchanged", txt == s, f"prints {txt!r}",
                       synq.find_fn(ASYNC_RS, "fmt", self_ty="Async", trait="Display").loc())
        rep.guard("R17.6", f"evaluate parse / Display on {s!r}", one)
    rep.floor("R17.6", "sample directives evaluated", len(SAMPLES), 20)
    # Display tables directly (each variant, both polarities)
    for flt, txt in ((("V", "All", []), "all"), (("V", "Function", ["n"]), "n"), (("V", "Import", ["n"]), "import:n"),
                     (("V", "Export", ["n"]), "export:n")):
        for en in (True, False):
            v = ("S", "Async", {"enabled": en, "filter": flt})
            want = ("" if en else "-") + txt

            def one(v=v, want=want):
                got = display_value(v)
                rep.ob("R17.6", f"Display of {show(v)} is {want!r}", got == want, f"prints {got!r}",
                       synq.find_fn(ASYNC_RS, "fmt", self_ty="AsyncFilter", trait="Display").loc())
            rep.guard("R17.6", f"Display of {show(v)}", one)
    # one parser: every way into the set goes through Async::parse; `all(b)` builds Async { enabled: b, All }
    c = ws("wit_bindgen_core")
    push = c.method("AsyncFilterSet", "push")
    rep.saw(push)
    rep.ob("R17.6", "AsyncFilterSet::push parses its directive with Async::parse", len(push.calls("Async::parse")) == 1 and
           len(push.calls("Vec::push")) == 1, "", push.loc())
    pa = synq.find_fn(ASYNC_RS, "parse_async", required=False)
    if pa is not None:
        rep.ob("R17.6", "the command-line value parser (parse_async) is Async::parse",
               render(block_tail(pa.body)) in ("Ok(Async::parse(s))",) or bool(synq.fn_calls(pa.body, "Async::parse")),
               f"`{render(block_tail(pa.body))}`", pa.loc())
    al = synq.find_fn(ASYNC_RS, "all", self_ty="AsyncFilterSet")
    bp = bool_param(al)
    lits = [n for n in synq.walk(al.body) if n.get("k") == "struct" and n["path"].split("::")[-1] == "Async"]
    ok = len(lits) == 1
    if ok:
        fl = {x["name"]: render(x["e"]) for x in lits[0]["fields"]}
        ok = fl.get("enabled") == bp and fl.get("filter", "").endswith("AsyncFilter::All")
    rep.ob("R17.6", "AsyncFilterSet::all(b) is the single directive Async { enabled: b, filter: All }", ok,
           f"{[render(x) for x in lits]}", al.loc())
