"""C15 — binding generation is deterministic (structural clauses).

R15.1  type-resolved inventory of every order-yielding use of a std hash container in the generator crates, the
       CLI and the proc macro; each site must be in the committed triage table rules/c15_sites.json and the guard
       recorded there is re-derived from the MIR on every run.
R15.2  `Files` is a BTreeMap and every consumer enumerates outputs through `Files::iter`.
R15.3  who-may-call: clocks, explicit RandomState, threads, pointer formatting, environment variables, subprocesses.
R15.4  generators do not probe the file system (the output may not depend on what an earlier run left behind).
"""
import json
import os
import re

from lib import mir

CLAIM = dict(
    level="other", engine="mirfacts", design="DESIGN.md §5 C15",
    technique="type-resolved MIR inventory of hash-container iteration + per-site guard re-derivation "
              "(consumer chain, loop-body effect set, post-dominating sort, keyed sink) against a committed triage "
              "table; who-may-call rules for other process-dependent sources",
    text="Decides that no iteration order of a std HashMap/HashSet in core, the eight backends, the CLI or the proc "
         "macro reaches generated output unless re-ordered, that outputs are enumerated only through the BTreeMap "
         "behind `Files`, and that no clock / random state / thread / address / file-system probe feeds generation. "
         "Partial: dependencies (wit-parser, wit-component, heck, ...) are trusted, two runs are never compared.",
    note="mir")

HERE = os.path.dirname(os.path.abspath(__file__))
TABLE = os.path.join(HERE, "c15_sites.json")

CRATES = [("wit_bindgen_core", "rlib"), ("wit_bindgen_rust", "rlib"), ("wit_bindgen_c", "rlib"),
          ("wit_bindgen_cpp", "rlib"), ("wit_bindgen_csharp", "rlib"), ("wit_bindgen_go", "rlib"),
          ("wit_bindgen_moonbit", "rlib"), ("wit_bindgen_d", "rlib"), ("wit_bindgen_markdown", "rlib"),
          ("wit_bindgen", "executable"), ("wit_bindgen_rust_macro", "procmacro")]
GENERATORS = [c for c, k in CRATES if k == "rlib"]

# ---------------------------------------------------------------------------------------------------------------
# vocabulary
# ---------------------------------------------------------------------------------------------------------------
HASH_NAME = re.compile(r"std::collections::(HashMap|HashSet)\b|std::collections::hash_(map|set)::")
CONTAINER = re.compile(r"^(&(mut )?)*std::collections::(HashMap|HashSet)<")
HASH_ITER = re.compile(r"std::collections::hash_(map|set)::(Iter|IterMut|Keys|Values|ValuesMut|IntoIter|IntoKeys|"
                       r"IntoValues|Drain|Difference|Union|Intersection|SymmetricDifference|ExtractIf)\b")
# methods of the container that yield its elements in iteration order
ORDER_METHODS = {"iter", "iter_mut", "keys", "values", "values_mut", "into_keys", "into_values", "drain", "retain",
                 "extract_if", "difference", "symmetric_difference", "intersection", "union"}
# methods that never expose an order (argument 0 is the container / an entry of it)
LOOKUP_METHODS = {"get", "get_mut", "insert", "contains", "contains_key", "entry", "remove", "new", "is_empty", "len",
                  "index", "index_mut", "default", "clone", "clone_from", "with_capacity", "clear", "reserve",
                  "get_key_value", "remove_entry", "take", "replace", "get_or_insert_with", "capacity",
                  "shrink_to_fit", "is_subset", "is_superset", "is_disjoint", "eq", "ne", "or_default", "or_insert",
                  "or_insert_with", "or_insert_with_key", "and_modify", "key", "into_mut", "swap", "drop", "get_many_mut",
                  "try_insert", "with_hasher", "hasher"}
# std functions that only move / wrap a container
MOVERS = re.compile(r"^(std|core|alloc)::(mem::(take|replace|swap|drop)|option::Option::|result::Result::|"
                    r"boxed::Box::new|convert::(Into::into|From::from)|ops::(Deref|DerefMut)::|borrow::)")
# iterator adaptors that keep the order of their input
ADAPTORS = {"map", "cloned", "copied", "filter", "filter_map", "enumerate", "chain", "zip", "skip", "take",
            "peekable", "flat_map", "flatten", "inspect", "into_iter", "by_ref", "skip_while", "take_while",
            "map_while", "fuse", "rev", "step_by"}
# terminals whose result does not depend on the order of the input
FOLDS = {"any", "all", "count", "len", "is_empty", "min", "max", "sum", "contains"}
SORTS = {"sort", "sort_by", "sort_by_key", "sort_unstable", "sort_unstable_by", "sort_unstable_by_key",
         "sort_by_cached_key"}
# calls in a loop body that cannot carry state from one iteration to the next
NOISE = re.compile(
    r"(^|[ <])(std|core|alloc)::(iter::(Iterator|IntoIterator|DoubleEndedIterator|ExactSizeIterator)::|"
    r"ops::(Deref|DerefMut|Index|IndexMut|Try|FromResidual)::|option::Option::|result::Result::|"
    r"convert::|borrow::|clone::Clone::|default::Default::|cmp::|fmt::(rt::|Arguments::|format$)|hint::|mem::|"
    r"string::ToString::|ptr::|slice::<impl \[T\]>::(iter|len|is_empty|get|first|last|join|concat)$|"
    r"str::<impl str>::|string::String::(as_str|len|is_empty|as_bytes|new|from|with_capacity)$|"
    r"vec::Vec::(new|len|is_empty|with_capacity|as_slice)$|path::Path::(new|to_str|join|parent|display)$)|"
    r"^log::|(^|::)<.* as (std|core|alloc)::(iter::(Iterator|IntoIterator)|ops::(Deref|DerefMut|Index|IndexMut)|clone::Clone|"
    r"convert::(From|Into|AsRef|AsMut)|borrow::(Borrow|BorrowMut)|cmp::(PartialEq|Eq|PartialOrd|Ord)|"
    r"default::Default|string::ToString|fmt::(Display|Debug))>::")
STD = re.compile(r"^<?(&('[a-z_]+ )?(mut )?)?(std|core|alloc)::")


def last_seg(n):
    return n.rsplit("::", 1)[-1]


def short_ty(t):
    """`&std::collections::HashMap<std::string::String, X>` -> `&HashMap<String, X>` (stable, readable)."""
    t = re.sub(r"'\{?[a-z_]+\}? ?", "", t)
    t = re.sub(r"\b(?:[a-z_][a-z0-9_]*::)+", "", t)
    return t


def short_callee(call):
    n = mir.norm(call.callee)
    m = re.match(r"^<(.*) as (.*)>::(\w+)$", n)
    if m:
        return f"<{short_ty(m.group(1))} as {short_ty(m.group(2))}>::{m.group(3)}"
    parts = n.split("::")
    return "::".join(parts[-2:])


def fn_key(f):
    p = f.npath
    return p[len("crate::"):] if p.startswith("crate::") else p


# ---------------------------------------------------------------------------------------------------------------
# data flow helpers
# ---------------------------------------------------------------------------------------------------------------
def producer(f, op):
    """The call whose result this operand carries (through moves, copies, references), or None."""
    o = f.origin(op)
    if o.get("kind") == "call":
        return o["call"]
    return None


def consumers(f, call):
    """Calls that take the result of `call` as an argument."""
    out = []
    for c in f.calls():
        if c.bb == call.bb:
            continue
        for a in c.args:
            p = producer(f, a)
            if p is not None and p.bb == call.bb:
                out.append(c)
                break
    return out


def returned(f, call):
    """Does the result of `call` leave the function as its return value?"""
    if call.dest.get("l") == 0:
        return True
    for b in sorted(f.live):
        for s in f.stmts(b):
            if s["k"] == "=" and s["p"]["l"] == 0 and not s["p"].get("p") and s["rv"]["k"] == "use":
                p = producer(f, s["rv"]["o"])
                if p is not None and p.bb == call.bb:
                    return True
    return False


def loop_blocks(f, nb):
    """Blocks of the cycle through block nb (the loop whose header calls `next`), without nb itself."""
    fwd = f.reachable(nb)
    return {b for b in fwd if b != nb and nb in f.reachable(b)}


def closure_paths(f, blocks):
    """Closures constructed in `blocks`."""
    out = []
    for b in blocks:
        for s in f.stmts(b):
            if s["k"] == "=" and s["rv"]["k"] == "agg" and "closure" in s["rv"]:
                out.append(s["rv"]["closure"])
    return out


def is_effect(call):
    n = mir.norm(call.callee)
    if NOISE.search(n):
        return False
    if not STD.search(n):
        return True  # a workspace / third-party function: may do anything
    return any(t.startswith("&mut ") for t in call.arg_types)


def find_closure(f, cp):
    for g in f.crate.fns.values():
        if g.path == cp or g.npath == mir.norm(cp):
            return g
    return None


def named_locals(f):
    return {p["l"] for p in f.d.get("names", {}).values() if not p.get("p")}


def stmt_effects(f, blocks):
    """State carried from one iteration to the next without a call: assignments in the loop to a variable that
    also lives outside it, and stores through references to outer state."""
    out = set()
    inner = set()
    outer = set(range(1, f.argc + 1))
    for l, ds in f.defs.items():
        for b, i, kind, _ in ds:
            (inner if b in blocks else outer).add(l)
    named = named_locals(f)
    for b in blocks:
        for s in f.stmts(b):
            if s["k"] != "=":
                continue
            d = s["p"]
            l = d["l"]
            proj = d.get("p", [])
            if l == 0:
                continue
            if not proj:
                if l in outer and l in named:
                    out.add("carried variable of type " + short_ty(f.locals[l]))
                continue
            fields = "".join(x for x in proj if x.startswith("."))
            if proj[0] == "*":
                o = f.place_origin({"l": l})
                if o.get("kind") == "arg" or (l in outer and l not in inner):
                    out.add("store to outer " + (("".join(x for x in o.get("proj", []) if x.startswith(".")) + fields) or "*"))
            elif l in outer and l in named and l not in inner:
                out.add("store to outer variable" + fields)
    return out


def fresh_in_loop(f, op, blocks, depth=6):
    """Is the operand (a `&mut` argument) a view of a value created inside `blocks`, i.e. per-iteration scratch?"""
    if depth == 0:
        return False
    o = f.origin(op)
    k = o.get("kind")
    if k == "call":
        c = o["call"]
        if c.bb not in blocks:
            return False
        if f.locals[c.dest["l"]].startswith("&"):
            # a view (deref_mut, entry, get_mut, ...): as fresh as what it views
            refs = [a for a, t in zip(c.args, c.arg_types) if t.startswith("&")]
            return bool(refs) and all(fresh_in_loop(f, a, blocks, depth - 1) for a in refs)
        return True
    if k == "agg":
        return o.get("bb") in blocks
    if k == "place" and "local" in o:
        ds = f.defs.get(o["local"], [])
        return bool(ds) and all(b in blocks for b, _, _, _ in ds)
    return False


def effects(f, blocks, skip_bb=(), depth=1):
    """What the loop body does that can carry state across iterations: normalised callees of calls that are not std
    functions, or std functions with a `&mut` argument that is not per-iteration scratch (calls of the function's own
    closures are replaced by the closure body's effects), plus statement-level effects."""
    out = set()
    for c in f.calls():
        if c.bb in blocks and c.bb not in skip_bb and is_effect(c):
            n = mir.norm(c.callee) if c.ind is None else "<indirect call>"
            if "{closure#" in n and depth > 0:
                g = find_closure(f, c.callee)
                if g is not None:
                    out |= effects(g, g.live, depth=depth - 1)
                    continue
            if STD.search(n) and c.ind is None:
                muts = [a for a, t in zip(c.args, c.arg_types) if t.startswith("&mut ")]
                if muts and all(fresh_in_loop(f, a, blocks) for a in muts):
                    continue
            out.add(n)
    if depth > 0:
        for cp in closure_paths(f, blocks):
            g = find_closure(f, cp)
            if g is not None:
                out |= effects(g, g.live, depth=depth - 1)
    out |= stmt_effects(f, blocks)
    return out


def allowed(eff, allow):
    """effects not covered by the triaged allow-list (entries are path suffixes)."""
    return sorted(e for e in eff if not any(mir.suffix_match(e, a) or e == a for a in allow))


# ---------------------------------------------------------------------------------------------------------------
# sites
# ---------------------------------------------------------------------------------------------------------------
class Site:
    def __init__(self, crate, f, call, kind, recv_ty, recv_op):
        self.crate = crate
        self.f = f
        self.call = call
        self.kind = kind          # 'method' | 'into_iter' | 'consume' | 'debug' | 'derived' | 'orphan'
        self.recv_ty = recv_ty
        self.recv = self._recv_desc(recv_op)
        self.callee = short_callee(call)
        self.ord = 0

    def _recv_desc(self, op):
        """Field path of the receiver (`.export`, `.csharp_gen.world_resources`), `argN` for a bare parameter, `local`
        for a local container.  Never a variable name."""
        if op is None:
            return ""
        o = self.f.origin(op)
        fields = [p for p in o.get("proj", []) if p.startswith(".") and not p[1:].isdigit()]
        if fields:
            return "".join(fields)
        if o.get("kind") == "arg":
            return "arg%d" % o["n"]
        return "local"

    def key(self):
        k = (self.crate, fn_key(self.f), f"{short_ty(self.recv_ty)} {self.recv}".strip(), self.callee)
        return k

    def instance(self):
        c, fn, recv, callee = self.key()
        s = f"{c}::{fn}: {callee} on {recv}"
        if self.ord:
            s += f" #{self.ord + 1}"
        return s


def container_args(call):
    """[(index, type)] of the arguments that are hash containers (owned or by reference)."""
    return [(i, t) for i, t in enumerate(call.arg_types) if CONTAINER.match(t)]


# std callees that iterate one of their arguments: method name -> index of the iterated argument
ITERATES = {"extend": 1, "from_iter": 0, "chain": 1, "zip": 1, "eq": 1, "cmp": 1, "partial_cmp": 1, "extend_from_slice": 1,
            "append": 1}


def resolve_fn(crates, c, n):
    """The workspace function a generic-stripped callee path names (same crate, or another loaded crate)."""
    if n.startswith("crate::"):
        for g in c.fns.values():
            if g.npath == n:
                return g
        return None
    head = n.split("::", 1)[0]
    other = crates.get(head)
    if other is not None and "::" in n:
        tail = n.split("::", 1)[1]
        cands = [g for g in other.fns.values() if g.npath == "crate::" + tail or g.npath.endswith("::" + tail)]
        if len(cands) == 1:
            return cands[0]
    return None


def inventory(crates, derived):
    """All order-yielding sites.  `derived` = generic-stripped paths of workspace functions that return a hash
    iterator (from `returned` table entries that were verified)."""
    sites = []
    lookups = 0
    unknown = []
    for cname, c in crates.items():
        for f in c.fns.values():
            for call in f.calls():
                names = " ".join(call.names())
                at = call.arg_types
                n = mir.norm(call.callee)
                m = last_seg(n)
                # calls to workspace functions returning a hash iterator
                dn = n[len("crate::"):] if n.startswith("crate::") else n
                if any(dn == d or dn.endswith("::" + d) for d in derived):
                    sites.append(Site(cname, f, call, "derived", at[0] if at else "", call.args[0] if call.args else None))
                    continue
                ca = container_args(call)
                if not ca:
                    continue  # a call on an entry / iterator: part of a chain, handled from its site
                i, ty = ca[0]
                on_container = re.search(r"std::collections::Hash(Map|Set)::\w+$", n) is not None
                on_entry = re.search(r"std::collections::hash_(map|set)::\w+::\w+$", n) is not None
                if re.search(r"^<&?(mut )?std::collections::Hash(Map|Set) as std::iter::IntoIterator>::into_iter$", n) or \
                        (m == "into_iter" and re.search(r"IntoIterator(>)?::into_iter$", n) and i == 0):
                    sites.append(Site(cname, f, call, "into_iter", ty, call.args[i]))
                elif on_container and i == 0 and m in ORDER_METHODS:
                    sites.append(Site(cname, f, call, "method", ty, call.args[0]))
                    # a set operation also walks its second operand, but only to test membership
                elif re.search(r"fmt::rt::Argument::new_\w+$", n):
                    sites.append(Site(cname, f, call, "debug", ty, call.args[i]))
                elif STD.search(n) and m in ITERATES:
                    k = ITERATES[m]
                    hit = [(j, t) for j, t in ca if j == k]
                    if hit:
                        sites.append(Site(cname, f, call, "consume", hit[0][1], call.args[k]))
                    else:
                        lookups += 1  # the hash container is the sink (insert-like), its source is not a container
                elif (on_container or on_entry) and m in LOOKUP_METHODS:
                    lookups += 1
                elif MOVERS.search(n) or (STD.search(n) and m in LOOKUP_METHODS and i == 0):
                    lookups += 1
                elif not STD.search(n):
                    # handed to a workspace function: fine when its parameter is declared as this container (its own
                    # MIR then shows what it does with it); a generic / unresolvable callee may iterate it blindly
                    g = resolve_fn(crates, c, n)
                    if g is None:
                        unknown.append((cname, f, call, ty))
                    else:
                        generic = [(j, t) for j, t in ca if j + 1 >= len(g.locals) or not CONTAINER.match(g.locals[j + 1])]
                        if generic:
                            j, t = generic[0]
                            sites.append(Site(cname, f, call, "consume", t, call.args[j]))
                        else:
                            lookups += 1
                else:
                    # a std function outside the vocabulary that receives the container: fail closed, triage it
                    sites.append(Site(cname, f, call, "consume", ty, call.args[i]))
    # stable ordinals for sites sharing a key
    seen = {}
    for s in sites:
        k = s.key()
        s.ord = seen.get(k, 0)
        seen[k] = s.ord + 1
    return sites, lookups, unknown


def chain(site):
    """Follow the iterator produced at the site through order-preserving adaptors to its terminal.
    Returns (steps, terminal) with terminal = (kind, call_or_None, info)."""
    f = site.f
    cur = site.call
    steps = []
    n0 = mir.norm(cur.callee)
    m0 = last_seg(n0)
    marked = {cur.bb}
    if site.kind == "method" and m0 == "retain":
        return steps, ("retain", cur, None), marked
    if site.kind == "debug":
        return steps, ("format", cur, None), marked
    if site.kind == "consume":
        if m0 == "extend":
            return steps, ("extend", cur, cur.arg_types[0]), marked
        if m0 == "from_iter":
            return steps, ("collect", cur, f.locals[cur.dest["l"]]), marked
        return steps, ("other", cur, m0), marked
    for _ in range(32):
        if returned(f, cur):
            return steps, ("returned", cur, None), marked
        cons = consumers(f, cur)
        if not cons:
            return steps, ("unused", cur, None), marked
        if len(cons) > 1:
            # the only legitimate double use is `next` + `size_hint` of one loop; everything else: fail closed
            nx = [c for c in cons if last_seg(mir.norm(c.callee)) == "next"]
            if len(nx) == 1 and all(last_seg(mir.norm(c.callee)) in ("next", "size_hint") for c in cons):
                cons = nx
            else:
                return steps, ("multi", cur, [short_callee(c) for c in cons]), marked
        c = cons[0]
        marked.add(c.bb)
        n = mir.norm(c.callee)
        m = last_seg(n)
        is_iter_trait = re.search(r"(iter::Iterator|iter::IntoIterator|IntoIterator>|Iterator>)::\w+$", n) is not None
        if is_iter_trait and m in ADAPTORS:
            steps.append(m)
            cur = c
            continue
        if is_iter_trait and m == "next":
            if not f.in_cycle(c.bb):
                return steps, ("other", c, "next outside a loop (picks an arbitrary element)"), marked
            return steps, ("for", c, None), marked
        if is_iter_trait and m == "for_each":
            return steps, ("for_each", c, None), marked
        if is_iter_trait and m == "collect":
            return steps, ("collect", c, f.locals[c.dest["l"]]), marked
        if m == "from_iter":
            return steps, ("collect", c, f.locals[c.dest["l"]]), marked
        if m == "extend" and len(c.args) >= 2:
            return steps, ("extend", c, c.arg_types[0]), marked
        if is_iter_trait and m in FOLDS:
            return steps, ("fold", c, m), marked
        if not STD.search(n):
            return steps, ("passed", c, n), marked
        return steps, ("other", c, m), marked
    return steps, ("other", cur, "chain too long"), marked


# ---------------------------------------------------------------------------------------------------------------
# guards
# ---------------------------------------------------------------------------------------------------------------
def is_hash_ty(t):
    return re.match(r"^(&(mut )?)?std::collections::(HashMap|HashSet)<", t or "") is not None


def is_btree_ty(t):
    return re.match(r"^(&(mut )?)?std::collections::(BTreeMap|BTreeSet)<", t or "") is not None


def is_vec_ty(t):
    return re.match(r"^(&(mut )?)?std::vec::Vec<", t or "") is not None


def traces_to(f, op, bb, depth=8):
    """Does the operand derive (through deref / slice views / adaptors) from the call in block bb?"""
    p = producer(f, op)
    if p is None or depth == 0:
        return False
    if p.bb == bb:
        return True
    m = last_seg(mir.norm(p.callee))
    if m in ("deref", "deref_mut", "as_mut_slice", "as_slice", "as_mut", "as_ref", "borrow", "borrow_mut") and p.args:
        return traces_to(f, p.args[0], bb, depth - 1)
    return False


TOTAL_SORTS = {"sort", "sort_unstable"}


def sorted_after(f, cbb, by_ok=False):
    """The Vec produced by the call in block cbb is sorted on every path before anything but push/extend sees it.
    A sort with a caller-supplied key or comparator only counts when the table row vouches for it (`sort_by_ok`):
    a partial key leaves ties in hash order.  Returns (ok, detail)."""
    sorts = [c for c in f.calls() if last_seg(mir.norm(c.callee)) in SORTS and c.args and traces_to(f, c.args[0], cbb)]
    if not sorts:
        return False, "no sort of the collected Vec in this function"
    keyed = sorted({short_callee(c) for c in sorts if last_seg(mir.norm(c.callee)) not in TOTAL_SORTS})
    if keyed and not by_ok:
        return False, (f"sorted with {', '.join(keyed)}: a key/comparator may leave ties in hash order "
                       "(add `sort_by_ok` with the reason to the table row after reading it)")
    sbbs = {c.bb for c in sorts}
    if not f.all_paths_pass(cbb, f.returns(), sbbs):
        return False, "a path from the collect to a return bypasses the sort"
    early = f.reachable(cbb, avoid=sbbs)
    for c in f.calls():
        if c.bb in early and c.bb != cbb and c.bb not in sbbs and any(traces_to(f, a, cbb) for a in c.args):
            m = last_seg(mir.norm(c.callee))
            if m not in ("push", "extend", "deref_mut", "deref", "len", "is_empty", "reserve", "append", "extend_from_slice"):
                return False, f"`{short_callee(c)}` reads the Vec before it is sorted"
    return True, "sorted by " + ", ".join(sorted({short_callee(c) for c in sorts}))


def auto_guard(site, steps, term, by_ok=False):
    """Guards that need no triage: the order is destroyed (hash sink), restored (sort, BTree) or irrelevant (fold)."""
    kind, c, info = term
    f = site.f
    if kind in ("collect", "extend") and (is_hash_ty(info) or is_btree_ty(info)):
        return True, f"{kind}s into {short_ty(info)}"
    if kind == "collect" and is_vec_ty(info):
        return sorted_after(f, c.bb, by_ok)
    if kind == "fold":
        return True, f"order-insensitive terminal `{info}`"
    return False, f"terminal {kind} {short_ty(info) if isinstance(info, str) else info or ''}".strip()


def loop_body(site, term):
    """(function, blocks, effects) of the body executed once per element: the blocks of the `for` loop, or the whole
    closure handed to `for_each`."""
    f = site.f
    if term[0] == "for_each":
        g = closure_of_arg(f, term[1])
        if g is None:
            raise mir.AnchorMissing(f"{f.path}: the closure passed to for_each is not a closure of this function")
        return g, set(g.live), effects(g, g.live)
    nb = term[1].bb
    blocks = loop_blocks(f, nb)
    return f, blocks, effects(f, blocks)


def shared_writes(c, holders, field):
    """Mutable borrows of / stores through `<holder>.field` in the methods (and their closures) of the holder types:
    the sub-generator built per iteration must not write to the world generator it points to."""
    out = []
    for f in c.fns.values():
        st = f.d.get("self_ty")
        own = st is not None and mir.base_type(st) in holders
        if not own and not any(("::" + h + "::") in f.npath or ("<" + h + " as ") in f.npath or ("<" + h + "<") in f.path
                               for h in holders):
            continue
        al = set()
        for b in sorted(f.live):
            for s in f.stmts(b):
                if s["k"] == "=" and s["rv"]["k"] == "use" and not s["p"].get("p"):
                    o = s["rv"]["o"]
                    p = o.get("cp") or o.get("mv")
                    if p and p.get("p") and p["p"][-1] == field:
                        al.add(s["p"]["l"])
        for b in sorted(f.live):
            for s in f.stmts(b):
                if s["k"] != "=":
                    continue
                d = s["p"]
                if d.get("p") and (d["l"] in al or field in d["p"][:-1]):
                    out.append((f, b, "store"))
                rv = s["rv"]
                if rv["k"] in ("ref", "rawptr") and rv.get("m"):
                    p = rv["p"]
                    if p["l"] in al and p.get("p") or field in p.get("p", [])[:-1]:
                        out.append((f, b, "mutable borrow"))
    return out


def writes_through_params(g):
    """Does the function write to what its reference parameters point to (field store, `&mut` of a field, or passing
    the whole `&mut` on to another call)?  Moving the reference into a struct literal is not a write."""
    out = []
    params = set(range(1, g.argc + 1))
    for b in sorted(g.live):
        for s in g.stmts(b):
            if s["k"] != "=":
                continue
            d = s["p"]
            if d["l"] in params and d.get("p") and d["p"][0] == "*" and len(d["p"]) > 1:
                out.append((b, "stores to " + "".join(x for x in d["p"] if x.startswith("."))))
            rv = s["rv"]
            if rv["k"] in ("ref", "rawptr") and rv.get("m") and rv["p"]["l"] in params and rv["p"].get("p", [])[:1] == ["*"]:
                if len(rv["p"]["p"]) > 1:
                    out.append((b, "mutably borrows " + "".join(x for x in rv["p"]["p"] if x.startswith("."))))
                else:
                    tgt = s["p"]["l"]
                    for c in g.calls():
                        for a in c.args:
                            p = a.get("mv") or a.get("cp")
                            if p and p["l"] == tgt and not p.get("p"):
                                out.append((c.bb, "passes the `&mut` parameter on to " + short_callee(c)))
    return out


def callee_sorts(crates, site, call, marked, by_ok=False):
    """The hash iterator is an argument of `call` to a workspace function.  On the callee's MIR: that parameter has
    exactly one use, which (through order-preserving adaptors) is collected into a Vec that is sorted before anything
    else reads it, or into a BTree container.  Returns (ok, detail)."""
    f = site.f
    g = resolve_fn(crates, crates[site.crate], mir.norm(call.callee))
    if g is None:
        return False, f"the body of {short_callee(call)} is not in the analysed crates"
    idx = [j for j, a in enumerate(call.args) if (producer(f, a) is not None and producer(f, a).bb in marked)]
    if len(idx) != 1:
        return False, f"cannot tell which argument of {short_callee(call)} carries the hash iterator"
    n = idx[0] + 1
    if n > g.argc:
        return False, f"{fn_key(g)} has no parameter {n}"
    uses = []
    for c in g.calls():
        for a in c.args:
            o = g.origin(a)
            if o.get("kind") == "arg" and o.get("n") == n:
                uses.append(c)
                break
    # the parameter may also be copied / stored by plain statements: every mention must be one of the call uses
    if len(uses) != 1:
        return False, (f"parameter {n} of {fn_key(g)} is used {len(uses)} times "
                       f"({', '.join(short_callee(u) for u in uses) or 'never'}); expected a single collect")
    c0 = uses[0]
    n0 = mir.norm(c0.callee)
    m0 = last_seg(n0)
    is_iter_trait = re.search(r"(iter::Iterator|iter::IntoIterator|IntoIterator>|Iterator>)::\w+$", n0) is not None
    sub = Site(site.crate, g, c0, "derived", "", None)
    if is_iter_trait and m0 == "collect" or m0 == "from_iter":
        steps, term = [], ("collect", c0, g.locals[c0.dest["l"]])
    elif is_iter_trait and m0 in ADAPTORS:
        steps, term, _ = chain(sub)
    else:
        return False, f"{fn_key(g)} consumes the hash-ordered parameter with {short_callee(c0)} before ordering it"
    if term[0] != "collect" or not (is_vec_ty(term[2]) or is_btree_ty(term[2])):
        return False, f"{fn_key(g)}: the hash-ordered parameter flows to terminal {term[0]} instead of a collect into a Vec/BTree"
    ok, d = auto_guard(sub, steps, term, by_ok)
    return ok, f"{fn_key(g)}: parameter {n} is collected and " + d if ok else f"{fn_key(g)}: {d}"


def check_guard(rep, site, entry, crates, steps, term, marked=()):
    """Re-derive the guard named by the table entry.  Returns (ok, detail)."""
    g = entry.get("guard")
    kind, c, info = term
    f = site.f
    allow = entry.get("allow", [])
    if g == "unordered":
        ok, d = auto_guard(site, steps, term)
        return ok, ("triaged as reaching output in hash order: " + entry.get("reason", "") + " [" + d + "]") if not ok else d
    if g == "sorted_after":
        if kind == "collect" and (is_vec_ty(info) or is_btree_ty(info)):
            return auto_guard(site, steps, term, by_ok=bool(entry.get("sort_by_ok")))
        return False, f"expected collect into a Vec/BTree followed by a sort, found terminal {kind}"
    if g == "callee_sorts":
        if kind != "passed":
            return False, f"expected the iterator to be handed to a workspace function, found terminal {kind}"
        via = entry.get("via", "")
        if not mir.suffix_match(info, via):
            return False, f"the iterator is handed to {short(info)}, the table row vouches for {via}"
        return callee_sorts(crates, site, c, marked, bool(entry.get("sort_by_ok")))
    if g == "returned":
        return kind == "returned", f"terminal {kind}" + (" after " + ">".join(steps) if steps else "")
    if g == "lookup_only":
        if kind == "retain":
            cl = closure_of_arg(f, c)
            if cl is None:
                return False, "retain predicate is not a closure of this function"
            eff = effects(cl, cl.live, depth=1) | {mir.norm(x.callee) for x in cl.calls() if HASH_NAME.search(x.callee)}
            bad = allowed(eff, allow)
            # an allowed workspace callee must itself be unable to carry state from one element to the next: no `&mut`
            # parameter and no write through a reference parameter (re-derived on its MIR on every run)
            for e in sorted(eff):
                if e in bad or STD.search(e) or e == "<indirect call>":
                    continue
                g2 = resolve_fn(crates, crates[site.crate], e)
                if g2 is None:
                    bad.append(e + " (body not in the analysed crates)")
                    continue
                if any(g2.locals[i].startswith("&mut ") for i in range(1, g2.argc + 1)) or writes_through_params(g2):
                    bad.append(e + " (can write through its parameters)")
            return not bad, ("predicate calls " + ", ".join(bad)) if bad else "predicate only consults " + ", ".join(sorted(short(e) for e in eff))
        if kind == "fold":
            return True, f"terminal `{info}`"
        return False, f"expected retain/fold, found terminal {kind}"
    if g == "commutative":
        how = entry.get("how", "hash_sink")
        if how == "hash_sink":
            ok = kind in ("collect", "extend") and is_hash_ty(info)
            return ok, f"{kind} into {short_ty(info) if isinstance(info, str) else info}"
        if how == "loop":
            if kind not in ("for", "for_each"):
                return False, f"expected a for loop, found terminal {kind}"
            bf, blocks, eff = loop_body(site, term)
            bad = allowed(eff, allow)
            if bad:
                return False, "loop body has effects outside the triaged set: " + ", ".join(short(b) for b in bad)
            missing = [a for a in entry.get("require", []) if not any(mir.suffix_match(e, a) for e in eff)]
            if missing:
                return False, "loop body no longer calls " + ", ".join(missing)
            for extra in entry.get("then", []):
                if kind != "for":
                    return False, "a `then` clause needs a plain for loop"
                ok, d = check_then(site, term, blocks, extra)
                if not ok:
                    return False, d
            return True, "loop body effects: " + ", ".join(sorted(short(e) for e in eff))
        return False, f"unknown commutative mode {how}"
    if g == "keyed_sink":
        if kind not in ("for", "for_each"):
            return False, f"expected a for loop, found terminal {kind}"
        bf, blocks, eff = loop_body(site, term)
        bad = allowed(eff, allow)
        if bad:
            return False, "loop body has effects outside the triaged set: " + ", ".join(short(b) for b in bad)
        sink = entry.get("sink", "Files::push")
        pushes = [x for x in bf.calls(sink) if x.bb in blocks]
        if not pushes:
            return False, f"no `{sink}` in the loop body"
        for p in pushes:
            o = bf.origin(p.args[1])
            if o.get("kind") == "const":
                return False, f"`{sink}` is called with a constant key: every iteration appends to one entry"
            db = None
            if o.get("kind") == "call":
                db = o["call"].bb
            elif "local" in o:
                ds = bf.defs.get(o["local"], [])
                db = ds[0][0] if ds else None
            elif o.get("kind") == "arg" and bf is not f:
                db = next(iter(blocks))  # a parameter of the per-element closure: the element itself
            if db is None or db not in blocks:
                return False, f"the key passed to `{sink}` is not computed inside the loop (not derived from the item)"
        for pc in entry.get("pure_callees", []):
            g_ = crates[site.crate].fn(pc)
            w = writes_through_params(g_)
            if w:
                return False, f"{pc} {w[0][1]} ({g_.loc(w[0][0])}): a per-item helper now changes shared state"
        nsw = entry.get("no_shared_write")
        if nsw:
            ws = shared_writes(crates[site.crate], set(nsw["holders"]), nsw["field"])
            if ws:
                g_, b_, what = ws[0]
                return False, (f"{what} through `{nsw['field']}` in {fn_key(g_)} ({g_.loc(b_)}): the per-item generator "
                               f"mutates the shared world generator, so the visiting order is observable")
        return True, "keyed by the item; loop body effects: " + ", ".join(sorted(short(e) for e in eff))
    return False, f"unknown guard kind {g!r}"


def short(n):
    return re.sub(r"\b(?:[a-z_][a-z0-9_]*::)+(?=[A-Z<])", "", n)


def closure_of_arg(f, call):
    """The closure body passed to `call` (captured closures are aggregates, capture-less ones are typed constants)."""
    for a in call.args:
        o = f.origin(a)
        if o.get("kind") == "agg" and "closure" in o["rv"]:
            g = find_closure(f, o["rv"]["closure"])
            if g is not None:
                return g
    for t in call.arg_types:
        m = re.match(r"^\{closure@([^:]+):(\d+):(\d+)", t)
        if m:
            for g in f.crate.closures_of(f):
                sp = g.d.get("sp", {})
                if sp.get("f") == m.group(1) and sp.get("l") == int(m.group(2)) and sp.get("c", int(m.group(3))) == int(m.group(3)):
                    return g
    return None


def check_then(site, term, blocks, extra):
    """`then` clause of a commutative loop: the order-sensitive local the body fills (e.g. a LiveTypes) is afterwards
    only read through `only` and that iterator ends in a hash container."""
    f = site.f
    nb = term[1].bb
    after = f.reachable(nb) - blocks - {nb}
    ty = extra["local_type"]
    users = [c for c in f.calls() if c.bb in after and c.arg_types and ty in c.arg_types[0]]
    only = extra["only"]
    bad = [short_callee(c) for c in users if not any(mir.suffix_match(mir.norm(c.callee), o) for o in only)]
    if bad:
        return False, f"the {ty} filled in hash order is afterwards used by " + ", ".join(bad)
    n = 0
    for c in users:
        s2 = Site(site.crate, f, c, "derived", c.arg_types[0], c.args[0])
        st, tm, _ = chain(s2)
        if tm[0] in ("unused",):
            continue
        n += 1
        if not (tm[0] in ("collect", "extend") and is_hash_ty(tm[2])):
            return False, f"the {ty} filled in hash order flows to terminal {tm[0]} (expected a hash container)"
    if n == 0 and returned_type_is(f, ty):
        return False, f"the {ty} filled in hash order is returned"
    return True, ""


def returned_type_is(f, ty):
    return ty in f.locals[0]


# ---------------------------------------------------------------------------------------------------------------
# the rule module
# ---------------------------------------------------------------------------------------------------------------
def hashy_adts(crates):
    """base name -> why, for workspace ADTs that contain a std hash container directly or through another one."""
    adts = {}
    for c in crates.values():
        for path, a in c.adts.items():
            adts.setdefault(path.rsplit("::", 1)[-1], []).append(a)
    hashy = {}
    changed = True
    while changed:
        changed = False
        for name, lst in adts.items():
            if name in hashy:
                continue
            for a in lst:
                for v in a["variants"]:
                    for fname, fty in v["fields"]:
                        m = re.search(r"std::collections::(HashMap|HashSet)<", fty)
                        if m:
                            hashy[name] = f"a {m.group(1)} (field `{fname}`)"
                        else:
                            for w in set(re.findall(r"[A-Za-z_][A-Za-z0-9_]*", fty)):
                                if w in hashy and w != name:
                                    hashy[name] = f"{w} (field `{fname}`)"
                        if name in hashy:
                            break
                    if name in hashy:
                        break
                if name in hashy:
                    break
            if name in hashy:
                changed = True
    return hashy


def load_table():
    with open(TABLE) as fh:
        t = json.load(fh)
    idx = {}
    for e in t["sites"]:
        k = (e["crate"], e["fn"], e["recv"], e["callee"])
        idx.setdefault(k, []).append(e)
    return t, idx


def run(rep, tier):
    rep.describe(
        "other",
        "R15.1: every call in wit_bindgen_core, the eight backends, the CLI and the proc macro that yields the elements "
        "of a std HashMap/HashSet in iteration order (iter/keys/values/drain/retain/set operations/IntoIterator/"
        "Extend-from/Debug) is inventoried from type-resolved MIR and must be listed in rules/c15_sites.json; the guard "
        "recorded there is re-derived on every run (consumer chain to a hash/BTree sink or a post-dominating sort; "
        "loop-body effect set within the triaged allow-list; keyed Files::push with a per-iteration key and no write to "
        "the shared generator). R15.2: Files is a BTreeMap, its methods touch nothing else, consumers enumerate it only "
        "through Files::iter. R15.3/R15.4: no clock, explicit RandomState, thread, pointer formatting, environment "
        "variable, subprocess or file-system probe outside the enumerated sites. NOT decided: determinism of the "
        "dependencies (wit-parser, wit-component, heck, prettyplease, external gofmt/clang-format), Debug output of "
        "structs that contain a hash container, byte equality of two real runs.",
        trusted_base=["rustc nightly MIR (opt-level 0) of the workspace crates", "tools/mirfacts",
                      "rules/c15_sites.json (triage by reading the code; guards re-derived mechanically)",
                      "std: HashMap/HashSet are the only randomly seeded containers; IndexMap/BTreeMap iterate deterministically"],
        assumptions=["same WIT input, options, environment variables, tool versions and an empty output directory"],
    )
    rep.rule("R15.1", "every order-yielding use of a std HashMap/HashSet is in rules/c15_sites.json and its guard "
                      "(sorted_after / keyed_sink / commutative / lookup_only / returned) still holds on the MIR")
    rep.rule("R15.2", "Files is a BTreeMap; outputs are enumerated only through Files::iter; the CLI writes/compares "
                      "files only inside its single loop over Files::iter")
    rep.rule("R15.3", "no clock, explicit RandomState, thread, pointer formatting, pointer-to-integer cast, environment "
                      "variable or subprocess in the generator crates, the CLI or the macro outside the enumerated sites")
    rep.rule("R15.4", "no file-system probe (exists / metadata / read / read_dir / canonicalize) outside the enumerated "
                      "input-discovery and check-mode sites: output must not depend on what an earlier run wrote")
    crates = {}
    for cn, kind in CRATES:
        def ld(cn=cn, kind=kind):
            crates[cn if kind == "rlib" else f"{cn}[{kind}]"] = mir.load("ws", cn, kind)
        rep.guard("R15.1", f"facts:{cn}", ld)
    rep.guard("R15.1", "inventory", lambda: r1(rep, crates))
    rep.guard("R15.2", "files", lambda: r2(rep, crates))
    rep.guard("R15.3", "who-may-call", lambda: r3(rep, crates))


def r1(rep, crates):
    table, idx = load_table()
    # pass 1 finds the std sites; verified `returned` entries add their function to the vocabulary; pass 2 adds callers
    derived = []
    for _ in range(3):
        sites, lookups, unknown = inventory(crates, derived)
        more = []
        for s in sites:
            es = idx.get(s.key(), [])
            if es and es[min(s.ord, len(es) - 1)].get("guard") == "returned":
                st, tm, _ = chain(s)
                if tm[0] == "returned":
                    more.append(fn_key(s.f))
        more = sorted(set(more))
        if more == derived:
            break
        derived = more
    for f in {s.f.path: s.f for s in sites}.values():
        rep.saw(f)
    used = set()
    marked = {}
    nguarded = 0
    per_kind = {}
    for s in sites:
        es = idx.get(s.key(), [])
        inst = s.instance()
        loc = s.f.loc(s.call.bb)
        steps, term, mk = chain(s)
        marked.setdefault(s.f.path, set()).update(mk)
        if s.ord >= len(es):
            # The code may have moved to another function of the same crate (helper extraction): a row for the same
            # container (receiver type and field path) and the same order-yielding call whose function no longer has
            # that site vouches for it, PROVIDED its guard is re-derived successfully on the site's new home.
            c_, fn_, recv_, callee_ = s.key()
            live_keys = {x.key() for x in sites}
            cands = [e for k_, rows in idx.items() for e in rows
                     if k_[0] == c_ and k_[2] == recv_ and k_[3] == callee_ and k_[1] != fn_ and id(e) not in used
                     and k_ not in live_keys]
            moved = None
            for e in cands:
                ok_m, d_m = check_guard(rep, s, e, crates, steps, term, mk)
                if ok_m and e.get("guard") != "unordered":
                    moved = (e, d_m)
                    break
            if moved is not None:
                e, d_m = moved
                used.add(id(e))
                g = e.get("guard")
                per_kind[g] = per_kind.get(g, 0) + 1
                nguarded += 1
                rep.ob("R15.1", inst, True, f"guard `{g}` of the row for {e['fn']} (the iteration moved here): {d_m}", loc)
                continue
            ok, d = auto_guard(s, steps, term)
            rep.ob("R15.1", inst, False,
                   f"hash-order site is not in the triage table rules/c15_sites.json (chain: {'>'.join(steps) or '-'}; {d})", loc)
            continue
        e = es[s.ord]
        used.add(id(e))
        ok, d = check_guard(rep, s, e, crates, steps, term, mk)
        g = e.get("guard")
        per_kind[g] = per_kind.get(g, 0) + 1
        if g != "unordered":
            nguarded += 1
        rep.ob("R15.1", inst, ok, f"guard `{g}`: {d}", loc)
    # hash iterators that no inventoried site produced (returned by another crate, stored in a struct, ...)
    for cname, c in crates.items():
        for f in c.fns.values():
            for call in f.calls():
                if call.bb in marked.get(f.path, ()):
                    continue
                if any(HASH_ITER.search(t) for t in call.arg_types) and not any(
                        HASH_ITER.search(t) for t in f.locals[1:f.argc + 1]):
                    rep.ob("R15.1", f"{cname}::{fn_key(f)}: {short_callee(call)} consumes a hash iterator of unknown origin",
                           False, "the iterator does not come from an inventoried site of this function", f.loc(call.bb))
    for cname, f, call, ty in unknown:
        rep.ob("R15.1", f"{cname}::{fn_key(f)}: {short_callee(call)} receives {short_ty(ty)}", False,
               "a hash container is handed to a function whose body is not in the analysed crates; it may iterate it",
               f.loc(call.bb))
    # stale rows: the table must describe the tree.  Exempt are repaired defects (`unordered`) and rows marked
    # `optional` - guarded uses of a container that the recommended repair turns into an ordered one.
    gone = 0
    for e in table["sites"]:
        if id(e) in used or e.get("guard") == "unordered":
            continue
        if e.get("optional"):
            gone += 1
            continue
        rep.ob("R15.1", f"table row {e['crate']}::{e['fn']}: {e['callee']} on {e['recv']}", False,
               "the triage table lists a site that no longer exists (re-triage the function)", "rules/c15_sites.json")
    rep.floor("R15.1", "guarded hash-order sites (plus optional rows whose container became ordered)", nguarded + gone, 21)
    rep.floor("R15.1", "hash-container lookups classified as order-free", lookups, 150)
    rep.floor("R15.1", "iterator-returning workspace functions followed to their callers", len(derived), 1)
    # Debug / Display of a workspace struct that (transitively) contains a hash container prints it in hash order
    hashy = hashy_adts(crates)
    nfmt = 0
    for cname, c in crates.items():
        for f in c.fns.values():
            for call in f.calls(re.compile(r"fmt::rt::Argument::(<'_>::)?new_\w+")):
                nfmt += 1
                t = call.arg_types[0] if call.arg_types else ""
                if not last_seg(mir.norm(call.callee)).startswith("new_debug"):
                    continue
                base = mir.base_type(t.lstrip("&").strip())
                if base in hashy:
                    rep.ob("R15.1", f"{cname}::{fn_key(f)}: Debug formatting of {base}, which contains {hashy[base]}", False,
                           "derive(Debug) prints the hash container in iteration order", f.loc(call.bb))
    rep.floor("R15.1", "format arguments inspected for hash-containing types", nfmt, 3000)
    # the fold used by the one commutative merge loop in core really is a boolean OR
    core = crates.get("wit_bindgen_core")
    if core is not None:
        f = core.method("TypeInfo", "bitor_assign", trait="BitOrAssign")
        rep.saw(f)
        ops = [s["rv"]["op"] for b in sorted(f.live) for s in f.stmts(b) if s["k"] == "=" and s["rv"]["k"] == "bin"]
        rep.ob("R15.1", "wit_bindgen_core::TypeInfo |= is a field-wise boolean OR (commutative, idempotent)",
               bool(ops) and all(o == "BitOr" for o in ops) and not [c for c in f.calls() if is_effect(c)],
               f"operators {sorted(set(ops))}", f.loc())
        rep.floor("R15.1", "OR-ed TypeInfo fields", len(ops), 8)


def r2(rep, crates):
    core = crates["wit_bindgen_core"]
    adt = core.adt("Files")
    fields = adt["variants"][0]["fields"]
    rep.ob("R15.2", "Files has a single field and it is a BTreeMap<String, Vec<u8>>",
           len(fields) == 1 and fields[0][1].startswith("std::collections::BTreeMap<std::string::String,"),
           f"{fields}", "crates/core/src/source.rs")
    meths = [f for f in core.fns.values() if f.d.get("self_ty") and mir.base_type(f.d["self_ty"]) == "Files"]
    rep.floor("R15.2", "methods of Files", len(meths), 4)
    for f in meths:
        rep.saw(f)
        bad = [short_callee(c) for c in f.calls() if HASH_NAME.search(" ".join(c.names())) or
               any(CONTAINER.match(t) or HASH_ITER.search(t) for t in c.arg_types)]
        rep.ob("R15.2", f"Files::{last_seg(f.npath)} touches no hash container", not bad, f"{bad}", f.loc())
    it = core.method("Files", "iter")
    bt = it.calls("BTreeMap::iter")
    rep.ob("R15.2", "Files::iter enumerates the BTreeMap (sorted by file name)",
           len(bt) == 1 and chain_returns(it, bt[0]), f"{len(bt)} BTreeMap::iter call(s); its adaptor must be the return value", it.loc())
    # consumers: every call on a Files outside core's own impl goes through its five methods; reading = Files::iter
    readers = 0
    ALLOWED = {"push", "iter", "default", "get_size", "remove"}
    uses = {}
    for cname, c in crates.items():
        for f in c.fns.values():
            if f.d.get("self_ty") and mir.base_type(f.d["self_ty"]) == "Files":
                continue
            for call in f.calls():
                n = mir.norm(call.callee)
                if re.search(r"(^|::)Files::\w+$", n) or re.search(r"^<(wit_bindgen_core::)?(source::)?Files as ", n):
                    m = last_seg(n)
                    if m == "iter":
                        readers += 1
                    uses.setdefault((cname, fn_key(f), m), []).append((f, call))
                elif call.arg_types and re.match(r"^&?(mut )?(wit_bindgen_core::)?(source::)?Files$", call.arg_types[0]) \
                        and STD.search(n) and not NOISE.search(n) and not MOVERS.search(n):
                    rep.ob("R15.2", f"{cname}::{fn_key(f)} hands Files to {short(n)}", False,
                           "Files is read by something else than Files::iter", f.loc(call.bb))
    for (cname, fn, m), lst in sorted(uses.items()):
        f, call = lst[0]
        rep.saw(f)
        rep.ob("R15.2", f"{cname}::{fn} uses Files through Files::{m}", m in ALLOWED,
               f"{len(lst)} call(s); only push/iter/get_size/remove/default exist on a BTreeMap-backed Files", f.loc(call.bb))
    rep.floor("R15.2", "(function, Files method) pairs outside core", len(uses), 23)
    rep.floor("R15.2", "Files::iter consumers (CLI, macro, generate_to_out_dir)", readers, 3)
    cli = crates.get("wit_bindgen[executable]")
    if cli is not None:
        main = cli.fn("main")
        rep.saw(main)
        its = main.calls("Files::iter")
        wr = main.calls(["std::fs::write", "std::fs::read"])
        # a private helper of the binary that reads / writes and is called only from main counts at its call site
        helper_io = {}
        for g in cli.fns.values():
            if g is main or "{closure" in fn_key(g):
                continue
            if g.calls(["std::fs::write", "std::fs::read"]):
                helper_io[fn_key(g)] = g
        for cl in main.calls():
            for hn, g in helper_io.items():
                if any(mir.norm(n).endswith("::" + hn) or mir.norm(n) == "crate::" + hn for n in cl.names()):
                    only_main = all(fn_key(x) == "main" or fn_key(x).startswith("main::") for x in cli.fns.values()
                                    for c2 in x.calls() if any(mir.norm(n).endswith("::" + hn) or mir.norm(n) == "crate::" + hn
                                                               for n in c2.names()))
                    if only_main:
                        wr = wr + [cl]
        rep.floor("R15.2", "fs::write / fs::read in the CLI's main", len(wr), 2)
        loops = []
        for it_ in its:
            st, tm, _ = chain(Site("wit_bindgen[executable]", main, it_, "derived", "", None))
            if tm[0] == "for":
                loops.append(loop_blocks(main, tm[1].bb))
        rep.ob("R15.2", "CLI: main enumerates the outputs with exactly one `for` over Files::iter",
               len(loops) == 1 and len(its) == 1,
               f"{len(its)} Files::iter call(s) in main, {len(loops)} of them drive a for loop", main.loc())
        inside = set().union(*loops) if loops else set()
        for w in wr:
            rep.ob("R15.2", f"CLI: {short_callee(w)} happens inside the loop over Files::iter", w.bb in inside,
                   "an output is written / compared outside the sorted enumeration of Files", main.loc(w.bb))
        # nothing else in the CLI writes files
        counted = {id(w) for w in wr}
        via_main = set()
        for cl in wr:
            if not cl.matches(["std::fs::write", "std::fs::read"]):
                via_main |= {hn for hn in helper_io if any(mir.norm(n).endswith("::" + hn) or mir.norm(n) == "crate::" + hn
                                                          for n in cl.names())}
        others = [(f, c) for f in cli.fns.values() for c in f.calls(["std::fs::write", "std::fs::File::create"])
                  if f is not main and fn_key(f) not in via_main]
        rep.ob("R15.2", "CLI: no output is written outside main's loop", not others,
               ", ".join(fn_key(f) for f, _ in others), main.loc())


def chain_returns(f, call):
    cur = call
    for _ in range(8):
        if returned(f, cur):
            return True
        cons = consumers(f, cur)
        if len(cons) != 1:
            return False
        cur = cons[0]
        if last_seg(mir.norm(cur.callee)) not in ADAPTORS:
            return False
    return False


# R15.3 / R15.4 ------------------------------------------------------------------------------------------------
FORBIDDEN = [
    ("clock", re.compile(r"std::time::(SystemTime|Instant)::now|SystemTime::elapsed|chrono::|time::OffsetDateTime")),
    ("explicit RandomState / random source", re.compile(r"RandomState::new|std::hash::RandomState|rand::|getrandom|fastrand|ahash::")),
    ("thread", re.compile(r"std::thread::(spawn|scope|Builder)|thread::Scope::.*spawn|rayon::")),
    ("pointer formatting", re.compile(r"fmt::rt::Argument::new_pointer|fmt::Pointer")),
    ("process id / temp dir / cwd", re.compile(r"std::process::id|std::env::(temp_dir|current_dir|current_exe|home_dir)")),
    ("environment variable", re.compile(r"std::env::(var|var_os|vars|vars_os|args|args_os)\b")),
    ("subprocess", re.compile(r"std::process::Command::new")),
    ("file-system probe", re.compile(r"std::path::Path::(exists|try_exists|is_file|is_dir|metadata|symlink_metadata|read_dir|read_link|canonicalize)"
                                     r"|std::fs::(read|read_to_string|read_dir|metadata|symlink_metadata|canonicalize|exists|File::open)\b")),
]
# (crate, function, what) -> reason it cannot make two runs differ
KNOWN = {
    ("wit_bindgen_rust", "RustWasm::generate_to_out_dir", "environment variable"):
        "build-script helper: OUT_DIR only chooses where the single generated file is written, never its contents or name",
    ("wit_bindgen_rust_macro[procmacro]", "parse_source", "environment variable"):
        "CARGO_MANIFEST_DIR anchors the relative WIT paths of the macro input (input location, part of 'same input')",
    ("wit_bindgen_rust_macro[procmacro]", "Config::expand", "environment variable"):
        "WIT_BINDGEN_DEBUG: debug switch, replaces the token stream by include!(file) of the same text",
    ("wit_bindgen[executable]", "main", "environment variable"):
        "args_os().nth(0): the executable's own path handed to the `test` subcommand, not a generator input",
    ("wit_bindgen_rust_macro[procmacro]", "parse_source", "file-system probe"):
        "tests whether the default `wit` input directory exists and canonicalises input paths (input discovery)",
    ("wit_bindgen[executable]", "main", "file-system probe"):
        "check mode reads the previously generated file to compare it: this is the comparison itself",
    ("wit_bindgen_go", "maybe_gofmt", "thread"):
        "scoped thread that only feeds gofmt's stdin; joined before the function returns, output is gofmt's stdout",
    ("wit_bindgen_go", "maybe_gofmt", "subprocess"):
        "external formatter gofmt (pure function of its stdin for a fixed tool version; falls back to unformatted text)",
    ("wit_bindgen_cpp", "Cpp::clang_format", "subprocess"):
        "external formatter clang-format behind --format (pure function of its stdin for a fixed tool version)",
}


def r3(rep, crates):
    hits = {}
    for cname, c in crates.items():
        for f in c.fns.values():
            for call in f.calls():
                names = " ".join(mir.norm(n) for n in call.names())
                for what, rx in FORBIDDEN:
                    if rx.search(names):
                        # closures are attributed to the function that contains them
                        owner = re.sub(r"(::\{closure#\d+\})+$", "", fn_key(f))
                        hits.setdefault((cname, owner, what), []).append((f, call))
    seen_known = set()

    def callers_of(cname, fname):
        c = crates[cname]
        out = set()
        for g in c.fns.values():
            for cl in g.calls():
                if any(mir.norm(n).split("::")[-1] == fname.split("::")[-1] and
                       (mir.norm(n).endswith("::" + fname) or mir.norm(n) == "crate::" + fname) for n in cl.names()):
                    out.add(re.sub(r"(::\{closure#\d+\})+$", "", fn_key(g)))
        return out

    def vouching_owner(cname, fn, what, depth=3):
        """the enumerated function that is the only (transitive) caller of helper `fn`, if any"""
        cur = {fn}
        for _ in range(depth):
            nxt = set()
            for x in cur:
                cs = callers_of(cname, x)
                if not cs:
                    return None
                nxt |= cs
            if all((cname, x, what) in KNOWN for x in nxt) and len(nxt) == 1:
                return next(iter(nxt))
            cur = nxt
        return None
    for (cname, fn, what), lst in sorted(hits.items()):
        f, call = lst[0]
        rep.saw(f)
        rule = "R15.4" if what == "file-system probe" else "R15.3"
        why = KNOWN.get((cname, fn, what))
        if why:
            seen_known.add((cname, fn, what))
        else:
            own = vouching_owner(cname, fn, what)
            if own is not None:
                why = f"private helper reached only from {own}: " + KNOWN[(cname, own, what)]
                seen_known.add((cname, own, what))
        callee = ", ".join(sorted({short_callee(c) for _, c in lst}))
        rep.ob(rule, f"{what} in {cname}::{fn} ({callee})", why is not None,
               why or f"{what} in a generator path: two runs on the same input can differ", f.loc(call.bb))
    rep.floor("R15.3", "enumerated environment / thread / subprocess / probe sites still present", len(seen_known), 9)
    # every generator crate was scanned
    for g in GENERATORS:
        rep.ob("R15.3", f"{g}: scanned for clocks, random state, threads, pointer formatting, env, subprocesses",
               g in crates and len(crates[g].fns) > 20, "", nontrivial=False)
    # pointer -> integer casts (addresses used as data)
    for cname, c in crates.items():
        for f in c.fns.values():
            for b in sorted(f.live):
                for s in f.stmts(b):
                    if s["k"] == "=" and s["rv"]["k"] == "cast" and "Expose" in s["rv"].get("ck", ""):
                        rep.ob("R15.3", f"address taken as an integer in {cname}::{fn_key(f)}", False,
                               "pointer-to-integer cast: addresses differ between processes", f.loc(b))


def _skeleton():
    """Developer aid: print the current inventory in the table's format."""
    crates = {}
    for cn, kind in CRATES:
        crates[cn if kind == "rlib" else f"{cn}[{kind}]"] = mir.load("ws", cn, kind)
    try:
        _, idx = load_table()
    except Exception:
        idx = {}
    derived = [e[1] for e, v in idx.items() if v[0].get("guard") == "returned"]
    sites, lookups, unknown = inventory(crates, derived)
    out = []
    for s in sites:
        st, tm, _ = chain(s)
        ok, d = auto_guard(s, st, tm)
        c, fn, recv, callee = s.key()
        row = {"crate": c, "fn": fn, "recv": recv, "callee": callee, "_chain": ">".join(st), "_terminal": tm[0],
               "_auto": [ok, d], "_line": s.call.line}
        if tm[0] in ("for", "for_each"):
            row["_effects"] = sorted(loop_body(s, tm)[2])
        out.append(row)
    print(json.dumps(out, indent=1))
    print("lookups", lookups, "unknown", [(a, fn_key(b), short_callee(c)) for a, b, c, d in unknown])


if __name__ == "__main__":
    _skeleton()
