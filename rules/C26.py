"""C26 — fresh temporaries never collide with defined names (Ns::tmp / Ns::insert)."""
from lib import mir
from .rtcommon import bool_switches_on_call, every_return_passes

CLAIM = dict(
    level="proof", engine="mirfacts", design="DESIGN.md §5 C26",
    technique="MIR dominance proof over the two functions of `Ns` plus a who-may-write scan of the crate",
    text="Complete for the two functions that implement the namespace: the string `Ns::tmp` returns is the very value "
         "that was tested absent from `defined` on the dominating loop-exit edge, is not modified afterwards and is "
         "inserted before returning; `Ns::insert` reports a conflict exactly on the edge where the set already "
         "contained the name; nothing else in the crate mutates `defined` (the field is private to ns.rs). "
         "Trusted: std HashSet semantics.",
    note="mir")

MUT = ["HashSet::insert", "HashSet::remove", "HashSet::clear", "HashSet::retain", "HashSet::drain", "HashSet::take",
       "HashSet::replace", "HashSet::extend", "HashSet::get_or_insert_with", "HashSet::extract_if"]


def base_local(f, op):
    """local a reference/copy operand ultimately points at (following &, &*, copies)"""
    o = f.origin(op)
    if o.get("kind") == "place":
        return o.get("local")
    if o.get("kind") == "arg":
        return o.get("n")
    return None


def run(rep, tier):
    rep.describe(
        "proof",
        "All obligations of `Ns` discharged on MIR: (R26.1) in Ns::tmp every return is dominated by the false edge of "
        "`defined.contains(&ret)` on the returned local, no path from that edge to the return redefines it, and "
        "`defined.insert(ret.clone())` lies on every such path; (R26.2) Ns::insert constructs Err only on the false "
        "edge of HashSet::insert and Ok only on the true edge; (R26.3) HashSet-mutating calls on a `.defined` field "
        "occur only in those two functions. HashSet itself is trusted.",
        trusted_base=["std::collections::HashSet", "rustc MIR of wit-bindgen-core", "field privacy of Ns.defined (ns.rs is the only module that can name it)"],
    )
    c = mir.load("ws", "wit_bindgen_core", "rlib")

    def r1():
        f = c.method("Ns", "tmp")
        rep.saw(f)
        rets = f.returns()
        rep.ob("R26.1", "Ns::tmp has a single return", len(rets) == 1, f"{len(rets)}", f.loc())
        # the local moved into _0
        ret_locals = set()
        for b in f.live:
            for s in f.stmts(b):
                if s["k"] == "=" and s["p"]["l"] == 0 and not s["p"].get("p") and s["rv"]["k"] == "use":
                    op = s["rv"]["o"]
                    pl = op.get("mv") or op.get("cp")
                    if pl is not None and not pl.get("p"):
                        ret_locals.add(pl["l"])
        rep.ob("R26.1", "Ns::tmp returns one named local", len(ret_locals) == 1, f"{ret_locals}", f.loc())
        if len(ret_locals) != 1:
            return
        rl = next(iter(ret_locals))
        sws = bool_switches_on_call(f, "HashSet::contains")
        rep.floor("R26.1", "contains() tests in Ns::tmp", len(sws), 1)
        exit_edges = []
        for b, ft, tt in sws:
            call = f.switch_origin(b)["call"]
            recv = f.origin(call.args[0])
            tested = base_local(f, call.args[1])
            rep.ob("R26.1", "the membership test is on self.defined and on the returned local",
                   ".defined" in "".join(recv.get("proj", [])) and tested == rl,
                   f"receiver {recv.get('place')} tested local _{tested}, returned _{rl}", f.loc(b))
            exit_edges.append((b, ft))
        for r in rets:
            rep.ob("R26.1", "every return is reached only through the `not contained` edge",
                   all(r in f.edge_region(b, ft) for b, ft in exit_edges) and bool(exit_edges),
                   "a path returns a name without testing it", f.loc(r))
        for b, ft in exit_edges:
            region = f.reachable(ft)
            redefs = [(bb, i) for (bb, i, kind, _) in f.defs.get(rl, []) if bb in region and bb not in (b,) and
                      not (bb in f.reachable(b, avoid_edges=[(b, ft)]) and bb not in f.edge_region(b, ft))]
            redefs = [(bb, i) for bb, i in redefs if bb in f.edge_region(b, ft)]
            er = f.edge_region(b, ft)
            mut_borrows = [(bb, i) for bb in er for i, s in enumerate(f.stmts(bb))
                           if s["k"] == "=" and s["rv"]["k"] in ("ref", "rawptr") and s["rv"].get("m", s["rv"]["k"] == "rawptr")
                           and s["rv"]["p"]["l"] == rl]
            rep.ob("R26.1", "the tested name is not modified between the test and the return", not redefs and not mut_borrows,
                   f"redefinition in blocks {redefs}, mutable borrows {mut_borrows}", f.loc(b))
            ins = [x for x in f.calls("HashSet::insert") if x.bb in region]
            ok = bool(ins) and f.all_paths_pass(ft, rets, [x.bb for x in ins])
            rep.ob("R26.1", "the returned name is inserted into `defined` on every path to the return", ok, "", f.loc(b))
            for x in ins:
                o = f.origin(x.args[1])
                from_clone = o.get("kind") == "call" and o["call"].matches("Clone>::clone") and \
                    base_local(f, o["call"].args[0]) == rl
                rep.ob("R26.1", "what is inserted is a clone of the returned name", from_clone or base_local(f, x.args[1]) == rl,
                       f"{o.get('kind')}", f.loc(x.bb))
    rep.guard("R26.1", "Ns::tmp", r1)

    def r2():
        f = c.method("Ns", "insert")
        rep.saw(f)
        sws = bool_switches_on_call(f, "HashSet::insert")
        rep.floor("R26.2", "HashSet::insert result tests in Ns::insert", len(sws), 1)
        for b, ft, tt in sws:
            rf, rt_ = f.edge_region(b, ft), f.edge_region(b, tt)
            errs = [bb for bb, _, _, _ in f.aggregates("Result", "Err")]
            oks = [bb for bb, _, _, _ in f.aggregates("Result", "Ok")]
            rep.ob("R26.2", "Err is constructed only where the name was already present", bool(errs) and all(e in rf for e in errs),
                   f"Err sites {errs}", f.loc(b))
            rep.ob("R26.2", "Ok is constructed only where the name was newly inserted", bool(oks) and all(o in rt_ for o in oks),
                   f"Ok sites {oks}", f.loc(b))
            recv = f.origin(f.switch_origin(b)["call"].args[0])
            rep.ob("R26.2", "the insertion is into self.defined", ".defined" in "".join(recv.get("proj", [])), "", f.loc(b))
        rep.ob("R26.2", "every return passes the insertion test", every_return_passes(f, [b for b, _, _ in sws]), "", f.loc())
    rep.guard("R26.2", "Ns::insert", r2)

    def r3():
        sites = 0
        for f in c.fns.values():
            for call in f.calls(MUT):
                if not call.args:
                    continue
                o = f.origin(call.args[0])
                if ".defined" in "".join(x for x in o.get("proj", []) if isinstance(x, str)) and \
                        "Ns" in (f.locals[o["n"]] if o.get("kind") == "arg" else ""):
                    sites += 1
                    owner = f.npath.split("::")[-2:]
                    rep.ob("R26.3", f"mutation of Ns.defined in {'::'.join(owner)}",
                           owner[0] == "Ns" and owner[1] in ("insert", "tmp"), "namespace mutated outside insert/tmp", f.loc(call.bb))
        rep.floor("R26.3", "mutation sites of Ns.defined", sites, 2)
        from lib import synq
        sd = [it for it in synq.items_of("crates/core/src/ns.rs", ("struct_def",)) if it["name"] == "Ns"]
        rep.ob("R26.3", "Ns.defined is private to its module", len(sd) == 1 and
               [x["vis"] for x in sd[0]["fields"] if x["name"] == "defined"] == [""], "", "crates/core/src/ns.rs")
        a = c.adt("ns::Ns")
        fields = [n for n, _ in a["variants"][0]["fields"]]
        rep.ob("R26.3", "Ns has the `defined` set field", "defined" in fields, f"{fields}", "crates/core/src/ns.rs")
    rep.guard("R26.3", "only writers", r3)
