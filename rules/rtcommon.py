"""Shared helpers for the runtime-crate rule modules (C07, C08, C18-C24)."""
from lib import mir

QUICK = ["full"]
THOROUGH = ["full", "async_std", "async_nostd", "default"]


def configs(tier):
    return THOROUGH if tier == "thorough" else QUICK


def rt(config):
    return mir.load(config, "wit_bindgen", "rlib")


def is_true_edge(vals):
    """switch on a bool: the `true` edge is the `else` target (switchInt(x) [0 -> F] else T)."""
    return "else" in vals and 0 not in vals


def is_false_edge(vals):
    return 0 in vals and "else" not in vals


def origin_is_call(o, pat):
    return o.get("kind") == "call" and o["call"].matches(pat)


def every_return_passes(f, blocks, frm=0):
    """Every path frm -> return passes one of `blocks`."""
    return f.all_paths_pass(frm, f.returns(), blocks)


def bool_switches_on_call(f, pat):
    """switch blocks whose discriminant is the bool result of a call matching pat.
    Returns list of (switch_bb, false_target, true_target)."""
    out = []
    for b, t in f.switches():
        o = f.switch_origin(b)
        neg = False
        while o.get("kind") == "un" and o.get("op") == "Not":
            o = o["a"]
            neg = not neg
        if origin_is_call(o, pat):
            tg = f.switch_targets(b)
            ft, tt = tg.get(0), tg["else"]
            if neg:
                ft, tt = tt, ft
            out.append((b, ft, tt))
    return out


def discr_switches(f, place_pred=None, ty_sub=None):
    """switches on an enum discriminant; returns list of (bb, {variant_name: target, 'else': target}, origin)."""
    out = []
    for b, t in f.switches():
        o = f.switch_origin(b)
        if o.get("kind") != "discr":
            continue
        if ty_sub and ty_sub not in o["ty"]:
            continue
        if place_pred and not place_pred(o):
            continue
        tg = f.switch_targets(b)
        m = {}
        for v, tb in tg.items():
            if v == "else":
                m["else"] = tb
            else:
                m[o["vars"].get(v, str(v))] = tb
        # name the variants covered by `else`
        rest = [n for v, n in o["vars"].items() if v not in tg]
        m["_else_variants"] = rest
        out.append((b, m, o))
    return out


def variant_target(m, name):
    """target block for enum variant `name` in a discr switch map (explicit or through else)."""
    if name in m:
        return m[name]
    if name in m.get("_else_variants", []):
        return m["else"]
    return None


def region_from(f, sw, target):
    """blocks only reachable through edge sw->target"""
    return f.edge_region(sw, target)


def calls_in(f, blocks, pat):
    return [c for c in f.calls(pat) if c.bb in blocks]


def ind_calls(f, field=None):
    """indirect calls (fn pointer); optionally those whose pointer was read from a place ending in .field"""
    out = []
    for c in f.calls():
        if c.ind is None:
            continue
        if field is None:
            out.append(c)
            continue
        o = f.origin(c.ind)
        pr = o.get("proj", [])
        if ("." + field) in pr or o.get("place", "").endswith("." + field):
            out.append(c)
    return out
