"""C02 — call glue: limits, exactly one core/interface call and one terminal return per path, guarded free."""
import os
import re

from lib import facts, mir, synq
from .rtcommon import discr_switches, variant_target, is_true_edge, is_false_edge, bool_switches_on_call

CLAIM = dict(
    level="other", engine="mirfacts", design="DESIGN.md §5 C02",
    technique="MIR path rules on Generator::call: exactly-once / must-pass-through of instruction construction sites, "
              "guard dominance by variant / sig.indirect_params / async_, constant equality with wit-parser; "
              "syntax-tree rules (capacity algebra, argument positions, task.return flattening arms)",
    text="Decides on the MIR of the shared generator that the flat-parameter limits equal the canonical ABI's and "
         "wit-parser's, that each direction of `call` constructs exactly one CallWasm / CallInterface and exactly one "
         "terminal Return or AsyncTaskReturn on every path (and nothing is emitted after it), that the caller-allocated "
         "parameter record is freed at one loop-free site guarded by export variant, indirect params and sync, that "
         "Malloc is only used for GuestExport lowering, and that the exit is dominated by the generator's own "
         "stack-empty / realloc-cleared assertions; on the syntax tree: the capacity of the flat buffer (R2.7), which core "
         "argument carries the return pointer / parameter record / flat values (R2.8), and that task.return of an async "
         "export receives flat_types(result, max_flat_params) decided by the result type alone, one pointer exactly when "
         "that overflowed (R2.9). Whether the flat/indirect decision is right for a signature is "
         "wit-parser's `wasm_signature` (trusted).",
    note="mir")


def field_of(o):
    return [p for p in o.get("proj", []) if isinstance(p, str) and p.startswith(".")]


def run(rep, tier):
    rep.describe(
        "other",
        "Structural clauses of C02 on Generator::call (crates/core/src/abi.rs): R2.1 limits; R2.2 one CallWasm / "
        "CallInterface per direction on every path; R2.3 exactly one terminal return instruction per path, last emit, "
        "AsyncTaskReturn only under async_ (or where async flat results exist); R2.4 GuestDeallocate and Malloc guards; "
        "R2.5 the async flat limit only for (GuestImportAsync, async); R2.6 exit assertions. Not decided: correctness of "
        "wasm_signature, return-area offsets, what backends do with the instructions.",
        trusted_base=["rustc MIR of wit-bindgen-core", "wit-parser wasm_signature / constants (source read as oracle)",
                      "canonical ABI: MAX_FLAT_PARAMS = 16, async lower MAX_FLAT_ASYNC_PARAMS = 4, MAX_FLAT_RESULTS = 1"],
    )
    c = mir.load("ws", "wit_bindgen_core", "rlib")
    f = c.method("Generator", "call")
    rep.saw(f)
    rets = f.returns()

    # parameter positions by type
    def arg_of(ty_sub):
        a = [i for i in range(1, f.argc + 1) if ty_sub in f.locals[i]]
        if len(a) != 1:
            raise mir.AnchorMissing(f"Generator::call parameter of type {ty_sub}: {a}")
        return a[0]
    a_variant, a_ll, a_async = arg_of("AbiVariant"), arg_of("LiftLower"), arg_of("bool")

    # ---- R2.1
    def r1():
        rep.ob("R2.1", "abi::MAX_FLAT_PARAMS == 16", c.const("abi::MAX_FLAT_PARAMS") == 16, "", "crates/core/src/abi.rs")
        rep.ob("R2.1", "abi::MAX_FLAT_ASYNC_PARAMS == 4", c.const("abi::MAX_FLAT_ASYNC_PARAMS") == 4, "", "crates/core/src/abi.rs")
        d = facts.registry_src("wit-parser")
        src = open(os.path.join(d, "src/abi.rs")).read()
        for nm, v in (("MAX_FLAT_PARAMS", 16), ("MAX_FLAT_ASYNC_PARAMS", 4), ("MAX_FLAT_RESULTS", 1)):
            m = re.search(r"pub const %s: usize = (\d+);" % nm, src)
            rep.ob("R2.1", f"wit-parser {nm} == {v} (same limit the generator uses)", m is not None and int(m.group(1)) == v,
                   f"{m.group(1) if m else None}", "wit-parser/src/abi.rs")
    rep.guard("R2.1", "limits", r1)

    # the direction dispatch is the `match lift_lower` directly on the parameter (not the (variant, lift_lower, async_) tuple)
    ll = [(b, m, o) for b, m, o in discr_switches(f, ty_sub="LiftLower") if o["place"] == "_%d" % a_ll]
    rep.ob("R2.2", "one dispatch on lift_lower", len(ll) == 1, f"{len(ll)}", f.loc())
    if len(ll) != 1:
        return
    sw, m, _ = ll[0]
    lower_entry = variant_target(m, "LowerArgsLiftResults")
    lift_entry = variant_target(m, "LiftArgsLowerResults")
    lower_reg = f.edge_region(sw, lower_entry)
    lift_reg = f.edge_region(sw, lift_entry)
    emits = f.calls("Generator::emit")

    # Private helpers of the generator that `call` delegates to are transparent: an instruction built unconditionally
    # (on every path, outside a loop) by a non-recursive `Generator::*` helper counts as built at the call site.
    def helper_of(cl):
        nm = [n for n in cl.names() if "::Generator::" in n or n.startswith("crate::abi::Generator")]
        if not nm:
            return None
        g = c.method("Generator", mir.norm(nm[0]).split("::")[-1], required=False)
        if g is None or g is f or g.npath.split("::")[-1] in ("emit", "call", "lower", "lift", "write_to_memory", "read_from_memory"):
            return None
        return g

    def helper_sites(g, variant, depth=2):
        """(unconditional, conditional) construction sites of Instruction::<variant> inside helper g (transitively)"""
        unc, cond = 0, 0
        for bb, i, rv, s_ in g.aggregates("Instruction", variant):
            if all(g.set_dominates({bb}, r) for r in g.returns()) and not g.in_cycle(bb):
                unc += 1
            else:
                cond += 1
        if depth > 0:
            for cl in g.calls():
                h = helper_of(cl)
                if h is not None and h is not g:
                    u2, c2 = helper_sites(h, variant, depth - 1)
                    if all(g.set_dominates({cl.bb}, r) for r in g.returns()) and not g.in_cycle(cl.bb):
                        unc += u2
                        cond += c2
                    else:
                        cond += u2 + c2
        return unc, cond
    conditional_in_helper = []

    def sites(variant):
        out = [bb for bb, i, rv, s in f.aggregates("Instruction", variant)]
        for cl in f.calls():
            g = helper_of(cl)
            if g is None:
                continue
            u, cnd = helper_sites(g, variant)
            out += [cl.bb] * u
            if cnd:
                conditional_in_helper.append((variant, g.npath, cl.bb))
                out += [cl.bb] * cnd
        return out

    def calls_deep(pat, at_bb=None):
        """calls matching pat in `call` itself, plus (for the helper called at at_bb) inside that helper, transitively"""
        out = list(f.calls(pat))
        for cl in f.calls():
            g = helper_of(cl)
            if g is None or (at_bb is not None and cl.bb != at_bb):
                continue
            stack, seen = [g], set()
            while stack:
                h = stack.pop()
                if h.npath in seen:
                    continue
                seen.add(h.npath)
                if h.calls(pat):
                    out.append(cl)
                for c2 in h.calls():
                    h2 = helper_of(c2)
                    if h2 is not None:
                        stack.append(h2)
        return out

    def guards(bb):
        """guard edges of bb; a switch on a bool local whose definitions are all constants (`matches!`, `a && b`) is
        replaced by the guard edges of the definitions that store the taken value (one list per definition)."""
        base = f.guard_edges(bb)
        alts = []
        for sw_, vals, o in base:
            if o.get("kind") == "place" and "local" in o and not o.get("proj"):
                consts = []
                for (b_, i_, kind_, payload) in f.defs.get(o["local"], []):
                    oo = f.origin(payload["o"]) if kind_ == "assign" and payload.get("k") == "use" else {}
                    if oo.get("kind") != "const":
                        consts = None
                        break
                    consts.append((b_, oo.get("v")))
                if consts:
                    want = vals != [0]
                    alts.append([f.guard_edges(b_) for b_, v in consts if bool(v) == want])
        return base, alts

    def emit_after(bb):
        """the emit call that consumes the instruction built in block bb (same block or next)"""
        r = f.reachable(bb)
        c_ = [e for e in emits if e.bb in r and f.dominates(bb, e.bb)]
        return min(c_, key=lambda e: len(f.dom[e.bb])) if c_ else None

    # ---- R2.2
    def r2():
        for variant, entry, reg, nm in (("CallWasm", lower_entry, lower_reg, "LowerArgsLiftResults"),
                                        ("CallInterface", lift_entry, lift_reg, "LiftArgsLowerResults")):
            s = sites(variant)
            rep.ob("R2.2", f"exactly one {variant} construction site", len(s) == 1, f"{len(s)}", f.loc())
            for bb in s:
                rep.ob("R2.2", f"{variant} is built in the {nm} direction only", bb in reg, "", f.loc(bb))
                rep.ob("R2.2", f"{variant} is not in a loop", not f.in_cycle(bb), "", f.loc(bb))
                rep.ob("R2.2", f"every path of {nm} that returns passes {variant}", f.all_paths_pass(entry, rets, [bb]),
                       "a path performs no core/interface call", f.loc(bb))
                e = emit_after(bb)
                rep.ob("R2.2", f"{variant} is passed to emit", e is not None, "", f.loc(bb))
    rep.guard("R2.2", "one call", r2)

    # ---- R2.3
    def r3():
        term = sites("Return") + sites("AsyncTaskReturn")
        rep.floor("R2.3", "terminal return-instruction sites in call", len(term), 2)
        for entry, reg, nm in ((lower_entry, lower_reg, "LowerArgsLiftResults"), (lift_entry, lift_reg, "LiftArgsLowerResults")):
            here = [t for t in term if t in reg]
            rep.ob("R2.3", f"{nm}: every returning path emits a terminal Return/AsyncTaskReturn", bool(here) and
                   f.all_paths_pass(entry, rets, here), "", f.loc(entry))
            for t in here:
                others = [x for x in here if x != t and x in f.reachable(t)]
                rep.ob("R2.3", f"{nm}: no second terminal return after one was emitted", not others and not f.in_cycle(t),
                       f"{others}", f.loc(t))
                e = emit_after(t)
                later = [x for x in emits if e is not None and x.bb != e.bb and x.bb in f.reachable(e.bb)]
                rep.ob("R2.3", f"{nm}: the terminal return is the last instruction emitted", e is not None and not later,
                       f"emit calls after it at {[f.loc(x.bb) for x in later]}", f.loc(t))
        # AsyncTaskReturn in the lowering direction only under async_ = true; Return only under false
        for t in sites("AsyncTaskReturn"):
            if t in lower_reg:
                g = [(vals, o) for _, vals, o in f.guard_edges(t) if o.get("kind") == "arg" and o.get("n") == a_async]
                rep.ob("R2.3", "LowerArgsLiftResults: AsyncTaskReturn only when async_", any(is_true_edge(v) for v, _ in g), "", f.loc(t))
        for t in sites("Return"):
            g = [(vals, o) for _, vals, o in f.guard_edges(t) if o.get("kind") == "arg" and o.get("n") == a_async]
            rep.ob("R2.3", "Return (plain) only when not async_", any(is_false_edge(v) for v, _ in g), "", f.loc(t))
    rep.guard("R2.3", "terminal return", r3)

    # ---- R2.4
    def r4():
        gd = sites("GuestDeallocate")
        rep.ob("R2.4", "exactly one GuestDeallocate site (the parameter record is freed once)", len(gd) == 1, f"{len(gd)}", f.loc())
        for bb in gd:
            ge, alts = guards(bb)

            def export_only(edges):
                for sw_, vals, o in edges:
                    if o.get("kind") == "discr" and "AbiVariant" in o.get("ty", ""):
                        names = {o["vars"].get(v) for v in vals if v != "else"}
                        if "else" not in vals and names and names <= {"GuestExport", "GuestExportAsync", "GuestExportAsyncStackful"}:
                            return True
                return False
            var_ok = export_only(ge) or any(a and all(export_only(e) for e in a) for a in alts)
            ind_ok = any(".indirect_params" in field_of(o) and is_true_edge(vals) for _, vals, o in ge)
            sync_ok = any(o.get("kind") == "arg" and o.get("n") == a_async and is_false_edge(vals) for _, vals, o in ge) or \
                any(o.get("kind") == "un" and o.get("op") == "Not" and o["a"].get("kind") == "arg" and o["a"].get("n") == a_async
                    and is_true_edge(vals) for _, vals, o in ge)
            rep.ob("R2.4", "GuestDeallocate only for guest-export variants", var_ok, "", f.loc(bb))
            rep.ob("R2.4", "GuestDeallocate only when parameters were passed indirectly", ind_ok, "", f.loc(bb))
            rep.ob("R2.4", "GuestDeallocate only for synchronous lifting", sync_ok, "", f.loc(bb))
            rep.ob("R2.4", "GuestDeallocate not in a loop, in the lifting direction", not f.in_cycle(bb) and bb in lift_reg, "", f.loc(bb))
            # the record freed has the size/align of the parameter record: same sizes().record(params) shape as the Malloc site
            rec = [x for x in calls_deep("SizeAlign::record", at_bb=bb) if f.dominates(x.bb, bb) or x.bb == bb]
            rep.ob("R2.4", "the freed size/alignment comes from sizes().record(params)", bool(rec), "", f.loc(bb))
        rep.ob("R2.4", "the record free is unconditional inside the helper that performs it (guards are decided in `call`)",
               not [x for x in conditional_in_helper if x[0] == "GuestDeallocate"],
               f"{[x[1] for x in conditional_in_helper if x[0] == 'GuestDeallocate']}", f.loc())
        ml = sites("Malloc")
        rep.ob("R2.4", "exactly one Malloc site", len(ml) == 1, f"{len(ml)}", f.loc())
        for bb in ml:
            ge = f.guard_edges(bb)
            ok = False
            for sw_, vals, o in ge:
                if o.get("kind") == "discr" and "AbiVariant" in o.get("ty", ""):
                    names = {o["vars"].get(v) for v in vals if v != "else"}
                    if "else" not in vals and names == {"GuestExport"}:
                        ok = True
            rep.ob("R2.4", "Malloc only for AbiVariant::GuestExport in the lowering direction", ok and bb in lower_reg, "", f.loc(bb))
            rep.ob("R2.4", "Malloc only when parameters are indirect",
                   any(".indirect_params" in field_of(o) and is_true_edge(vals) for _, vals, o in ge), "", f.loc(bb))
    rep.guard("R2.4", "record free / malloc", r4)

    # ---- R2.5
    def r5():
        uses = []
        for b in f.live:
            for i, s in enumerate(f.stmts(b)):
                if s["k"] == "=" and s["rv"]["k"] == "use" and "c" in s["rv"]["o"] and \
                        str(s["rv"]["o"].get("def", "")).endswith("MAX_FLAT_ASYNC_PARAMS"):
                    uses.append((b, s))
                if s["k"] == "=" and s["rv"]["k"] == "use" and "c" in s["rv"]["o"] and s["rv"]["o"].get("v") == "4" and \
                        s["rv"]["o"].get("ty") == "usize" and "def" not in s["rv"]["o"]:
                    uses.append((b, s))
        rep.floor("R2.5", "uses of the async flat limit in call", len(uses), 1)
        chosen = 0
        for b, s in uses:
            ge = f.guard_edges(b)
            v_ok = any(o.get("kind") == "discr" and "AbiVariant" in o.get("ty", "") and "else" not in vals and
                       {o["vars"].get(v) for v in vals} == {"GuestImportAsync"} for _, vals, o in ge)
            a_ok = any(o.get("kind") == "arg" and o.get("n") == a_async and is_true_edge(vals) for _, vals, o in ge)
            if b in lift_reg and s["p"].get("p") is None and v_ok and a_ok:
                chosen += 1
            elif v_ok and a_ok:
                chosen += 1
            else:
                # other uses (e.g. the comparison `sig.results.len() > MAX_FLAT_ASYNC_PARAMS`) must be under async_
                rep.ob("R2.5", "other use of the async limit is under async_", a_ok, "", f.loc(b), nontrivial=False)
        rep.ob("R2.5", "the async flat limit is selected only for (GuestImportAsync, async_)", chosen >= 1, "", f.loc())
        # the default limit is the other arm: MAX_FLAT_PARAMS flows into flat_types(.., Some(max_flat_params))
        ft = [x for x in f.calls("abi::flat_types") if x.bb in lift_reg]
        rep.floor("R2.5", "flat_types calls in the lifting direction", len(ft), 2)
    rep.guard("R2.5", "async flat limit", r5)

    # ---- R2.6
    def r6():
        empt = bool_switches_on_call(f, "Vec::is_empty")
        final_stack = [(b, ft, tt) for b, ft, tt in empt if all(r in f.edge_region(b, tt) for r in rets)]
        rep.ob("R2.6", "every return is reached only through `self.stack.is_empty()` = true", len(final_stack) >= 1,
               "the generator's own no-value-left-unconsumed check is bypassed", f.loc())
        for b, ft, tt in final_stack:
            call = f.switch_origin(b)["call"]
            o = f.origin(call.args[0])
            rep.ob("R2.6", "the emptiness assertion is on self.stack", ".stack" in field_of(o), f"{o.get('place')}", f.loc(b))
            rep.ob("R2.6", "a non-empty stack never returns", not (f.reachable(ft) & set(rets)), "", f.loc(b))
        none = bool_switches_on_call(f, "Option::is_none")
        final_re = [(b, ft, tt) for b, ft, tt in none if all(r in f.edge_region(b, tt) for r in rets)
                    and ".realloc" in field_of(f.origin(f.switch_origin(b)["call"].args[0]))]
        rep.ob("R2.6", "every return is reached only through `self.realloc.is_none()` = true", len(final_re) >= 1, "", f.loc())
        entry_re = [(b, ft, tt) for b, ft, tt in none if f.dominates(b, sw) and ".realloc" in field_of(f.origin(f.switch_origin(b)["call"].args[0]))]
        rep.ob("R2.6", "realloc is asserted unset before either direction starts", len(entry_re) >= 1, "", f.loc())
        # wasm_signature is computed once from (variant, func) before dispatch
        ws = f.calls("wasm_signature")
        rep.ob("R2.6", "the core signature is computed once, before the direction dispatch, from the variant parameter",
               len(ws) == 1 and f.dominates(ws[0].bb, sw) and f.origin(ws[0].args[1]).get("n") == a_variant, "", f.loc())
    rep.guard("R2.6", "exit assertions", r6)


    # ---- R2.7 the flat buffer's capacity is exactly the limit (flat_types)
    def r7():
        f = synq.find_fn("crates/core/src/abi.rs", "flat_types")
        rep.saw("crates/core/src/abi.rs::flat_types")
        render = synq.render
        # the limit: `let L = <param>.unwrap_or(MAX_FLAT_PARAMS)`
        lim = [(nm, init) for nm, init, st in synq.bindings(f.body) if init is not None and init.get("k") == "mcall"
               and init["method"] == "unwrap_or" and render(init["args"][0]).endswith("MAX_FLAT_PARAMS")]
        rep.ob("R2.7", "flat_types: the limit defaults to MAX_FLAT_PARAMS", len(lim) == 1 and
               render(lim[0][1]["recv"]) in [p for p in f.params if p], f"{[render(i) for _, i in lim]}", f.loc())
        if len(lim) != 1:
            return
        L = lim[0][0]
        news = [c for c in synq.fn_calls(f.body, "new") if render(c["func"]).endswith("FlatTypes::new")]
        rep.ob("R2.7", "flat_types: one FlatTypes::new", len(news) == 1, f"{len(news)}", f.loc())
        if len(news) != 1:
            return

        def cap(e, depth=0):
            """symbolic capacity (rendered expression) of the slice expression e; None if not understood"""
            if depth > 6:
                return None
            k = e.get("k")
            if k == "ref":
                return cap(e["e"], depth + 1)
            if k == "mcall" and e["method"] in ("as_mut_slice", "as_mut", "as_slice", "deref_mut"):
                return cap(e["recv"], depth + 1)
            if k == "index" and e["index"].get("k") == "range":
                r = e["index"]
                if r.get("start") is not None and render(r["start"]) != "0":
                    return None
                if r.get("end") is None:
                    return cap(e["base"], depth + 1)
                end = render(r["end"])
                return end if r.get("limits") == ".." else f"({end} + 1)"
            if k == "path":
                for nm, init, st in synq.bindings(f.body):
                    if nm == e["path"] and init is not None:
                        return cap(init, depth + 1)
                return None
            if k == "mcall" and e["method"] == "collect":
                return cap(e["recv"], depth + 1)
            if k == "call" and render(e["func"]).endswith("repeat_n") and len(e["args"]) == 2:
                return render(e["args"][1])
            if k == "mcall" and e["method"] == "take" and len(e["args"]) == 1:
                return render(e["args"][0])
            if k == "macro" and synq.short(e["name"]) == "vec":
                if e.get("tokens"):
                    m = re.match(r".*;\s*(.+)$", e["tokens"])
                    return m.group(1).strip() if m else None
                st = e.get("stmts") or []
                # `vec![x; n]` is dumped as the two statements `x;` and `n`
                if len(st) == 2 and st[0].get("semi") and not st[1].get("semi") and st[1].get("k") == "expr_stmt":
                    return render(st[1]["e"])
                return None
            if k == "repeat":
                return render(e["len"])
            return None
        c_ = cap(news[0]["args"][0])
        rep.ob("R2.7", "flat_types: the flat buffer holds exactly `limit` values (one more would be passed flat)",
               c_ == L, f"capacity expression is `{c_}`, the limit is `{L}`", f.loc(news[0]))
        pf = synq.method_calls(f.body, "push_flat")
        # accepted shapes: `push_flat(..).then_some(v)`; `if !push_flat(..) { return None; } Some(v)`;
        # `if push_flat(..) { Some(v) } else { None }`
        shape = None
        if len(pf) == 1:
            if any(m["method"] == "then_some" and any(x is pf[0] for x in synq.walk(m["recv"]))
                   for m in synq.method_calls(f.body, "then_some")):
                shape = "then_some"
            for n in synq.walk(f.body):
                if n.get("k") != "if":
                    continue
                c = n["cond"]
                neg = c.get("k") == "unary" and c["op"] == "!" and c["e"] is pf[0]
                pos = c is pf[0]
                then = render(n["then"]).strip("{ };")
                els = render(n.get("else")).strip("{ };") if n.get("else") else None
                tail = f.body["stmts"][-1] if f.body.get("stmts") else None
                tail_s = render(tail.get("e")) if tail and tail.get("k") == "expr_stmt" and not tail.get("semi") else ""
                if neg and then in ("return None", "None") and (els is None and tail_s.startswith("Some(") or (els or "").startswith("Some(")):
                    shape = "early return None"
                if pos and then.startswith("Some(") and els in ("None", "return None"):
                    shape = "if/else"
        rep.ob("R2.7", "flat_types: None is returned exactly when push_flat overflows that buffer", shape is not None,
               f"{len(pf)} push_flat call(s); shape {shape}", f.loc())
    rep.guard("R2.7", "flat buffer capacity", r7)


    # ---- R2.8 which core argument carries what (lifting direction)
    def r8():
        fcall = synq.find_fn("crates/core/src/abi.rs", "call", self_ty="Generator")
        render = synq.render
        m0 = synq.find_match(fcall.body, "LiftLower::")
        lift_arm = synq.arm_for(m0, "LiftLower::LiftArgsLowerResults")
        # bodies of private Generator helpers the lifting arm delegates to (transitively, non-recursive walkers excluded)
        gens = {g.name: g for g in synq.all_fns("crates/core/src/abi.rs") if g.self_ty == "Generator" and g.body is not None}
        skip = {"emit", "call", "lower", "lift", "write_to_memory", "read_from_memory", "deallocate", "deallocate_indirect"}
        helper_bodies, todo, seen_h = [], [lift_arm.body], set()
        while todo:
            nd = todo.pop()
            for mc in synq.method_calls(nd):
                if render(mc["recv"]) == "self" and mc["method"] in gens and mc["method"] not in skip and mc["method"] not in seen_h:
                    seen_h.add(mc["method"])
                    helper_bodies.append(gens[mc["method"]].body)
                    todo.append(gens[mc["method"]].body)
        getargs = [n for nm, n in synq.constructed(lift_arm.body, ["GetArg"])]
        for hb in helper_bodies:
            getargs += [n for nm, n in synq.constructed(hb, ["GetArg"])]
        rep.floor("R2.8", "GetArg sites in the lifting direction", len(getargs), 4)
        # (a) the return pointer of an import is the LAST core parameter: the arm that writes func.result through a
        #     pointer obtained from GetArg uses nth = sig.params.len() - 1
        arms_ = [a for mm in synq.matches_in(lift_arm.body) for a in synq.arms(mm)]
        hit = 0
        for a in arms_:
            ga = [n for nm, n in synq.constructed(a.body, ["GetArg"])]
            wp = [c_ for c_ in synq.method_calls(a.body, "write_params_to_memory")]
            inner = [x for mm in synq.matches_in(a.body) for x in synq.arms(mm)]
            if ga and wp and not inner:
                hit += 1
                nth = [render(x["e"]) for x in ga[0].get("fields", []) if x["name"] == "nth"]
                rep.ob("R2.8", "lifting: the return pointer is read from the last core parameter (sig.params.len() - 1)",
                       nth == ["(sig.params.len() - 1)"], f"GetArg {{ nth: {nth} }}", fcall.loc(ga[0]))
                heads = ",".join(a.heads)
                rep.ob("R2.8", "lifting: that arm is the guest-import case with a return pointer",
                       any("GuestImport" in str(n_.get("path", "")) for n_ in synq.walk(a.pat)), heads[:120], fcall.loc(a.node))
        rep.ob("R2.8", "lifting: exactly one arm writes results through an argument pointer", hit == 1, f"{hit}", fcall.loc())
        # (b) indirect parameters and the record to free are core parameter 0
        zero = [n for n in getargs if [render(x["e"]) for x in n.get("fields", []) if x["name"] == "nth"] == ["0"]]
        rep.ob("R2.8", "lifting: the parameter record (read and freed) is core parameter 0", len(zero) >= 2, f"{len(zero)} sites", fcall.loc())
        # (c) flat parameters are numbered consecutively from 0: the counter starts at 0 in the direct branch, is the
        #     GetArg index, and is incremented by one per flat value
        cnt = [(nm, init, st) for nm, init, st in synq.bindings(lift_arm.body) if init is not None and render(init) == "0"
               and st["pat"].get("mut")]
        ok = False
        for nm, init, st in cnt:
            uses = [n for n in getargs if [render(x["e"]) for x in n.get("fields", []) if x["name"] == "nth"] == [nm]]
            incs = [n for n in synq.walk(lift_arm.body) if n.get("k") == "binary" and n["op"] == "+=" and render(n["l"]) == nm
                    and render(n["r"]) == "1"]
            if len(uses) == 1 and len(incs) == 1:
                ok = True
        rep.ob("R2.8", "lifting: flat parameters are GetArg 0, 1, 2, ... (counter from 0, +1 per flat value)", ok, "", fcall.loc())
    rep.guard("R2.8", "argument positions", r8)

    # ---- R2.9 what task.return receives (lifting direction, async)
    def r9():
        fcall = synq.find_fn("crates/core/src/abi.rs", "call", self_ty="Generator")
        render = synq.render
        m0 = synq.find_match(fcall.body, "LiftLower::")
        lift_arm = synq.arm_for(m0, "LiftLower::LiftArgsLowerResults")
        # the flattening of an async result: every match whose arms produce the value later named in
        # `AsyncTaskReturn { params }` -- located as the matches with an arm calling flat_types(.., Some(max_flat_params))
        # on the function's result
        cands = []
        for mm in synq.matches_in(lift_arm.body):
            arms_ = synq.arms(mm)
            if any(h.startswith("Some") for a in arms_ for h in a.heads) and any(h == "None" for a in arms_ for h in a.heads) \
                    and any(synq.fn_calls(a.body, "flat_types") for a in arms_) and "result" in render(mm["scrut"]):
                cands.append((mm, arms_))
        rep.floor("R2.9", "flattening of an async result for task.return", len(cands), 1)
        rep.ob("R2.9", "one place flattens the async result for task.return", len(cands) == 1, f"{len(cands)}", fcall.loc())
        if len(cands) != 1:
            return
        mm, arms_ = cands[0]
        for a in arms_:
            heads = ",".join(a.heads)
            if a.guard is not None:
                rep.ob("R2.9", f"async result flattening: arm `{heads}` is unconditional (the flat form of task.return depends on the "
                       "result type alone)", False, f"guard `{render(a.guard)}`: with the guard true the result is passed by "
                       "pointer although the canonical ABI flattens it (up to 16 values)", fcall.loc(a.node))
                continue
            body = a.body
            while body.get("k") == "block" and len(body["stmts"]) == 1 and body["stmts"][0].get("k") == "expr_stmt":
                body = body["stmts"][0]["e"]
            if any(h.startswith("Some") for h in a.heads):
                b = a.binds()
                ok = body.get("k") == "call" and synq.short(body["func"].get("path", "")) == "flat_types" and len(body["args"]) == 3 \
                    and len(b) == 1 and render(body["args"][1]).lstrip("&") == b[0] and render(body["args"][2]) == "Some(max_flat_params)"
                rep.ob("R2.9", "async result flattening: a present result is flat_types(resolve, result, Some(max_flat_params))", ok,
                       render(body)[:160], fcall.loc(a.node))
            elif a.heads == ["None"]:
                rep.ob("R2.9", "async result flattening: no result gives the empty flat list", render(body) in ("Some(Vec::new())", "Some(vec!())", "Some(vec![])"),
                       render(body)[:120], fcall.loc(a.node))
            else:
                rep.ob("R2.9", f"async result flattening: arm `{heads}` is one of Some(ty) / None", False, "", fcall.loc(a.node))
        # the memory fallback is chosen exactly when the flattening overflowed, and task.return then gets one pointer
        tup = [n for n in synq.walk(lift_arm.body) if n.get("k") == "tuple" and len(n["elems"]) == 2 and
               render(n["elems"][0]).endswith(".is_none()") and render(n["elems"][1]).startswith("Some(")]
        ok = len(tup) == 1 and render(tup[0]["elems"][0])[:-len(".is_none()")] == render(tup[0]["elems"][1])[5:-1]
        rep.ob("R2.9", "async: the result goes to memory exactly when its flattening overflowed (`results.is_none()`)", ok,
               f"{[render(t) for t in tup]}", fcall.loc(tup[0]) if tup else fcall.loc())
        ptr = [n for nm, n in synq.constructed(lift_arm.body, ["AsyncTaskReturn"])]
        rep.floor("R2.9", "AsyncTaskReturn sites in the lifting direction", len(ptr), 1)
        fallback = [c_ for c_ in synq.method_calls(lift_arm.body, "unwrap_or") if "as_deref" in render(c_["recv"])]
        lets = {nm: init for nm, init, st in synq.bindings(lift_arm.body) if init is not None and st["pat"].get("k") == "p_ident"}

        def unblock(e):
            while e is not None and e.get("k") == "block" and len(e["stmts"]) == 1 and e["stmts"][0].get("k") == "expr_stmt":
                e = e["stmts"][0]["e"]
            return e

        def alts(e, cond=None, depth=0):
            """possible values of the fallback expression with the condition they are chosen under"""
            e = unblock(e)
            if e is None or depth > 4:
                return [("?", cond)]
            if e.get("k") == "path" and e["path"] in lets:
                return alts(lets[e["path"]], cond, depth + 1)
            if e.get("k") == "if" and e.get("else") is not None:
                c = e["cond"]
                while c.get("k") == "path" and c["path"] in lets:
                    c = lets[c["path"]]
                import json as _json
                txt = render(c) + " " + " ".join(sorted(set(re.findall(r"GuestImport\w*|GuestExport\w*", _json.dumps(c)))))
                return alts(e["then"], txt, depth + 1) + alts(e["else"], "!(" + txt + ")", depth + 1)
            return [(render(e).replace(" ", ""), cond)]
        vals = [v for c_ in fallback for v in alts(c_["args"][0])]
        ok = bool(vals) and any(v == "&[WasmType::Pointer]" for v, _ in vals)
        for v, cond in vals:
            if v == "&[WasmType::Pointer]":
                # the pointer must be what every export gets: the only condition allowed to take it away is import-ness
                ok = ok and (cond is None or "GuestImport" in cond)
            elif v == "&[]":
                ok = ok and cond is not None and "GuestImport" in cond and not cond.startswith("!(")
            else:
                ok = False
        rep.ob("R2.9", "async export: an overflowed result is announced as exactly one pointer", ok,
               f"{[(v, c) for v, c in vals]}", fcall.loc(fallback[0]) if fallback else fcall.loc())
    rep.guard("R2.9", "task.return parameters", r9)
