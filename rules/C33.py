"""C33 — CLI check mode succeeds exactly when outputs are up to date (structural clauses)."""
import re

from lib import mir, synq

CLAIM = dict(
    level="other", engine="mirfacts+synfacts", design="DESIGN.md §5 C33",
    technique="MIR guard-edge dominance on the `check` flag, path rules on the comparison / read-error switches, "
              "span join with the syntax tree for the CRLF message, workspace call-graph closure for who-may-write",
    text="Decides on the MIR of the CLI binary that every file-mutating call is reached only through the "
         "`check == false` edge, that in the check region a difference always ends in an error return and equality "
         "always continues the loop, that a failed read is propagated, that the file read is the file that would be "
         "written and the bytes compared are the bytes that would be written, that the line-ending message is only "
         "produced under `lines().eq(lines())` of the two texts, and that no file-writing std API is reachable from "
         "`main` through any of the generator crates (call-graph closure with trait dispatch). Partial: the "
         "behaviour of the file system, of external formatters and of third-party crates is trusted.",
    note="mir+syn")

BIN = ("wit_bindgen", "executable")
BIN_SRC = "src/bin/wit-bindgen.rs"
GEN = ["wit_bindgen_core", "wit_bindgen_rust", "wit_bindgen_c", "wit_bindgen_cpp", "wit_bindgen_csharp",
       "wit_bindgen_go", "wit_bindgen_moonbit", "wit_bindgen_d", "wit_bindgen_markdown"]
# generator entry points that must be seen reachable from `main` through `dyn WorldGenerator` (non-vacuity of the closure)
BACKENDS = ["wit_bindgen_rust", "wit_bindgen_c", "wit_bindgen_cpp", "wit_bindgen_csharp", "wit_bindgen_go",
            "wit_bindgen_moonbit", "wit_bindgen_d", "wit_bindgen_markdown"]

# ---------------------------------------------------------------------------------------------- file-writing APIs
# Everything below std::fs (and std::os::*::fs) is a writer unless it is on this read-only list.
FS_NS = re.compile(r"(^|[<( &])std::fs::|(^|[<( &])std::os::\w+::fs::")
FS_READONLY = [re.compile(p) for p in (
    r"(^|[<( &])std::fs::(read|read_to_string|read_dir|read_link|metadata|symlink_metadata|canonicalize|exists|try_exists)$",
    r"(^|[<( &])std::fs::File::(open|open_buffered|metadata|try_clone|lock_shared|try_lock_shared|unlock)$",
    r"(^|[<( &])std::fs::(Metadata|DirEntry|ReadDir|FileType|Permissions|FileTimes)::\w+$",
    r"^<std::fs::(File|&std::fs::File) as std::io::(Read|Seek|BufRead)>::\w+$",
    r"^<std::fs::(ReadDir|DirEntry|Metadata|FileType|File|Permissions) as std::(iter::Iterator|fmt::Debug|clone::Clone|"
    r"cmp::PartialEq|cmp::Eq|os::\w+::fs::(MetadataExt|FileTypeExt|DirEntryExt)|os::fd::\w+)>::\w+$",
    r"(^|[<( &])std::os::\w+::fs::(MetadataExt|FileTypeExt|DirEntryExt)::\w+$",
)]
# well-known third-party file-writing namespaces (a path segment)
FOREIGN_FS = re.compile(r"(^|::)(fs_err|tempfile|fs_extra|cap_std|cap_tempfile|atomicwrites|tokio::fs|async_std::fs)::")
IO_WRITE = re.compile(r"std::io::Write::|std::io::copy$|as std::io::Write>::")
FILE_TY = re.compile(r"std::fs::(File|OpenOptions)\b")
# child processes: a formatter spawned with only piped stdio and no arguments is a stdin -> stdout filter
CMD = re.compile(r"(^|[<( &])std::process::Command::(\w+)$")
CMD_OK = {"new", "stdin", "stdout", "stderr", "spawn", "output", "status"}
FILTER_PROGRAMS = {"clang-format", "gofmt"}
RESULT_PASS = re.compile(r"Try>?::branch$|::with_context$|::context$|Result::<[^>]*>::\w+$|Result::\w+$")
STR_LINES = re.compile(r"\bstr>?::lines$")


def write_api(call):
    """Name of the file-writing API a call is, or None."""
    for n in call.names():
        nn = mir.norm(n)
        if FS_NS.search(nn) and not any(r.search(nn) for r in FS_READONLY):
            return nn
        if FOREIGN_FS.search(nn):
            return nn
    if any(IO_WRITE.search(mir.norm(n)) for n in call.names()) and any(FILE_TY.search(t) for t in call.arg_types):
        return mir.norm(call.callee) + " on std::fs::File"
    return None


def short(name):
    return re.sub(r"(::\{closure#\d+\})+", "", re.sub(r"^(crate|wit_bindgen\w*)::", "", name))


# ---------------------------------------------------------------------------------------------- value tracing
def fields_of(o):
    return tuple(p for p in o.get("proj", []) if isinstance(p, str) and (p.startswith(".") or p.startswith("as ")))


def step_id(o):
    """Identity of an origin without block numbers leaking into instances (used for comparison only)."""
    k = o.get("kind")
    if k == "call":
        return ("call", o["call"].bb, fields_of(o))
    if k == "place":
        return ("place", o.get("local"), fields_of(o))
    if k == "arg":
        return ("arg", o.get("n"), fields_of(o))
    if k == "const":
        return ("const", o.get("v"), o.get("s"))
    return (k,)


def chain(f, op, limit=16):
    """Follow a value backwards through the first argument of each producing call.
    Returns [(Call, step_id), ...] and the step_id of the final non-call origin."""
    out = []
    o = f.origin(op)
    while o.get("kind") == "call" and len(out) < limit:
        c = o["call"]
        out.append((c, step_id(o)))
        if not c.args:
            return out, ("noargs",)
        o = f.origin(c.args[0])
    return out, step_id(o)


VIEW = re.compile(r"Deref>?::deref$|AsRef(<.*>)?>?::as_ref$|Borrow(<.*>)?>?::borrow$|::as_path$|::as_slice$|"
                  r"::as_os_str$|Path::new$")


def seq(f, op):
    a, fa = chain(f, op)
    return a, [s_ for _, s_ in a] + [fa]


def root_id(f, op):
    """Identity of a value with leading borrow-like views (deref, as_ref, as_path ...) removed."""
    a, sa = seq(f, op)
    k = 0
    while k < len(a) and a[k][0].matches(VIEW):
        k += 1
    return tuple(sa[k:])


def same_root(f, op, ref_op):
    return root_id(f, op) == root_id(f, ref_op)


def view_of(f, op, ref_op):
    """`op` is computed from `ref_op` through a chain of first-argument calls (lines(from_utf8(x)) is a view of x)."""
    _, sa = seq(f, op)
    rb = list(root_id(f, ref_op))
    return len(rb) <= len(sa) and sa[len(sa) - len(rb):] == rb


def through_call(f, op, call):
    return any(c.bb == call.bb for c, _ in chain(f, op)[0])


def strip_not(o):
    neg = False
    while o.get("kind") == "un" and o.get("op") == "Not":
        o = o["a"]
        neg = not neg
    return o, neg


def bool_targets(f, b, neg=False):
    tg = f.switch_targets(b)
    ft, tt = tg.get(0), tg["else"]
    if neg:
        ft, tt = tt, ft
    return ft, tt


def edge_polarity(vals, neg):
    """True / False for the edge of a bool switch labelled `vals`, None when it is not a bool edge."""
    if vals == [0] or vals == (0,):
        p = False
    elif "else" in vals and 0 not in vals:
        p = True
    else:
        return None
    return (not p) if neg else p


# ---------------------------------------------------------------------------------------------- the binary crate
class Bin:
    def __init__(self, rep):
        self.c = mir.load("ws", *BIN)
        owners = [(n, v) for n, v in self.c.adts.items()
                  if any(fl[0] == "check" and fl[1] == "bool" for var in v["variants"] for fl in var["fields"])]
        if len(owners) != 1:
            raise mir.AnchorMissing(f"options struct with a `check: bool` field in the CLI crate: {[n for n, _ in owners]}")
        self.opt_ty = owners[0][0].split("::")[-1]
        self.by_name = {}
        for f in self.c.fns.values():
            self.by_name.setdefault(f.npath, []).append(f)
        self._unguarded = {}

    # -- is this value the `check` flag?
    def is_check(self, f, o, depth=3):
        o, neg = strip_not(o)
        fl = [p for p in o.get("proj", []) if isinstance(p, str) and p.startswith(".")]
        if o.get("kind") in ("place", "arg") and fl and fl[-1] == ".check":
            base = o.get("local") if o["kind"] == "place" else o.get("n")
            if base is not None and self.opt_ty in f.locals[base]:
                return True, neg
        if o.get("kind") == "arg" and not fl and f.locals[o["n"]] == "bool" and depth > 0:
            # a helper taking `check: bool`: every call site must pass the flag
            sites = self.call_sites(f)
            if sites and all(self.is_check(g, g.origin(c.args[o["n"] - 1]), depth - 1) == (True, False) for g, c in sites):
                return True, neg
        return False, neg

    def call_sites(self, target):
        out = []
        for g in self.c.fns.values():
            for c in g.calls():
                if any(mir.norm(n) == target.npath for n in c.names()):
                    out.append((g, c))
        return out

    def local_refs(self, f):
        """(bb, fn) for every call of / reference to a function or closure of the CLI crate inside f."""
        out = []
        for b in sorted(f.live):
            names = set()
            collect_names({"st": f.stmts(b), "t": f.term(b)}, names)
            for n in names:
                for g in self.by_name.get(mir.norm(n), []):
                    if g is not f:
                        out.append((b, g))
        return out

    def check_guarded(self, f, site):
        """site is reachable only through the `check == false` edge of a switch on the flag."""
        for sw, vals, o in f.guard_edges(site):
            ok, neg = self.is_check(f, o)
            if ok and edge_polarity(vals, neg) is False:
                return True
        return False

    def unguarded(self, f, stack=()):
        """Write sites of f (direct, or through functions of the CLI crate) not dominated by `check == false`:
        list of (bb, description)."""
        if f.path in self._unguarded:
            return self._unguarded[f.path]
        if f.path in stack:
            return []
        out = []
        for c in f.calls():
            api = write_api(c)
            if api and not self.check_guarded(f, c.bb):
                out.append((c.bb, api))
        for b, g in self.local_refs(f):
            inner = self.unguarded(g, stack + (f.path,))
            if inner and not self.check_guarded(f, b):
                out.append((b, f"{short(g.npath)} -> {inner[0][1]}"))
        self._unguarded[f.path] = out
        return out

    def writes(self, f, stack=()):
        """All write sites of f, guarded or not (direct or through CLI-crate functions): list of (bb, description, call|None)."""
        if f.path in stack:
            return []
        out = [(c.bb, write_api(c), c) for c in f.calls() if write_api(c)]
        for b, g in self.local_refs(f):
            inner = self.writes(g, stack + (f.path,))
            if inner:
                t = f.term(b)
                out.append((b, f"{short(g.npath)} -> {inner[0][1]}", mir.Call(b, t) if t["k"] == "call" else None))
        return out


def collect_names(node, out):
    """Every function name mentioned in a MIR body fragment (callees, resolved callees, fn constants, closures)."""
    if isinstance(node, dict):
        for k, v in node.items():
            if k in ("fn", "res", "closure", "def") and isinstance(v, str):
                out.add(v)
            else:
                collect_names(v, out)
    elif isinstance(node, list):
        for v in node:
            collect_names(v, out)


def ret_defs(f):
    """Definitions of the return place: list of (bb, kind) with kind 'Ok' / 'Err' / 'residual' / 'other:<what>'."""
    out = []
    for b in sorted(f.live):
        for s in f.stmts(b):
            if s["k"] == "=" and s["p"]["l"] == 0 and not s["p"].get("p"):
                o = f.stored(s)
                if o.get("kind") == "agg" and o["rv"].get("var") in ("Ok", "Err") and "Result" in o["rv"].get("adt", ""):
                    out.append((b, o["rv"]["var"]))
                else:
                    out.append((b, "other:" + str(o.get("kind"))))
        t = f.term(b)
        if t["k"] == "call" and t["d"]["l"] == 0 and not t["d"].get("p"):
            c = mir.Call(b, t)
            out.append((b, "residual" if c.matches("FromResidual::from_residual") else "other:" + short(mir.norm(c.callee))))
    return out


# ---------------------------------------------------------------------------------------------- rules on main
READS = ["fs::read", "fs::read_to_string"]


def result_tests(f, call):
    """Switches testing the Result produced by `call` (directly, through `?`, with_context, map_err ...):
    list of (switch_bb, failure_target, success_target)."""
    out = []
    for b, t in f.switches():
        o = f.switch_origin(b)
        if o.get("kind") != "discr":
            continue
        of = o.get("of", {})
        if of.get("kind") != "call":
            continue
        via = [of["call"]] + ([x for x, _ in chain(f, of["call"].args[0])[0]] if of["call"].args else [])
        bbs = [x.bb for x in via]
        if call.bb not in bbs:
            continue
        if not all(x.matches(RESULT_PASS) for x in via[:bbs.index(call.bb)]):
            continue        # a Result derived from the value (from_utf8 of the bytes read ...), not the call's own Result
        vars_ = o["vars"]
        tg = f.switch_targets(b)
        named = {vars_.get(v): tb for v, tb in tg.items() if v != "else"}
        for v, n in vars_.items():
            if v not in tg:
                named.setdefault(n, tg["else"])
        brk = [named[n] for n in ("Break", "Err") if n in named]
        cont = [named[n] for n in ("Continue", "Ok") if n in named]
        if brk and cont:
            out.append((b, brk[0], cont[0]))
    return out


ITER_OK = {"into_iter", "enumerate", "inspect", "peekable", "by_ref", "fuse"}
PANICS = re.compile(r"core::panicking::|std::rt::begin_panic|::unwrap_failed$|::expect_failed$")


def failure_edge_ok(f, brk, rdefs, succ=()):
    """A failure edge must end in an `Err` return, a non-zero process::exit or a panic - never in success."""
    rb = f.reachable(brk)
    if set(succ) & rb:
        return False, "success exit reachable"
    kinds = {k for bb, k in rdefs if bb in rb}
    if set(f.returns()) & rb:
        return bool(kinds) and kinds <= {"residual", "Err"}, f"return values on the failure edge: {sorted(kinds)}"
    for c in f.calls():
        if c.bb in rb and c.target < 0:
            if c.matches("process::exit"):
                o = f.origin(c.args[0])
                if not (o.get("kind") == "const" and o.get("v") not in (0, None)):
                    return False, "process::exit with a zero / unknown status"
            elif not c.matches(PANICS):
                return False, f"diverges through {short(mir.norm(c.callee))}"
    return True, "diverges"


def propagation_rule(rep, B, holder):
    """The Result of the function holding the check logic must become main's own Result (or a non-zero exit / panic)."""
    main = B.c.fn("main")

    def up(f, depth):
        if f is main:
            rep.ob("R33.2", "main returns a Result (an Err becomes a non-zero exit status)", "Result<" in f.locals[0],
                   f.locals[0], f.loc())
            return
        sites = B.call_sites(f)
        rep.ob("R33.2", f"{short(f.npath)} (check logic) is called from the CLI crate", bool(sites) and depth > 0, "", f.loc())
        if depth <= 0:
            return
        for g, c in sites:
            gn = short(g.npath)
            if not c.dest.get("p") and c.dest["l"] == 0:
                up(g, depth - 1)        # returned as is
                continue
            tests = result_tests(g, c)
            rd = ret_defs(g)
            oks = [failure_edge_ok(g, brk, rd) for _, brk, _ in tests]
            rep.ob("R33.2", f"{gn}: an Err of {short(f.npath)} is propagated (returned, non-zero exit or panic)",
                   bool(tests) and all(o for o, _ in oks), "; ".join(w for _, w in oks) or "the Result is not tested",
                   g.loc(c.bb))
            if not tests or any(w != "diverges" for _, w in oks):
                up(g, depth - 1)
    up(holder, 4)


class Ctx:
    """Where the read + comparison live: the function holding the check switch itself, or a helper of the CLI crate
    called from the check = true region.  `succ` are the blocks that mean `this file is fine, go on`: the loop header
    in the holder, the `Ok` result sites in a helper."""

    def __init__(self, f, region, succ, is_dst, same_contents, view_contents, is_check=None):
        self.f, self.region, self.succ, self.is_check = f, region, succ, is_check
        self.is_dst, self.same_contents, self.view_contents = is_dst, same_contents, view_contents
        self.rdefs = ret_defs(f)
        self.rets = f.returns()
        self.reads = [c for c in f.calls(READS) if c.bb in region]
        self.cmps = []


def check_region_rules(rep, B):
    c = B.c
    main = c.fn("main")
    rep.saw(main)

    # the function(s) holding the switch on the flag
    holders = []
    for f in c.fns.values():
        for b, _ in f.switches():
            ok, neg = B.is_check(f, f.switch_origin(b))
            if ok:
                holders.append((f, b, neg))
    rep.floor("R33.1", "switches on the `check` flag in the CLI crate", len(holders), 1)

    # ---- R33.1 (a) no write under check
    def r1():
        sites = B.writes(main)
        rep.floor("R33.1", "file-writing sites under main (direct or through a CLI-crate helper)", len(sites), 1)
        rep.floor("R33.1", "file-writing std calls in the CLI crate (create_dir_all, write)",
                  sum(1 for f in c.fns.values() for cc in f.calls() if write_api(cc)), 2)
        open_sites = {bb for bb, _ in B.unguarded(main)}
        for b, what, _ in sites:
            rep.ob("R33.1", f"main: {what} is reached only through the `check == false` edge",
                   b not in open_sites, "a path with check = true reaches a file-mutating call", main.loc(b))
        # trait methods (Drop, Display, clap derives ...) are called from code the analysis does not see
        bad = [(f, B.unguarded(f)) for f in c.fns.values() if f.d.get("trait") is not None]
        bad = [(f, u) for f, u in bad if u]
        rep.ob("R33.1", "no trait method of the CLI crate reaches a file-mutating call outside a `check == false` guard",
               not bad, "; ".join(f"{short(f.npath)}: {u[0][1]}" for f, u in bad), bad[0][0].loc() if bad else "")
        # the flag is never reassigned and the options value is never mutably borrowed
        muts = []
        for f in c.fns.values():
            if f.d.get("trait") is not None or f.path.startswith("crate::<"):
                continue        # clap's derived parser builds / updates the struct
            muts += [(f, b) for b, _, _ in f.field_stores("check")]
            for b in sorted(f.live):
                for s in f.stmts(b):
                    rv = s.get("rv", {})
                    if s["k"] == "=" and rv.get("k") in ("ref", "rawptr") and rv.get("m") and \
                            B.opt_ty in f.locals[rv["p"]["l"]]:
                        muts.append((f, b))
        rep.ob("R33.1", "the `check` flag is never stored to or mutably borrowed outside the derived parser", not muts,
               ", ".join(short(f.npath) for f, _ in muts), muts[0][0].loc(muts[0][1]) if muts else "")
    rep.guard("R33.1", "no-write-under-check", r1)

    # ---- R33.8 the flag is declared so that passing `--check` turns check mode on
    def r8():
        n = 0
        for nm in ("augment_args", "augment_args_for_update"):
            f = c.method(B.opt_ty, nm, trait="Args")
            rep.saw(f)
            for a in f.calls("Arg::action"):
                news = [x for x, _ in chain(f, a.args[0], limit=40)[0] if x.matches("Arg::new")]
                if not news or f.origin(news[0].args[0]).get("s") != "check":
                    continue
                n += 1
                o = f.origin(a.args[1])
                var = o.get("rv", {}).get("var") if o.get("kind") == "agg" else None
                rep.ob("R33.8", f"{B.opt_ty}::{nm}: the `check` argument uses ArgAction::SetTrue", var == "SetTrue",
                       f"action = {var}: passing --check would not enable check mode", f.loc(a.bb))
        rep.floor("R33.8", "clap declarations of the `check` argument (augment_args, augment_args_for_update)", n, 2)
    rep.guard("R33.8", "flag declaration", r8)

    # the per-file rules apply to the switches inside the file loop (a test of the flag elsewhere only matters for R33.1)
    holders = [(f, sw, neg) for f, sw, neg in holders if loop_headers(f, sw)]
    rep.floor("R33.2", "switches on the `check` flag inside the loop over the generated files", len(holders), 1)
    ctxs = []
    for f, sw, neg in holders:
        rep.guard("R33.2", f"check region of {short(f.npath)}",
                  lambda f=f, sw=sw, neg=neg: ctxs.extend(region_rules(rep, B, f, sw, neg) or []))

    rep.guard("R33.4", "crlf message", lambda: crlf_rule(rep, B, ctxs))


def loop_headers(f, sw):
    return [b for b in f.call_blocks("Iterator::next") if f.dominates(b, sw) and f.in_cycle(b) and sw in f.reachable(b)]


def region_rules(rep, B, f, sw, neg):
    """Rules on the function holding the check switch; returns the contexts in which read + comparison were found."""
    rep.saw(f)
    fn = short(f.npath)
    false_t, true_t = bool_targets(f, sw, neg)
    H = loop_headers(f, sw)
    rep.floor("R33.2", f"loop header (Iterator::next) around the check switch in {fn}", len(H), 1)
    rets = f.returns()
    rdefs = ret_defs(f)
    ok_blocks = [b for b, k in rdefs if k == "Ok"]
    rep.floor("R33.2", f"`Ok` result sites of {fn}", len(ok_blocks), 1)
    region = f.reachable(true_t, avoid=H)

    # the iterator walked is Files::iter of the generated file set
    it = [c for c in f.calls("Files::iter")]
    rep.ob("R33.2", f"{fn}: the loop walks Files::iter", bool(it) and all(
        any(f.dominates(c.bb, h) for c in it) for h in H), "", f.loc(sw))

    # ... of the very file set the generator filled: defined once, handed only to the generator and to Files::iter
    for c in it:
        calls, fin = chain(f, c.args[0])
        src = calls[0][0] if calls else None
        whole = [d for d in f.defs.get(src.dest["l"], []) if d[2] != "partial"] if src is not None else []
        users = []
        for u in f.calls():
            if u.bb == c.bb:
                continue
            for a in u.args:
                o = f.origin(a)
                if src is not None and o.get("kind") == "call" and o["call"].bb == src.bb:
                    users.append(u)
        stray = [u for u in users if not (u.matches("WorldGenerator::generate") or u.matches("Files::iter") or
                                          any(mir.norm(n) in B.by_name for n in u.names()))]
        rep.ob("R33.2", f"{fn}: the file set walked is created once (Files::default) and only handed to the generator",
               src is not None and src.matches(re.compile(r"Files as std::default::Default>::default$|Files::default$|Files::new$"))
               and len(whole) == 1 and bool(users) and not stray,
               f"definitions: {len(whole)}; other users: {[short(mir.norm(u.callee)) for u in stray]}", f.loc(c.bb))

    # ... directly: an adaptor such as skip / take / filter / step_by would leave files unchecked
    for h in H:
        hc = mir.Call(h, f.term(h))
        via = [x for x, _ in chain(f, hc.args[0])[0]] if hc.args else []
        names = [mir.norm(x.callee).split("::")[-1] for x in via]
        upto = names[:names.index("iter")] if "iter" in names else names
        rep.ob("R33.2", f"{fn}: the loop visits every entry of Files::iter (no skipping adaptor)",
               "iter" in names and via[names.index("iter")].matches("Files::iter") and
               all(n in ITER_OK for n in upto), f"iterator built through: {names}", f.loc(h))

    # the verdict of the holder reaches the process exit status
    rep.guard("R33.2", f"verdict of {fn} reaches main", lambda: propagation_rule(rep, B, f))

    # (a') the check region leaves only by continuing the loop or by an error return
    rep.ob("R33.1", f"{fn}: check = true never completes successfully except through the loop header",
           f.all_paths_pass(true_t, ok_blocks, H) and not (set(b for b, k in rdefs if k.startswith("other")) & region),
           "a path from the check = true edge reaches an `Ok` return (or an untyped return value) without visiting the remaining files",
           f.loc(sw))
    rep.ob("R33.1", f"{fn}: no file-mutating call on the check = true side",
           not [c for c in f.calls() if c.bb in region and write_api(c) and not B.check_guarded(f, c.bb)], "", f.loc(sw))

    # what would be written: the operands of the guarded write site (std::fs::write, or a CLI-crate helper reaching it)
    wsites = [(b, w, c) for b, w, c in B.writes(f) if c is not None and b in f.reachable(false_t, avoid=H)]
    rep.floor("R33.5", f"write call on the check = false side of {fn}", len(wsites), 1)
    wargs = [a for _, _, c in wsites for a in c.args]

    def is_dst(op):
        return any(same_root(f, op, a) for a in wargs)

    def same_contents(op):
        return any(same_root(f, op, a) for a in wargs)

    def view_contents(op):
        return any(view_of(f, op, a) for a in wargs)

    ctxs = []
    if [c for c in f.calls(READS) if c.bb in region]:
        ctxs.append(Ctx(f, region, H, is_dst, same_contents, view_contents, B.is_check))
    else:
        # the comparison lives in a helper of the CLI crate called from the check region
        for c in f.calls():
            if c.bb not in region:
                continue
            for g in [g for n in c.names() for g in B.by_name.get(mir.norm(n), [])]:
                if not g.calls(READS):
                    continue
                gn = short(g.npath)
                rep.saw(g)
                tests = result_tests(f, c)
                rep.ob("R33.2", f"{fn}: the result of {gn} is tested for failure (`?` or a match)", len(tests) >= 1,
                       f"{len(tests)} switches on the Result of the call", f.loc(c.bb))
                for b, brk, cont in tests:
                    rb = f.reachable(brk)
                    kinds = {k for bb, k in rdefs if bb in rb}
                    rep.ob("R33.2", f"{fn}: a failure of {gn} returns the error (never continues, never succeeds)",
                           not (set(H) & rb) and bool(kinds) and kinds <= {"residual", "Err"} and bool(set(rets) & rb),
                           f"return values on the failure edge: {sorted(kinds)}; loop header reachable: {bool(set(H) & rb)}",
                           f.loc(b))

                def arg_index(op, g=g):
                    calls, fin = chain(g, op)
                    views = all(x.matches(VIEW) for x, _ in calls)
                    return (views, fin[1]) if fin[0] == "arg" and not fin[2] else (views, None)

                def g_is_dst(op, c=c):
                    views, i = arg_index(op)
                    return i is not None and views and i - 1 < len(c.args) and is_dst(c.args[i - 1])

                def g_view(op, c=c):
                    views, i = arg_index(op)
                    return i is not None and i - 1 < len(c.args) and same_contents(c.args[i - 1])

                ctxs.append(Ctx(g, set(g.live), [b for b, k in ret_defs(g) if k == "Ok"], g_is_dst, g_is_dst, g_view))
    rep.floor("R33.3", f"read + comparison located for the check region of {fn}", len(ctxs), 1)
    for ctx in ctxs:
        compare_rules(rep, ctx)
    return ctxs


def compare_rules(rep, ctx):
    f = ctx.f
    fn = short(f.npath)
    region, succ, rdefs, rets, reads = ctx.region, ctx.succ, ctx.rdefs, ctx.rets, ctx.reads
    what_next = "continues with the next file" if f.path.endswith("::main") or any(f.in_cycle(b) for b in succ) \
        else "reports success"

    # ---- R33.3 read error is propagated
    rep.floor("R33.3", f"file read in the check region of {fn}", len(reads), 1)
    for r in reads:
        # R33.5 the file read is the file that would be written
        rep.ob("R33.5", f"{fn}: the path read in check mode is the path that would be written", ctx.is_dst(r.args[0]),
               "fs::read and the write call do not take the same destination value", f.loc(r.bb))
        # ... and is computed the same way in both modes: no definition of it is guarded by the flag
        calls, fin = chain(f, r.args[0])
        if fin[0] == "place" and ctx.is_check is not None:
            dep = [b for b, _, _, _ in f.defs.get(fin[1], []) if b in f.live and
                   any(ctx.is_check(f, o)[0] for _, _, o in f.guard_edges(b))]
            rep.ob("R33.5", f"{fn}: the destination path does not depend on the check flag", not dep,
                   "a definition of the destination is only reached under a test of `check`", f.loc(dep[0]) if dep else "")
        prop = result_tests(f, r)
        rep.ob("R33.3", f"{fn}: the result of the read is tested for failure (`?` or a match)", len(prop) >= 1,
               f"{len(prop)} switches on the Result of the read", f.loc(r.bb))
        for b, brk, cont in prop:
            rb = f.reachable(brk)
            kinds = {k for bb, k in rdefs if bb in rb}
            rep.ob("R33.3", f"{fn}: a failed read returns the error (never continues, never succeeds)",
                   not (set(succ) & rb) and bool(kinds) and kinds <= {"residual", "Err"} and bool(set(rets) & rb),
                   f"return values on the failure edge: {sorted(kinds)}; success exit reachable: {bool(set(succ) & rb)}", f.loc(b))

    # ---- R33.2 (b) the comparison
    cmps = []
    for b, t in f.switches():
        if b not in region:
            continue
        o, n2 = strip_not(f.switch_origin(b))
        if o.get("kind") != "call":
            continue
        cc = o["call"]
        is_ne = cc.matches("PartialEq::ne")
        is_eq = cc.matches("PartialEq::eq")
        if not (is_ne or is_eq) or len(cc.args) != 2:
            continue
        side = [any(through_call(f, a, r) for r in reads) for a in cc.args]
        if not any(side):
            continue
        ft, tt = bool_targets(f, b, n2)
        differ_t, equal_t = (tt, ft) if is_ne else (ft, tt)
        other = cc.args[1] if side[0] else cc.args[0]
        cmps.append((b, cc, differ_t, equal_t, other))
    ctx.cmps = cmps
    rep.floor("R33.2", f"comparison of the bytes read with the generated bytes in {fn}", len(cmps), 1)
    for b, cc, differ_t, equal_t, other in cmps:
        rep.ob("R33.5", f"{fn}: the bytes compared in check mode are the bytes that would be written",
               ctx.same_contents(other),
               "the other side of the comparison is not the contents operand of the write call", f.loc(b))
        # read success dominates the comparison
        rep.ob("R33.3", f"{fn}: the comparison happens only after a successful read",
               any(f.dominates(r.bb, b) for r in reads), "", f.loc(b))
        rd = f.reachable(differ_t)
        kinds = {k for bb, k in rdefs if bb in rd}
        rep.ob("R33.2", f"{fn}: bytes differ => never {what_next}", not (set(succ) & rd),
               "the loop header / success result is reachable from the `differs` edge", f.loc(b))
        rep.ob("R33.2", f"{fn}: bytes differ => every return is an error",
               bool(set(rets) & rd) and bool(kinds) and kinds <= {"Err", "residual"},
               f"return values reachable from the `differs` edge: {sorted(kinds)}", f.loc(b))
        re_ = f.reachable(equal_t, avoid=succ)
        kinds_e = {k for bb, k in rdefs if bb in re_ and bb not in succ}
        rep.ob("R33.2", f"{fn}: bytes equal => {what_next}",
               bool(set(succ) & f.reachable(equal_t)) and f.all_paths_pass(equal_t, rets, succ) and not kinds_e and
               not [c for c in f.calls() if c.bb in re_ and c.target < 0],
               f"from the `equal` edge a return / error is reachable without passing the loop header / success result "
               f"({sorted(kinds_e)})", f.loc(b))


def eval_char_pred(g, ch, fuel=400):
    """Evaluate a `|c: char| -> bool` closure's MIR on one character (only whole-local scalar statements, switches,
    char classification calls).  Raises AnchorMissing on anything else (fail closed)."""
    import unicodedata
    env = {g.argc: ord(ch)}        # the last argument is the char (argument 1 is the closure environment)
    def cat(v):
        return unicodedata.category(chr(v))

    def ws(v):      # Unicode White_Space (what char::is_whitespace tests)
        return v in (9, 10, 11, 12, 13, 32, 0x85, 0xA0, 0x1680, 0x2028, 0x2029, 0x202F, 0x205F, 0x3000) or 0x2000 <= v <= 0x200A
    known = {"is_control": lambda v: cat(v) == "Cc",
             "is_whitespace": ws,
             "is_alphabetic": lambda v: chr(v).isalpha() or cat(v) == "Nl",
             "is_numeric": lambda v: cat(v) in ("Nd", "Nl", "No"),
             "is_alphanumeric": lambda v: chr(v).isalpha() or cat(v) in ("Nd", "Nl", "No"),
             "is_lowercase": lambda v: chr(v).islower(), "is_uppercase": lambda v: chr(v).isupper(),
             "is_ascii": lambda v: v < 128,
             "is_ascii_control": lambda v: v < 32 or v == 127,
             "is_ascii_graphic": lambda v: 33 <= v <= 126,
             "is_ascii_alphabetic": lambda v: 65 <= v <= 90 or 97 <= v <= 122,
             "is_ascii_uppercase": lambda v: 65 <= v <= 90, "is_ascii_lowercase": lambda v: 97 <= v <= 122,
             "is_ascii_digit": lambda v: 48 <= v <= 57,
             "is_ascii_hexdigit": lambda v: 48 <= v <= 57 or 65 <= v <= 70 or 97 <= v <= 102,
             "is_ascii_alphanumeric": lambda v: 48 <= v <= 57 or 65 <= v <= 90 or 97 <= v <= 122,
             "is_ascii_punctuation": lambda v: 33 <= v <= 47 or 58 <= v <= 64 or 91 <= v <= 96 or 123 <= v <= 126,
             "is_ascii_whitespace": lambda v: v in (9, 10, 12, 13, 32)}

    def val(op):
        if "c" in op:
            if "v" not in op:
                raise mir.AnchorMissing(f"{g.path}: non-scalar constant")
            return int(op["v"])
        pl = op.get("cp") or op.get("mv")
        if pl is None:
            raise mir.AnchorMissing(f"{g.path}: operand {op} not evaluable")
        return place(pl)

    def place(pl):
        if pl["l"] not in env:
            raise mir.AnchorMissing(f"{g.path}: local _{pl['l']} not evaluable")
        v = env[pl["l"]]
        for e in pl.get("p", []):
            if e == "*" and isinstance(v, tuple) and v[0] == "ref":
                v = place(v[1])
            else:
                raise mir.AnchorMissing(f"{g.path}: projection {e} not evaluable")
        return v

    def scalar(v):
        while isinstance(v, tuple) and v[0] == "ref":       # `c.is_ascii_graphic()` takes &self
            v = place(v[1])
        return v
    ops = {"Eq": lambda a, b: a == b, "Ne": lambda a, b: a != b, "Lt": lambda a, b: a < b, "Le": lambda a, b: a <= b,
           "Gt": lambda a, b: a > b, "Ge": lambda a, b: a >= b, "BitAnd": lambda a, b: a & b, "BitOr": lambda a, b: a | b,
           "BitXor": lambda a, b: a ^ b}
    b = 0
    while fuel > 0:
        fuel -= 1
        for st in g.stmts(b):
            if st["k"] != "=":
                continue
            if st["p"].get("p"):
                raise mir.AnchorMissing(f"{g.path}: store to a projection")
            rv = st["rv"]
            if rv["k"] == "use":
                v = val(rv["o"])
            elif rv["k"] == "un" and rv["op"] == "Not":
                v = int(not scalar(val(rv["a"])))
            elif rv["k"] == "bin" and rv["op"] in ops:
                v = int(ops[rv["op"]](scalar(val(rv["a"])), scalar(val(rv["b"]))))
            elif rv["k"] == "cast":
                v = val(rv["o"])
            elif rv["k"] in ("ref", "rawptr"):
                v = ("ref", rv["p"])
            else:
                raise mir.AnchorMissing(f"{g.path}: rvalue {rv['k']} not evaluable")
            env[st["p"]["l"]] = v
        t = g.term(b)
        if t["k"] == "return":
            if 0 not in env:
                raise mir.AnchorMissing(f"{g.path}: no return value")
            return bool(scalar(env[0]))
        if t["k"] == "goto":
            b = t["t"]
        elif t["k"] == "switch":
            v = scalar(val(t["d"]))
            b = dict((int(x), y) for x, y in t["ts"]).get(v, t["else"])
        elif t["k"] == "call":
            name = mir.norm(t.get("res") or t.get("fn") or "").split("::")[-1]
            if name not in known or t["d"].get("p") or t["t"] < 0:
                raise mir.AnchorMissing(f"{g.path}: call {name} not evaluable")
            env[t["d"]["l"]] = int(known[name](scalar(val(t["args"][0]))))
            b = t["t"]
        elif t["k"] in ("assert", "drop"):
            b = t["t"]
        else:
            raise mir.AnchorMissing(f"{g.path}: terminator {t['k']}")
    raise mir.AnchorMissing(f"{g.path}: evaluation did not terminate")


class Frame:
    """A function of the CLI crate being looked at; `call`/`parent` say how a bool helper was entered."""

    def __init__(self, f, call=None, parent=None):
        self.f, self.call, self.parent = f, call, parent

    def root(self):
        return self if self.parent is None else self.parent.root()


def xtrace(fr, op):
    """chain() continued through helper parameters into the callers' frames.
    Returns ([(fn, Call)...], operand in the root frame through which the chain entered it (or op itself))."""
    calls = []
    top = op
    while True:
        cs, fin = chain(fr.f, op)
        calls += [(fr.f, x) for x, _ in cs]
        if fin[0] == "arg" and not fin[2] and fr.parent is not None and fin[1] - 1 < len(fr.call.args):
            op = fr.call.args[fin[1] - 1]
            fr = fr.parent
            if fr.parent is None:
                top = op
            continue
        return calls, (top if fr.parent is None else None)


def conds_at(B, fr, site, depth=6):
    """Conditions under which `site` executes: dominating guard edges, where an edge on a bool local with several
    constant / copied definitions (`match` or `&&` yielding a bool) or on the result of a bool helper of the CLI crate
    is replaced by the conditions under which that value has the tested polarity.  List of (Frame, sw, vals, origin)."""
    out = []
    for sw, vals, o in fr.f.guard_edges(site):
        out += expand_cond(B, fr, sw, vals, o, depth)
    return out


def expand_cond(B, fr, sw, vals, o, depth):
    base = [(fr, sw, vals, o)]
    o2, neg = strip_not(o)
    pol = edge_polarity(vals, neg)
    if pol is None or depth <= 0:
        return base
    f = fr.f
    if o2.get("kind") == "call" and not fields_of(o2):
        gs = [g for n in o2["call"].names() for g in B.by_name.get(mir.norm(n), [])]
        if len(gs) == 1 and gs[0].locals[0] == "bool" and gs[0].d.get("trait") is None:
            r = value_conds(B, Frame(gs[0], o2["call"], fr), 0, pol, depth - 1)
            return base if r is None else r
    if o2.get("kind") == "place" and not fields_of(o2) and o2.get("local") is not None and \
            f.locals[o2["local"]] == "bool" and "*" not in o2.get("proj", []):
        r = value_conds(B, fr, o2["local"], pol, depth - 1)
        return base if r is None else r
    return base


def value_conds(B, fr, local, pol, depth):
    """Conditions implied by `local == pol`: those of the definition(s) able to store `pol`; None when not analysable."""
    f = fr.f
    cands = []
    for b, i, kind, payload in f.defs.get(local, []):
        if b not in f.live:
            continue
        if kind == "call":
            cands.append((b, {"kind": "call", "call": mir.Call(b, payload), "proj": []}))
        elif kind == "assign":
            rv = payload
            if rv["k"] == "use" and "c" in rv["o"]:
                if "v" not in rv["o"]:
                    return None
                if bool(int(rv["o"]["v"])) == pol:
                    cands.append((b, None))
            elif rv["k"] == "use":
                cands.append((b, f.origin(rv["o"])))
            elif rv["k"] == "un" and rv["op"] == "Not":
                cands.append((b, {"kind": "un", "op": "Not", "a": f.origin(rv["a"])}))
            else:
                return None
        else:
            return None
    if not cands:
        return None
    sets = []
    for b, o in cands:
        cs = conds_at(B, fr, b, depth)
        if o is not None:
            cs = cs + expand_cond(B, fr, b, ["else"] if pol else [0], o, depth)
        sets.append(cs)
    if len(sets) == 1:
        return sets[0]
    keys = [set((c[0].f.path, c[1], tuple(map(str, c[2]))) for c in cs) for cs in sets]
    common = set.intersection(*keys)
    return [c for c in sets[0] if (c[0].f.path, c[1], tuple(map(str, c[2]))) in common]


# representative characters of a valid UTF-8 *text* file: each must pass whatever text-ness test guards the message
TEXT_EOL = [("\r", "CR"), ("\n", "LF"), ("\t", "TAB")]
TEXT_ASCII = [(ch, repr(ch)) for ch in " aZq07.,;:!?'\"`-_/\\|@#$%^&*+=~()[]{}<>"]
TEXT_NON_ASCII = [("\u00e9", "e-acute U+00E9"), ("\u00b0", "degree sign U+00B0"), ("\u2014", "em dash U+2014"),
                  ("\u4e2d", "CJK U+4E2D"), ("\u00a0", "no-break space U+00A0"), ("\u00df", "sharp s U+00DF"),
                  ("\u03bb", "Greek lambda U+03BB"), ("\u2192", "arrow U+2192"), ("\u201c", "curly quote U+201C"),
                  ("\U0001f600", "emoji U+1F600")]
STR_CHARS = re.compile(r"\bstr>?::chars$")


def text_reaches_message_rule(rep, B, f, ctx, blocks):
    """`A file that differs from the expected output only in line endings and is valid UTF-8 text reaches the
    line-ending message`: every condition between the comparison and the message must be one a text file satisfies.
    Recognised: from_utf8(..) is Ok, lines().eq(lines()) (R33.4 proper), and a per-character test
    `chars().any(pred)` / `chars().all(pred)` whose predicate is evaluated on its MIR for representative text characters
    (ASCII and non-ASCII).  Anything else fails closed."""
    fn = short(f.npath)
    after_cmp = set()
    for _, _, d, _, _ in ctx.cmps:
        after_cmp |= f.reachable(d)
    seen = set()
    ntests = 0
    root = Frame(f)
    for b in blocks:
        for cfr, gsw, vals, o in conds_at(B, root, b):
            cf = cfr.f
            if (cf.path, gsw) in seen or (cfr.parent is None and gsw not in after_cmp):
                continue
            seen.add((cf.path, gsw))
            if o.get("kind") == "discr":
                of = o.get("of", {})
                names = {o["vars"].get(v) for v in vals if v != "else"} | \
                    ({n for v, n in o["vars"].items() if v not in cf.switch_targets(gsw)} if "else" in vals else set())
                ok = of.get("kind") == "call" and of["call"].matches("str::from_utf8") and names == {"Ok"}
                rep.ob("R33.4", f"{fn}: conditions before the line-ending message hold for every UTF-8 text file "
                                f"(enum test is `from_utf8(..)` = Ok)", ok,
                       f"the message additionally requires {o.get('ty')} to be {sorted(map(str, names))}", cf.loc(gsw))
                continue
            o, n2 = strip_not(o)
            pol = edge_polarity(vals, n2)
            if o.get("kind") == "call" and o["call"].matches("Iterator::eq"):
                continue        # the lines().eq(lines()) test itself
            adaptor = None
            if o.get("kind") == "call":
                adaptor = "any" if o["call"].matches("Iterator::any") else "all" if o["call"].matches("Iterator::all") else None
            if adaptor is None:
                what = short(mir.norm(o["call"].callee)) if o.get("kind") == "call" else o.get("kind")
                rep.ob("R33.4", f"{fn}: conditions before the line-ending message hold for every UTF-8 text file "
                                f"(only from_utf8 / chars().any / chars().all / lines().eq are understood)", False,
                       f"unrecognised condition on `{what}`: cannot establish that a text file with CRLF line endings "
                       f"reaches the message", cf.loc(gsw))
                continue
            ntests += 1
            ac = o["call"]
            # a text file satisfies `any(p) == false` iff p is false for all its chars, `all(p) == true` iff p is true for all
            want_edge = (adaptor == "all")
            rep.ob("R33.4", f"{fn}: the per-character text test is required with the outcome a text file produces "
                            f"(`any` = false or `all` = true)", pol is want_edge,
                   f"the message requires chars().{adaptor}(..) = {str(pol).lower()}: only files that contain a rejected "
                   f"character (or none at all) can reach it", cf.loc(gsw))
            src, top = xtrace(cfr, ac.args[0])
            rep.ob("R33.4", f"{fn}: the per-character text test scans the chars of the file read (or of the generated text)",
                   any(x.matches(STR_CHARS) for _, x in src) and
                   (any(g_ is f and x.bb == r.bb for g_, x in src for r in ctx.reads) or
                    (top is not None and ctx.view_contents(top))), "", cf.loc(ac.bb))
            po = cf.origin(ac.args[1]) if len(ac.args) > 1 else {}
            name = po.get("rv", {}).get("closure") if po.get("kind") == "agg" else po.get("fn")
            preds = B.by_name.get(mir.norm(name), []) if name else []
            if len(preds) != 1:
                rep.ob("R33.4", f"{fn}: the per-character predicate is a closure / fn of the CLI crate", False,
                       f"{name}", cf.loc(ac.bb))
                continue
            g = preds[0]
            rep.saw(g)
            passes = (lambda ch: eval_char_pred(g, ch) is want_edge)      # what keeps the file `text`
            for title, chars in (("CR, LF and TAB count as text", TEXT_EOL),
                                 ("ASCII letters, digits, punctuation and space count as text", TEXT_ASCII),
                                 ("non-ASCII text characters (accented letters, symbols, CJK, U+00A0, emoji) count as text",
                                  TEXT_NON_ASCII)):
                bad = [nm for ch, nm in chars if not passes(ch)]
                rep.ob("R33.4", f"{fn}: {title}", not bad,
                       f"treated as binary: {', '.join(bad)} - a UTF-8 text file containing such a character and differing "
                       f"only in line endings is reported as a generic `not up to date`", g.loc())
    return ntests


def crlf_rule(rep, B, ctxs):
    """R33.4: the line-ending message is built only under `a.lines().eq(b.lines())` of the two texts."""
    c = B.c
    pat = re.compile(r"line.?ending|CRLF", re.I)
    sites = []
    for fi in synq.all_fns(BIN_SRC):
        macs = [m for m in synq.macros(fi.body) if any(pat.search(s.get("v", "")) for s in synq.strings(m))]

        def inside(o, m):
            return o is not m and tuple(o["sp"]) != tuple(m["sp"]) and \
                (m["sp"][0], m["sp"][1]) <= (o["sp"][0], o["sp"][1]) and (o["sp"][2], o["sp"][3]) <= (m["sp"][2], m["sp"][3])
        for m in macs:
            if not any(inside(o, m) for o in macs):      # innermost macro around the literal
                sites.append((fi, m))
    rep.floor("R33.4", "line-ending message literal in the CLI source", len(sites), 1)
    by_fn = {ctx.f.path: ctx for ctx in ctxs}
    n = 0
    for fi, m in sites:
        l0, c0, l1, c1 = m["sp"]
        for f in c.fns.values():
            if f.file != BIN_SRC:
                continue
            blocks = []
            for b in sorted(f.live):
                t = f.term(b)
                sp = t.get("sp")
                if t["k"] == "call" and sp and sp["f"] == BIN_SRC and (l0, c0) <= (sp["l"], sp["c"]) and \
                        (sp.get("el", sp["l"]), sp.get("ec", 0)) <= (l1, c1):
                    blocks.append(b)
            if not blocks:
                continue
            n += len(blocks)
            if f.path not in by_fn:
                rep.ob("R33.4", "the line-ending message is built in the function that reads and compares the file", False,
                       f"built in {short(f.npath)}; its guard cannot be related to the comparison", f.loc(blocks[0]))
                continue
            ctx = by_fn[f.path]
            verdicts = []
            for b in blocks:
                good = False
                why = "no dominating `Iterator::eq` true edge"
                for cfr, gsw, vals, o in conds_at(B, Frame(f), b):
                    o, n2 = strip_not(o)
                    if o.get("kind") != "call" or not o["call"].matches("Iterator::eq") or edge_polarity(vals, n2) is not True:
                        continue
                    sides = []
                    for a in o["call"].args[:2]:
                        calls, top = xtrace(cfr, a)
                        is_lines = bool(calls) and calls[0][1].matches(STR_LINES)
                        from_read = any(g_ is f and x.bb == r.bb for g_, x in calls for r in ctx.reads)
                        from_contents = not from_read and top is not None and ctx.view_contents(top)
                        sides.append((is_lines, from_read, from_contents))
                    if len(sides) == 2 and all(s[0] for s in sides) and \
                            ((sides[0][1] and sides[1][2]) or (sides[1][1] and sides[0][2])):
                        good = True
                    else:
                        why = "Iterator::eq operands are not lines() of the file read and of the generated contents: " \
                              f"(is_lines, from_read, from_contents) = {sides}"
                verdicts.append((good, why, b))
            badv = [v for v in verdicts if not v[0]]
            rep.ob("R33.4", f"{short(f.npath)}: the line-ending message is reached only through "
                            f"`prev.lines().eq(contents.lines())` = true", not badv,
                   badv[0][1] if badv else "", f.loc(badv[0][2] if badv else blocks[0]))
            rep.guard("R33.4", f"text reaches the message in {short(f.npath)}",
                      lambda f=f, ctx=ctx, blocks=blocks: text_reaches_message_rule(rep, B, f, ctx, blocks))
            # the message sits on the `differs` side of the comparison
            rep.ob("R33.4", f"{short(f.npath)}: the line-ending message is on the `bytes differ` side",
                   bool(ctx.cmps) and all(any(b in f.reachable(d) and b not in f.reachable(e, avoid=ctx.succ)
                                              for _, _, d, e, _ in ctx.cmps) for b in blocks), "", f.loc(blocks[0]))
    rep.floor("R33.4", "MIR sites building the line-ending message", n, 1)


# ---------------------------------------------------------------------------------------------- who may write
def segs(path):
    out, depth, cur, i = [], 0, "", 0
    while i < len(path):
        ch = path[i]
        if ch in "<([":
            depth += 1
        elif ch in ">)]" and not (ch == ">" and i > 0 and path[i - 1] == "-"):
            depth -= 1
        if depth == 0 and path.startswith("::", i):
            out.append(cur)
            cur = ""
            i += 2
            continue
        cur += ch
        i += 1
    out.append(cur)
    return out


class Graph:
    """Over-approximated call graph of the CLI crate and the generator crates."""

    def __init__(self, B):
        self.crates = {n: mir.load("ws", n, "rlib") for n in GEN}
        self.crates[BIN[0] + "#bin"] = B.c
        self.cname = {k: (BIN[0] + "_cli" if k.endswith("#bin") else k) for k in self.crates}
        self.nodes = []           # (ckey, fn)
        self.exact = {}
        self.tail2 = {}
        self.last = {}
        self.impls = {}           # (trait_last, method) -> nodes
        self.ws_traits = set()
        ws_prefix = set(GEN) | {"crate"}
        for ck, c in self.crates.items():
            for f in c.fns.values():
                node = (ck, f)
                self.nodes.append(node)
                gk = self.gname(ck, f.npath)
                self.exact.setdefault(gk, []).append(node)
                s = segs(gk)
                base = [x for x in s if not x.startswith("{closure")]
                self.last.setdefault((s[0], base[-1]), []).append(node)
                if len(base) >= 2:
                    self.tail2.setdefault((s[0], base[-2], base[-1]), []).append(node)
                tr = f.d.get("trait")
                if tr is not None and "{closure" not in f.path:
                    tn = segs(mir.norm(tr))
                    self.impls.setdefault((tn[-1], s[-1]), []).append(node)
                    if tn[0] in ws_prefix:
                        self.ws_traits.add(tn[-1])
        self.by_path = {(ck, f.path): (ck, f) for ck, f in self.nodes}

    def gname(self, ck, p):
        return re.sub(r"\bcrate::", self.cname[ck] + "::", p)

    def resolve(self, ck, raw):
        k = self.gname(ck, mir.norm(raw))
        out = list(self.exact.get(k, []))
        m = re.match(r"^<(.+) as (.+)>::([A-Za-z_0-9]+)$", k)
        if m:
            tl = segs(m.group(2))[-1]
            if tl in self.ws_traits:
                out += self.impls.get((tl, m.group(3)), [])
                for cn in self.cname.values():
                    out += self.tail2.get((cn, tl, m.group(3)), [])
            return out
        s = segs(k)
        if s[0] not in self.cname.values():
            return out
        if len(s) >= 2:
            if s[-2] in self.ws_traits:
                out += self.impls.get((s[-2], s[-1]), [])
            t2 = self.tail2.get((s[0], s[-2], s[-1]), [])
            out += t2
            if not out:
                # re-exported under another module path: every function of that crate with this name
                out += self.last.get((s[0], s[-1]), [])
        return out

    def edges(self, node):
        ck, f = node
        names = set()
        collect_names(f.bbs, names)
        out = []
        for n in names:
            out += self.resolve(ck, n)
        # closures and nested items are reachable from their parent
        pre = f.path + "::{closure"
        for p, g in self.crates[ck].fns.items():
            if p.startswith(pre):
                out.append((ck, g))
        return out

    def closure(self, roots):
        parent = {}
        seen = set()
        st = []
        for r in roots:
            k = (r[0], r[1].path)
            if k not in seen:
                seen.add(k)
                parent[k] = None
                st.append(r)
        while st:
            n = st.pop()
            for m in self.edges(n):
                k = (m[0], m[1].path)
                if k not in seen:
                    seen.add(k)
                    parent[k] = (n[0], n[1].path)
                    st.append(m)
        return seen, parent

    def why(self, parent, k, limit=8):
        out = []
        while k is not None and len(out) < limit:
            out.append(short(self.by_path[k][1].npath))
            k = parent.get(k)
        return " <- ".join(out)


def who_may_write(rep, B):
    G = Graph(B)
    binkey = BIN[0] + "#bin"
    main = B.c.fn("main")
    roots = [(binkey, main)]
    # code the analysed crates cannot see calling back into them: impls of foreign traits (Drop, Display, Default, clap ...)
    for ck, f in G.nodes:
        tr = f.d.get("trait")
        if tr is not None and segs(mir.norm(tr))[-1] not in G.ws_traits:
            roots.append((ck, f))
    seen, parent = G.closure(roots)
    rep.floor("R33.6", "functions scanned in the CLI and generator crates", len(G.nodes), 1500)
    rep.floor("R33.6", "functions reachable from main / foreign-trait impls", len(seen), 1000)
    for f_ in (f for _, f in G.nodes):
        rep.saw(f_)

    # non-vacuity of the dynamic dispatch: every backend's `finish` and the shared `generate` are reachable from main alone
    seen_main, parent_main = G.closure([(binkey, main)])
    for bk in BACKENDS:
        fin = [k for k in seen_main if k[0] == bk and G.by_path[k][1].d.get("trait") is not None and
               segs(mir.norm(G.by_path[k][1].d["trait"]))[-1] == "WorldGenerator" and k[1].endswith("::finish")]
        rep.ob("R33.6", f"closure reaches {bk} WorldGenerator::finish from main", bool(fin), "dyn dispatch not followed")
    rep.ob("R33.6", "closure reaches wit_bindgen_core Files::push from main",
           any(k[0] == "wit_bindgen_core" and k[1].endswith("Files::push") for k in seen_main), "")

    # every file-writing call site in every scanned function
    nsites = 0
    for ck, f in G.nodes:
        for c in f.calls():
            api = write_api(c)
            if not api:
                continue
            nsites += 1
            k = (ck, f.path)
            if ck == binkey:
                rep.ob("R33.6", f"CLI crate: {api} in {short(f.npath)} is one of the check-guarded sites (R33.1)",
                       not B.unguarded(main) and not (f.d.get("trait") is not None and B.unguarded(f)),
                       "see R33.1", f.loc(c.bb))
                continue
            rep.ob("R33.6", f"{ck}: {api} in {short(f.npath)} is not reachable from the CLI",
                   k not in seen, "reachable: " + (G.why(parent, k) if k in seen else ""), f.loc(c.bb))
    rep.floor("R33.6", "file-writing call sites found by the scan (two in main)", nsites, 2)

    # ---- R33.7 child processes in reachable generator code are argument-less stdin -> stdout filters
    nproc = 0
    for ck, f in G.nodes:
        if ck == binkey or (ck, f.path) not in seen:
            continue
        cmds = [(c, CMD.search(mir.norm(c.callee))) for c in f.calls()]
        cmds = [(c, m.group(2)) for c, m in cmds if m]
        if not cmds:
            continue
        for c, meth in cmds:
            if meth == "new":
                nproc += 1
                o = f.origin(c.args[0]) if c.args else {}
                prog = o.get("s")
                rep.ob("R33.7", f"{ck}: child process `{prog}` in {short(f.npath)} is a known stdin->stdout formatter",
                       prog in FILTER_PROGRAMS, "not a file write: the formatter receives the text on a pipe and its "
                       "stdout is captured; an unknown program cannot be classified", f.loc(c.bb))
            rep.ob("R33.7", f"{ck}: Command::{meth} in {short(f.npath)} passes no arguments (only piped stdio)",
                   meth in CMD_OK, "a formatter given arguments (e.g. -w / -i <file>) may write files", f.loc(c.bb))
    rep.floor("R33.7", "formatter child-process sites (clang-format, gofmt)", nproc, 2)

    # ---- calls from the CLI into workspace crates that are not analysed (the `test` subcommand) stay outside the generator flow
    def outside():
        analysed = set(GEN)
        iter_fns = {f.path for f in B.c.fns.values() if f.calls("Files::iter")}
        n = 0
        for f in B.c.fns.values():
            flow = set(f.call_blocks("Files::iter")) | {b for b, g in B.local_refs(f) if g.path in iter_fns}
            for c in f.calls():
                sg = segs(mir.norm(c.callee))
                if sg[0].startswith("wit_bindgen") and sg[0] not in analysed and not sg[0].startswith("<") and \
                        f.d.get("trait") is None:
                    n += 1
                    rep.ob("R33.6", f"{short(f.npath)}: call into unanalysed crate {sg[0]} cannot reach the file loop",
                           not (flow & f.reachable(c.bb)), "", f.loc(c.bb))
        rep.floor("R33.6", "calls from the CLI into wit_bindgen_test (test subcommand)", n, 1)
    rep.guard("R33.6", "outside", outside)


# ---------------------------------------------------------------------------------------------- entry
def run(rep, tier):
    rep.describe(
        "other",
        "Structural necessary conditions of C33. R33.1: every file-mutating call under `main` (std::fs::write, "
        "create_dir_all, or a CLI-crate helper that reaches one) is dominated by the `check == false` edge of a switch on "
        "the options' `check` field, the flag is never reassigned, and the check = true region has no write and cannot "
        "complete successfully except through the loop header. R33.2: the switch on `prev != contents`: differ => no path "
        "continues and every return is an Err; equal => every path goes back to the loop header (never break / return). "
        "R33.3: the read result goes through `?` whose failure edge returns the residual; the comparison is dominated by the "
        "read. R33.4: the blocks building the line-ending message (located by joining the syntax tree's literal span with "
        "MIR spans) are dominated by the true edge of `Iterator::eq` over `str::lines` of the text read and of the "
        "generated text. R33.5: the path read / bytes compared are the operands of the guarded write. R33.6: call-graph "
        "closure from `main` (plus all impls of foreign traits) through `dyn WorldGenerator` and the other workspace "
        "traits over the nine generator crates: no std::fs (non read-only) / File-write API site is reachable other than "
        "the two guarded ones in main. R33.7: child processes in reachable generator code are the known formatters, spawned "
        "without arguments. R33.8: clap declares `check` with ArgAction::SetTrue. Also: the loop walks Files::iter of the "
        "one file set handed to the generator with no skipping adaptor, the holder's Err reaches main's Result (or a "
        "non-zero exit / panic), the destination path has no definition guarded by the flag, and every condition between "
        "the comparison and the line-ending message is one a valid UTF-8 text file satisfies: from_utf8 = Ok, "
        "lines().eq(lines()), and a per-character test chars().any(p) = false / chars().all(p) = true whose predicate p "
        "(a closure or fn of the CLI crate, evaluated by a small MIR interpreter) classifies CR, LF, TAB, ASCII "
        "printables, space and representative non-ASCII characters (accented letters, symbols, CJK, U+00A0, emoji) as "
        "text; any other condition fails closed. "
        "The read + comparison may live in a CLI-crate helper called from the check region (Result-returning). NOT decided: that `lines()` equality is the right notion of a line-ending-only difference "
        "(a missing final newline or a file with control characters is reported differently), behaviour of the file "
        "system between read and compare, what external formatters or third-party crates do, the `test` subcommand "
        "(it has no check mode and writes by design).",
        trusted_base=["rustc nightly MIR (opt-level 0) of src/bin/wit-bindgen.rs and the generator crates",
                      "tools/mirfacts, tools/synfacts", "unwind edges ignored",
                      "std::fs read-only API list in rules/C33.py (everything else under std::fs counts as a writer)"],
        assumptions=["third-party crates called by the generators (wit-parser, wit-component, anyhow, clap, heck, indexmap, "
                     "prettyplease, syn ...) do not write files", "clang-format / gofmt without arguments only filter stdin",
                     "all cargo features of the CLI enabled (config ws)"],
    )
    rep.rule("R33.1", "no file-mutating call is reachable with check = true")
    rep.rule("R33.2", "differ => error return on every path, equal => continue")
    rep.rule("R33.3", "a failed read is propagated; the comparison needs a successful read")
    rep.rule("R33.4", "the line-ending message is produced only under lines().eq(lines())")
    rep.rule("R33.5", "the file read / bytes compared are what the write would use")
    rep.rule("R33.6", "who-may-write: no file-writing API reachable from main through the generator crates")
    rep.rule("R33.7", "child processes of generators are argument-less stdin->stdout formatters")
    rep.rule("R33.8", "the `check` command-line flag is a SetTrue switch")
    box = {}

    def setup():
        box["B"] = Bin(rep)
    rep.guard("R33.0", "load CLI crate", setup)
    if "B" not in box:
        return
    B = box["B"]
    rep.guard("R33.1", "check region", lambda: check_region_rules(rep, B))
    rep.guard("R33.6", "who may write", lambda: who_may_write(rep, B))
