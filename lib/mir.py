"""Queries over the MIR facts written by tools/mirfacts.

A `Crate` is a fact file; a `Fn` wraps one function body with its CFG
(unwind/cleanup blocks are ignored: a panic traps on wasm), dominators,
edge-regions and origin tracing of operands.
"""
import json
import os
import re
from functools import lru_cache

from . import facts


def _match_angle(s, i):
    """index of the `>` matching the `<` at s[i] (ignoring `->`), or -1."""
    depth = 0
    k = i
    while k < len(s):
        c = s[k]
        if c == "<":
            depth += 1
        elif c == ">" and not (k > 0 and s[k - 1] == "-"):
            depth -= 1
            if depth == 0:
                return k
        k += 1
    return -1


def _top_level_as(inner):
    depth = 0
    for k, c in enumerate(inner):
        if c in "<([":
            depth += 1
        elif c in ">)]" and not (c == ">" and k > 0 and inner[k - 1] == "-"):
            depth -= 1
        elif depth == 0 and inner.startswith(" as ", k):
            return k
    return -1


@lru_cache(maxsize=100000)
def norm(path):
    """Strip generic argument lists: `A::<T>::f` -> `A::f`, `<X<'a, T> as Tr<U>>::f` -> `<X as Tr>::f`."""
    out = []
    i = 0
    n = len(path)
    while i < n:
        c = path[i]
        if c == "<":
            j = _match_angle(path, i)
            if j < 0:
                out.append(path[i:])
                break
            inner = path[i + 1:j]
            a = _top_level_as(inner)
            if a >= 0:
                out.append("<" + norm(inner[:a]) + " as " + norm(inner[a + 4:]) + ">")
            elif inner.startswith("impl "):
                out.append("<" + inner + ">")
            else:
                # a generic argument list: drop it, and the `::` of a turbofish before it
                if out and out[-1] == "::":
                    out.pop()
            i = j + 1
            continue
        if path.startswith("::", i):
            out.append("::")
            i += 2
            continue
        out.append(c)
        i += 1
    return "".join(out)


def base_type(ty):
    """`rt::a::Foo<'_, T>` -> `Foo`; `&mut Foo<T>` -> `Foo`."""
    t = ty.strip()
    while t.startswith("&") or t.startswith("mut ") or t.startswith("'"):
        if t.startswith("&"):
            t = t[1:].strip()
        elif t.startswith("mut "):
            t = t[4:].strip()
        else:
            t = t.split(" ", 1)[1] if " " in t else t[1:]
    t = re.sub(r"<.*$", "", t)
    return t.split("::")[-1]


def suffix_match(name, pat):
    if not name.endswith(pat):
        return False
    if len(name) == len(pat):
        return True
    return name[-len(pat) - 1] in ": <"


class Crate:
    def __init__(self, path):
        self.file = path
        self.fns = {}
        self.header = None
        with open(path) as fh:
            for line in fh:
                d = json.loads(line)
                if "header" in d:
                    self.header = d
                else:
                    # several closures / shims may share a path; keep first, index others
                    p = d["path"]
                    if p in self.fns:
                        k = 2
                        while f"{p}#{k}" in self.fns:
                            k += 1
                        p = f"{p}#{k}"
                    self.fns[p] = Fn(d, self)
        self.name = self.header["crate"]
        self.consts = self.header["consts"]
        self.adts = self.header["adts"]
        self.impls = self.header["impls"]

    def fn(self, suffix, required=True):
        """Unique function whose generic-stripped path ends with `suffix` at a path boundary."""
        c = [f for p, f in self.fns.items() if suffix_match(f.npath, suffix)]
        if len(c) == 1:
            return c[0]
        exact = [f for f in c if f.npath == "crate::" + suffix]
        if len(exact) == 1:
            return exact[0]
        if required:
            raise AnchorMissing(f"function `{suffix}` in crate {self.name}: {len(c)} matches")
        return None

    def method(self, self_ty, name, trait=None, required=True):
        """Method `name` of an impl block whose self type's base name is `self_ty` (optionally of a trait)."""
        c = []
        for f in self.fns.values():
            st = f.d.get("self_ty")
            if st is None or base_type(st) != self_ty:
                continue
            if not f.npath.endswith("::" + name):
                continue
            tr = f.d.get("trait")
            if trait is None and tr is not None:
                continue
            if trait is not None and (tr is None or not suffix_match(tr, trait)):
                continue
            c.append(f)
        if len(c) == 1:
            return c[0]
        if required:
            raise AnchorMissing(f"method `{self_ty}::{name}` (trait {trait}) in crate {self.name}: {len(c)} matches")
        return None

    def closures_of(self, f):
        pre = f.path + "::{closure"
        return [g for p, g in self.fns.items() if p.startswith(pre)]

    def fns_matching(self, regex):
        r = re.compile(regex)
        return [f for p, f in self.fns.items() if r.search(p)]

    def const(self, suffix):
        c = [(p, v) for p, v in self.consts.items() if p.endswith("::" + suffix)]
        if len(c) != 1:
            raise AnchorMissing(f"const `{suffix}` in crate {self.name}: {len(c)} matches")
        return int(c[0][1]["v"])

    def adt(self, suffix):
        c = [(p, v) for p, v in self.adts.items() if p.endswith("::" + suffix)]
        if len(c) != 1:
            raise AnchorMissing(f"type `{suffix}` in crate {self.name}: {len(c)} matches")
        return c[0][1]

    def impls_of(self, trait_suffix, self_regex):
        r = re.compile(self_regex)
        return [i for i in self.impls if i["trait"].endswith(trait_suffix) and r.search(i["self"])]


class AnchorMissing(Exception):
    pass


def load(config, crate, kind=None):
    """Load the fact file of `crate` (crate name) for a config.  kind: 'rlib', 'executable', 'procmacro'."""
    d = facts.mir_dir(config)
    c = [f for f in sorted(os.listdir(d)) if f.endswith(".jsonl") and f.split(".")[0] == crate
         and (kind is None or f.split(".")[1] == kind)]
    if len(c) != 1:
        raise AnchorMissing(f"fact file for crate {crate} kind {kind} in config {config}: {c}")
    return _load_file(os.path.join(d, c[0]))


@lru_cache(maxsize=None)
def _load_file(p):
    return Crate(p)


def place_str(p):
    s = "_%d" % p["l"]
    for e in p.get("p", []):
        if e == "*":
            s = "(*%s)" % s
        elif e.startswith("."):
            s += e
        elif e.startswith("as "):
            s = "(%s %s)" % (s, e)
        else:
            s += e
    return s


class Call:
    __slots__ = ("bb", "t", "fn", "res", "callee", "args", "dest", "target", "line", "file", "ga", "ind")

    def __init__(self, bb, t):
        self.bb = bb
        self.t = t
        self.fn = t.get("fn")
        self.res = t.get("res")
        self.callee = self.res or self.fn or "<indirect>"
        self.args = t["args"]
        self.dest = t["d"]
        self.target = t["t"]
        self.line = t["sp"]["l"]
        self.file = t["sp"]["f"]
        self.ga = t.get("ga", "")
        self.ind = t.get("ind")

    def names(self):
        return [n for n in (self.fn, self.res) if n]

    def matches(self, pat):
        """pat: path suffix on the generic-stripped callee (declared or resolved), a compiled regex on the
        raw names, or a list of either."""
        if isinstance(pat, (list, tuple, set)):
            return any(self.matches(p) for p in pat)
        for n in self.names():
            if isinstance(pat, str):
                if suffix_match(norm(n), pat):
                    return True
            elif pat.search(n):
                return True
        return False

    @property
    def arg_types(self):
        return self.t.get("aty", [])

    def __repr__(self):
        return f"call {self.callee} @bb{self.bb} line {self.line}"


class Fn:
    def __init__(self, d, crate):
        self.d = d
        self.crate = crate
        self.path = d["path"]
        self.npath = norm(d["path"])
        self.bbs = d["bbs"]
        self.n = len(self.bbs)
        self.file = d["sp"]["f"]
        self.line = d["sp"]["l"]
        self.locals = d["locals"]
        self.argc = d["argc"]
        self._succ = None
        self._pred = None
        self._dom = None
        self._defs = None
        self._reach = None

    # ---------------------------------------------------------------- CFG
    def term(self, b):
        return self.bbs[b]["t"]

    def stmts(self, b):
        return self.bbs[b]["st"]

    def is_cleanup(self, b):
        return self.bbs[b]["cl"]

    @property
    def succ(self):
        if self._succ is None:
            s = []
            for b in self.bbs:
                t = b["t"]
                k = t["k"]
                if b["cl"]:
                    s.append([])
                elif k == "goto":
                    s.append([t["t"]])
                elif k == "switch":
                    o = []
                    for _, tb in t["ts"]:
                        if tb not in o:
                            o.append(tb)
                    if t["else"] not in o:
                        o.append(t["else"])
                    s.append(o)
                elif k in ("drop", "assert"):
                    s.append([t["t"]])
                elif k == "call":
                    s.append([t["t"]] if t["t"] >= 0 else [])
                else:
                    s.append([])
            # drop edges into cleanup blocks (should not exist on normal edges)
            self._succ = [[x for x in o if not self.bbs[x]["cl"]] for o in s]
        return self._succ

    @property
    def pred(self):
        if self._pred is None:
            p = [[] for _ in range(self.n)]
            for a, ss in enumerate(self.succ):
                for b in ss:
                    p[b].append(a)
            self._pred = p
        return self._pred

    def reachable(self, start=0, avoid=(), avoid_edges=()):
        """Blocks reachable from `start` without entering `avoid` blocks or taking `avoid_edges`."""
        avoid = set(avoid)
        avoid_edges = set(avoid_edges)
        if start in avoid:
            return set()
        seen = {start}
        st = [start]
        while st:
            a = st.pop()
            for b in self.succ[a]:
                if b in seen or b in avoid or (a, b) in avoid_edges:
                    continue
                seen.add(b)
                st.append(b)
        return seen

    @property
    def live(self):
        if self._reach is None:
            self._reach = self.reachable(0)
        return self._reach

    @property
    def dom(self):
        """dom[b] = set of blocks dominating b (reachable blocks only)."""
        if self._dom is None:
            live = sorted(self.live)
            allb = set(live)
            dom = {b: set(allb) for b in live}
            dom[0] = {0}
            changed = True
            # reverse post-order would be faster; sizes here are small enough
            order = self._rpo()
            while changed:
                changed = False
                for b in order:
                    if b == 0:
                        continue
                    ps = [p for p in self.pred[b] if p in allb]
                    new = set.intersection(*(dom[p] for p in ps)) if ps else set()
                    new = new | {b}
                    if new != dom[b]:
                        dom[b] = new
                        changed = True
            self._dom = dom
        return self._dom

    def _rpo(self):
        seen = set()
        out = []
        st = [(0, iter(self.succ[0]))]
        seen.add(0)
        while st:
            b, it = st[-1]
            adv = False
            for s in it:
                if s not in seen:
                    seen.add(s)
                    st.append((s, iter(self.succ[s])))
                    adv = True
                    break
            if not adv:
                out.append(b)
                st.pop()
        out.reverse()
        return out

    def dominates(self, a, b):
        return b in self.dom and a in self.dom[b]

    def set_dominates(self, aset, b):
        """Every path entry -> b passes some block of aset."""
        if b in aset:
            return True
        return b not in self.reachable(0, avoid=aset)

    def returns(self):
        return [b for b in self.live if self.term(b)["k"] == "return"]

    def all_paths_pass(self, frm, to_set, through):
        """Every path frm -> any of to_set passes a block in `through` (frm itself counts)."""
        through = set(through)
        if frm in through:
            return True
        r = self.reachable(frm, avoid=through)
        return not (r & set(to_set))

    def in_cycle(self, b):
        for s in self.succ[b]:
            if b in self.reachable(s):
                return True
        return False

    def edge_region(self, a, b):
        """Blocks that can only be reached through the edge a->b."""
        without = self.reachable(0, avoid_edges=[(a, b)])
        return self.live - without

    # ---------------------------------------------------------------- calls
    def calls(self, pat=None):
        out = []
        for b in sorted(self.live):
            t = self.term(b)
            if t["k"] == "call":
                c = Call(b, t)
                if pat is None or c.matches(pat):
                    out.append(c)
        return out

    def call_blocks(self, pat):
        return [c.bb for c in self.calls(pat)]

    def one_call(self, pat):
        c = self.calls(pat)
        if len(c) != 1:
            raise AnchorMissing(f"{self.path}: expected exactly one call matching {pat!r}, found {len(c)}")
        return c[0]

    # ---------------------------------------------------------------- defs / origins
    @property
    def defs(self):
        """local -> list of (bb, idx, kind, payload): assignments (whole-local) and call destinations."""
        if self._defs is None:
            d = {}
            for b in range(self.n):
                if self.bbs[b]["cl"]:
                    continue
                for i, s in enumerate(self.bbs[b]["st"]):
                    if s["k"] == "=" and not s["p"].get("p"):
                        d.setdefault(s["p"]["l"], []).append((b, i, "assign", s["rv"]))
                    elif s["k"] == "=":
                        d.setdefault(s["p"]["l"], []).append((b, i, "partial", s))
                t = self.bbs[b]["t"]
                if t["k"] == "call" and not t["d"].get("p"):
                    d.setdefault(t["d"]["l"], []).append((b, -1, "call", t))
            self._defs = d
        return self._defs

    def origin(self, op, depth=12):
        """Describe where an operand's value comes from, following copies/moves/refs/casts.

        Returns a dict: {'kind': 'const', 'v':int} | {'kind':'arg','n':i} |
        {'kind':'call','call':Call} | {'kind':'discr','place':..., 'vars':...} |
        {'kind':'bin','op':..,'a':origin,'b':origin} | {'kind':'place','place':str,...} |
        {'kind':'agg',...} | {'kind':'unknown'}
        """
        if "c" in op:
            o = {"kind": "const", "ty": op.get("ty")}
            if "v" in op:
                o["v"] = int(op["v"])
            if "fn" in op:
                o["fn"] = op["fn"]
            if "s" in op:
                o["s"] = op["s"]
            if "def" in op:
                o["def"] = op["def"]
            return o
        p = op.get("cp") or op.get("mv")
        if p is None:
            return {"kind": "unknown"}
        return self.place_origin(p, depth)

    def place_origin(self, p, depth=12):
        l = p["l"]
        proj = p.get("p", [])
        if depth <= 0:
            return {"kind": "unknown"}
        if 1 <= l <= self.argc:
            return {"kind": "arg", "n": l, "proj": proj, "place": place_str(p)}
        ds = [x for x in self.defs.get(l, []) if x[2] != "partial"]
        if len(ds) != 1:
            return {"kind": "place", "place": place_str(p), "ndefs": len(ds), "local": l, "proj": proj}
        b, i, kind, payload = ds[0]
        if kind == "call":
            return {"kind": "call", "call": Call(b, payload), "proj": proj}
        rv = payload
        k = rv["k"]
        if k == "use":
            o = self.origin(rv["o"], depth - 1)
            if proj:
                o = dict(o)
                o["proj"] = list(o.get("proj", [])) + proj
                if "place" in o:
                    o["place"] = o["place"] + "".join(x if x != "*" else ".*" for x in proj)
            return o
        if k in ("ref", "rawptr"):
            inner = rv["p"]
            # &(*x) / &x.f  -> origin of the inner place, remembering the path
            base = self.place_origin({"l": inner["l"]}, depth - 1)
            o = dict(base)
            o["proj"] = list(base.get("proj", [])) + inner.get("p", []) + ["&"] + proj
            if "place" in base:
                o["place"] = base["place"] + "".join(x if x != "*" else ".*" for x in inner.get("p", []))
            elif base["kind"] == "unknown":
                o = {"kind": "place", "place": place_str(inner), "proj": inner.get("p", [])}
            return o
        if k == "cast":
            o = self.origin(rv["o"], depth - 1)
            o = dict(o)
            o.setdefault("casts", []).append(rv["ty"])
            return o
        if k == "discr":
            return {"kind": "discr", "place": place_str(rv["p"]), "of": self.place_origin(rv["p"], depth - 1),
                    "ty": rv["ty"], "vars": {int(v): n for v, n in rv.get("vars", [])}}
        if k == "bin":
            return {"kind": "bin", "op": rv["op"], "a": self.origin(rv["a"], depth - 1),
                    "b": self.origin(rv["b"], depth - 1)}
        if k == "un":
            return {"kind": "un", "op": rv["op"], "a": self.origin(rv["a"], depth - 1)}
        if k == "agg":
            # a field projection on a freshly built tuple / struct is the corresponding operand
            if proj and isinstance(proj[0], str) and proj[0].startswith("."):
                fld = proj[0][1:]
                idx = None
                if "tuple" in rv and fld.isdigit():
                    idx = int(fld)
                elif "fields" in rv and fld in rv["fields"]:
                    idx = rv["fields"].index(fld)
                elif "closure" in rv and fld.isdigit():
                    idx = int(fld)
                if idx is not None and idx < len(rv["ops"]):
                    o = dict(self.origin(rv["ops"][idx], depth - 1))
                    rest = proj[1:]
                    if rest:
                        o["proj"] = list(o.get("proj", [])) + rest
                        if "place" in o:
                            o["place"] = o["place"] + "".join(x if x != "*" else ".*" for x in rest)
                    return o
            return {"kind": "agg", "rv": rv, "bb": b}
        return {"kind": "unknown", "rv": k}

    # ---------------------------------------------------------------- switches
    def switches(self):
        out = []
        for b in sorted(self.live):
            t = self.term(b)
            if t["k"] == "switch":
                out.append((b, t))
        return out

    def switch_targets(self, b):
        """dict value(int) -> target, plus 'else' -> target."""
        t = self.term(b)
        m = {int(v): tb for v, tb in t["ts"]}
        m["else"] = t["else"]
        return m

    def switch_origin(self, b):
        return self.origin(self.term(b)["d"])

    def guard_edges(self, site):
        """List of (switch_bb, value_label, origin) for switch edges that dominate `site`:
        the site is reachable only through that edge of the switch."""
        out = []
        for b, t in self.switches():
            if not self.dominates(b, site) or b == site:
                continue
            tg = self.switch_targets(b)
            # group values by target
            by_t = {}
            for v, tb in tg.items():
                by_t.setdefault(tb, []).append(v)
            for tb, vals in by_t.items():
                # site only reachable via edge b->tb ?
                others = [(b, x) for x in by_t if x != tb]
                if not others:
                    continue
                r = self.reachable(0, avoid_edges=[(b, tb)])
                if site not in r:
                    out.append((b, vals, self.switch_origin(b)))
        return out

    # ---------------------------------------------------------------- aggregates / stores
    def aggregates(self, adt_suffix=None, variant=None):
        """Sites constructing an ADT value: list of (bb, idx, rv)."""
        out = []
        for b in sorted(self.live):
            for i, s in enumerate(self.stmts(b)):
                if s["k"] == "=" and s["rv"]["k"] == "agg" and "adt" in s["rv"]:
                    rv = s["rv"]
                    if adt_suffix and not (rv["adt"].endswith("::" + adt_suffix) or rv["adt"] == adt_suffix):
                        continue
                    if variant and rv["var"] != variant:
                        continue
                    out.append((b, i, rv, s))
        return out

    def field_stores(self, field):
        """Assignments whose destination place ends in `.field`: list of (bb, idx, stmt)."""
        out = []
        for b in sorted(self.live):
            for i, s in enumerate(self.stmts(b)):
                if s["k"] == "=" and s["p"].get("p") and s["p"]["p"][-1] == "." + field:
                    out.append((b, i, s))
        return out

    def stored(self, s):
        """Origin of the value an assignment statement stores (looks through a temporary)."""
        rv = s["rv"]
        if rv["k"] == "agg":
            return {"kind": "agg", "rv": rv}
        if rv["k"] == "use":
            return self.origin(rv["o"])
        return {"kind": "rv", "rv": rv}

    def stores_variant(self, s, variant):
        o = self.stored(s)
        return o.get("kind") == "agg" and o["rv"].get("var") == variant

    def stores_const(self, s, value):
        o = self.stored(s)
        return o.get("kind") == "const" and o.get("v") == value

    def const_uses(self, value=None):
        out = []
        for b in sorted(self.live):
            for i, s in enumerate(self.stmts(b)):
                if s["k"] == "=":
                    out.append((b, i, s))
        return out

    def drops(self, ty_regex=None):
        out = []
        r = re.compile(ty_regex) if ty_regex else None
        for b in sorted(self.live):
            t = self.term(b)
            if t["k"] == "drop" and (r is None or r.search(t["ty"])):
                out.append((b, t))
        return out

    def loc(self, b=None):
        if b is None:
            return f"{self.file}:{self.line}"
        t = self.term(b)
        sp = t.get("sp")
        if sp:
            return f"{sp['f']}:{sp['l']}"
        for s in self.stmts(b):
            return f"{s['sp']['f']}:{s['sp']['l']}"
        return f"{self.file}:{self.line}"

    def local_named(self, name):
        """locals carrying a source-level variable name."""
        out = []
        for k, p in self.d["names"].items():
            if k.split("@")[0] == name:
                out.append(p)
        return out
