"""Shared helpers for the runtime-crate rule modules (C07, C08, C18-C24)."""
from lib import mir

QUICK = ["full"]
THOROUGH = ["full", "async_std", "async_nostd", "default"]


def configs(tier):
    return THOROUGH if tier == "thorough" else QUICK


def rt(config):
    return mir.load(config, "wit_bindgen", "rlib")


def is_true_edge(vals):
    """switch on a bool: the `true` edge is the `else` target (switchInt(x) [0 -> F] else T)."""
    return "else" in vals and 0 not in vals


def is_false_edge(vals):
    return 0 in vals and "else" not in vals


def origin_is_call(o, pat):
    return o.get("kind") == "call" and o["call"].matches(pat)


def every_return_passes(f, blocks, frm=0):
    """Every path frm -> return passes one of `blocks`."""
    return f.all_paths_pass(frm, f.returns(), blocks)


def bool_switches_on_call(f, pat):
    """switch blocks whose discriminant is the bool result of a call matching pat.
    Returns list of (switch_bb, false_target, true_target)."""
    out = []
    for b, t in f.switches():
        o = f.switch_origin(b)
        neg = False
        while o.get("kind") == "un" and o.get("op") == "Not":
            o = o["a"]
            neg = not neg
        if origin_is_call(o, pat):
            tg = f.switch_targets(b)
            ft, tt = tg.get(0), tg["else"]
            if neg:
                ft, tt = tt, ft
            out.append((b, ft, tt))
    return out


def discr_switches(f, place_pred=None, ty_sub=None):
    """switches on an enum discriminant; returns list of (bb, {variant_name: target, 'else': target}, origin)."""
    out = []
    for b, t in f.switches():
        o = f.switch_origin(b)
        if o.get("kind") != "discr":
            continue
        if ty_sub and ty_sub not in o["ty"]:
            continue
        if place_pred and not place_pred(o):
            continue
        tg = f.switch_targets(b)
        m = {}
        for v, tb in tg.items():
            if v == "else":
                m["else"] = tb
            else:
                m[o["vars"].get(v, str(v))] = tb
        # name the variants covered by `else`
        rest = [n for v, n in o["vars"].items() if v not in tg]
        m["_else_variants"] = rest
        out.append((b, m, o))
    return out


def variant_target(m, name):
    """target block for enum variant `name` in a discr switch map (explicit or through else)."""
    if name in m:
        return m[name]
    if name in m.get("_else_variants", []):
        return m["else"]
    return None


def region_from(f, sw, target):
    """blocks only reachable through edge sw->target"""
    return f.edge_region(sw, target)


def calls_in(f, blocks, pat):
    return [c for c in f.calls(pat) if c.bb in blocks]


def ind_calls(f, field=None):
    """indirect calls (fn pointer); optionally those whose pointer was read from a place ending in .field"""
    out = []
    for c in f.calls():
        if c.ind is None:
            continue
        if field is None:
            out.append(c)
            continue
        o = f.origin(c.ind)
        pr = o.get("proj", [])
        if ("." + field) in pr or o.get("place", "").endswith("." + field):
            out.append(c)
    return out


# ---------------------------------------------------------------- inline view
# A rule that looks for a call / store in function F also looks inside same-crate callees of F the rule does not
# know by name (private helpers), and inside closures of F handed to them, so that extracting a helper is invisible.

_CLOSURE_CALL = ["FnOnce::call_once", "FnMut::call_mut", "Fn::call"]


class Site:
    """A site of the inline view: chain = ((fn, bb), ...) from the analysed function (call blocks) down to the
    function containing the site.  opaque: reached through code we cannot see (closure given to a foreign fn)."""
    __slots__ = ("chain", "opaque")

    def __init__(self, chain, opaque=False):
        self.chain = tuple(chain)
        self.opaque = opaque

    @property
    def top(self):
        return self.chain[0][1]

    @property
    def fn(self):
        return self.chain[-1][0]

    @property
    def bb(self):
        return self.chain[-1][1]

    def must(self, k=0):
        """the site is executed whenever the call at chain[k] returns (it lies on every entry->return path of
        every inlined function below level k)."""
        if self.opaque and len(self.chain) > k + 1:
            return False
        return all(g.all_paths_pass(0, g.returns(), [b]) for g, b in self.chain[k + 1:])

    def once(self):
        return not self.opaque and all(not g.in_cycle(b) for g, b in self.chain)

    def loc(self):
        return self.fn.loc(self.bb)

    def __repr__(self):
        return "site<" + " > ".join(f"{g.npath.split('::')[-1]}:bb{b}" for g, b in self.chain) + ">"


def crate_callee(c, call):
    """the same-crate function a direct call resolves to (None: foreign, indirect or trait-dispatched)."""
    if call.ind is not None:
        return None
    idx = getattr(c, "_by_npath", None)
    if idx is None:
        idx = {}
        for g in c.fns.values():
            idx.setdefault(g.npath, []).append(g)
        c._by_npath = idx
    for n in (call.res, call.fn):
        if n:
            gs = idx.get(mir.norm(n), [])
            if len(gs) == 1:
                return gs[0]
    return None


def passed_closures(c, f, call):
    """[(argument index, closure of f)] for the closures of f given as arguments of `call`."""
    kids = {k.path: k for k in c.closures_of(f)}
    out = []
    for i, a in enumerate(call.args):
        o = f.origin(a)
        if o.get("kind") == "agg" and "closure" in o.get("rv", {}):
            k = kids.get(o["rv"]["closure"])
            if k is not None:
                out.append((i, k))
    return out


def closure_param_calls(g, i):
    """blocks of g that invoke (FnOnce/FnMut/Fn) its i-th parameter."""
    out = []
    for x in g.calls(_CLOSURE_CALL):
        o = g.origin(x.args[0]) if x.args else {}
        if o.get("kind") == "arg" and o.get("n") == i + 1:
            out.append(x.bb)
    return out


def inline_sites(c, f, finder, known=(), depth=2, _chain=(), _stack=()):
    """Sites `finder(g) -> [bb]` finds in f and, transitively (depth levels), in same-crate callees of f that do
    not match `known` (names the rule reasons about itself) and in closures of f passed to a callee."""
    out = [Site(_chain + ((f, b),)) for b in finder(f)]
    if depth <= 0:
        return out
    stack = _stack + (f.path,)
    for call in f.calls():
        if known and call.matches(list(known)):
            continue
        g = crate_callee(c, call)
        here = _chain + ((f, call.bb),)
        ks = passed_closures(c, f, call)
        if g is not None and g.path not in stack:
            out += inline_sites(c, g, finder, known, depth - 1, here, stack)
            for i, k in ks:
                for y in closure_param_calls(g, i):
                    out += inline_sites(c, k, finder, known, depth - 1, here + ((g, y),), stack + (g.path,))
        else:
            for _, k in ks:
                for s in inline_sites(c, k, finder, known, depth - 1, here, stack):
                    out.append(Site(s.chain, True))
    return out


def _at_level(A, s, k):
    g = s.chain[k][0]
    return [a for a in A if len(a.chain) > k and a.chain[:k] == s.chain[:k] and a.chain[k][0] is g]


def site_dominated(A, s, k=0):
    """Every path from the entry of the analysed function to site s has passed (completely) a site of A."""
    g, b = s.chain[k]
    cand = _at_level(A, s, k)
    doms = {a.chain[k][1] for a in cand if a.chain[k][1] != b and a.must(k)}
    if doms and g.set_dominates(doms, b):
        return True
    same = [a for a in cand if a.chain[k][1] == b]
    if len(s.chain) == k + 1:
        return any(len(a.chain) == k + 1 for a in same)
    return site_dominated([a for a in same if len(a.chain) > k + 1], s, k + 1)


def site_after(r, i):
    """site i can execute after site r."""
    for k in range(min(len(r.chain), len(i.chain))):
        (g, br), (h, bi) = r.chain[k], i.chain[k]
        if g is not h:
            return True     # different callees of one block: cannot order, assume the worst
        if br != bi:
            return bi in g.reachable(br)
        if g.in_cycle(br):
            return True
    return False


def sites_on_all_paths_after(r, A):
    """Every path from just after site r to a return of the analysed function passes a site of A."""
    for k in range(len(r.chain) - 1, -1, -1):
        g, b = r.chain[k]
        thr = {a.chain[k][1] for a in _at_level(A, r, k) if a.chain[k][1] != b and a.must(k)}
        if all(g.all_paths_pass(s, g.returns(), thr) for s in g.succ[b]):
            return True
    return False


def every_return_passes_site(f, A):
    """Every entry->return path of f passes (completely) a site of A; False when A is empty."""
    thr = {a.top for a in A if a.chain[0][0] is f and a.must(0)}
    return bool(thr) and f.all_paths_pass(0, f.returns(), thr)


def callers_of(c, g):
    """(direct callers of g in the crate, address_taken): address_taken is True when g's name occurs in a body
    other than as the callee of a call (it could then be invoked from anywhere)."""
    callers, taken = [], False

    def walk(x, in_call):
        nonlocal taken
        if isinstance(x, dict):
            if not in_call and isinstance(x.get("fn"), str) and mir.norm(x["fn"]) == g.npath:
                taken = True
            for v in x.values():
                walk(v, False)
        elif isinstance(x, list):
            for v in x:
                walk(v, False)

    for h in c.fns.values():
        for bb in h.bbs:
            for s in bb["st"]:
                walk(s, False)
            t = bb["t"]
            if t["k"] == "call":
                if crate_callee(c, Call_of(bb, t)) is g and h not in callers:
                    callers.append(h)
                for a in t["args"]:
                    walk(a, False)
            else:
                walk(t, False)
    return callers, taken


def Call_of(bb, t):
    return mir.Call(-1, t)
