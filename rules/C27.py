"""C27 — distinct packages get distinct generated module names (version mangling in name_package_module)."""
import string

from lib import synq
from lib.synq import render

PATH = "crates/core/src/path.rs"
SEMVER_ALPHABET = string.digits + string.ascii_letters + ".+-"

CLAIM = dict(
    level="other", engine="synfacts", design="DESIGN.md §5 C27",
    technique="extraction of the character-substitution chain from the syntax tree and an injectivity decision over "
              "the semver alphabet (collision groups of the per-character code + case folding of the trailing conversion)",
    text="Decides whether the version part of a generated module name is an injective function of the semver string "
         "(per-character substitution code over [0-9A-Za-z.+-] followed by the trailing case conversion) and that the "
         "suffix is appended exactly when several packages share namespace and name. Not decided: collisions of the "
         "base name itself after snake-casing (WIT package names are kebab-case and unique case-insensitively).",
    note="syn")

CASE_FOLDING = {"to_snake_case", "to_lowercase", "to_ascii_lowercase", "to_kebab_case", "to_lower_camel_case",
                "to_upper_camel_case", "to_shouty_snake_case", "to_uppercase", "to_ascii_uppercase"}
# heck's case conversions additionally treat every non-alphanumeric as a word boundary and collapse runs of them
SEPARATOR_COLLAPSING = {"to_snake_case", "to_kebab_case", "to_lower_camel_case", "to_upper_camel_case", "to_shouty_snake_case"}


def chain(e):
    """method chain of an expression, innermost first: [(method, args), ...] and the root expression"""
    out = []
    while e.get("k") == "mcall":
        out.append((e["method"], e["args"]))
        e = e["recv"]
    out.reverse()
    return e, out


def lit_str(e):
    if e.get("k") in ("str", "char"):
        return e["v"]
    return None


def run(rep, tier):
    rep.describe(
        "other",
        "R27.1: the `.replace(c, s)` chain applied to the version string is extracted from name_package_module and the "
        "image of every character of the semver alphabet is computed; two characters with the same image make two "
        "different versions collide. R27.2: a case-folding / separator-collapsing conversion applied after the "
        "substitution makes versions differing only in letter case (or in which separator is used) collide. R27.3: "
        "the version suffix is used exactly when more than one package has the same namespace AND name, and the "
        "unversioned member keeps the bare name. Only the mangling function is decided, not a concrete world.",
        trusted_base=["syn parse of crates/core/src/path.rs", "semver grammar: identifiers over [0-9A-Za-z-], separators . and +",
                      "heck case conversions fold case and treat non-alphanumerics as word boundaries"],
    )
    f = synq.find_fn(PATH, "name_package_module")
    rep.saw(f"{PATH}::name_package_module")
    rep.saw(file=PATH)

    def r1():
        # the `let version = <chain>` whose chain contains replace(...) calls
        cands = []
        for nm, init, st in synq.bindings(f.body):
            if init is None:
                continue
            root, ch = chain(init)
            if any(m == "replace" for m, _ in ch):
                cands.append((nm, root, ch, st))
        rep.floor("R27.1", "version mangling chains", len(cands), 1)
        if len(cands) != 1:
            rep.ob("R27.1", "exactly one version mangling chain", False, f"{len(cands)} found", f.loc())
            return
        nm, root, ch, st = cands[0]
        rep.ob("R27.1", "the chain starts from the version's string form", render(root) in ("version", "version.to_string()") or
               (ch and ch[0][0] == "to_string"), render(root), f.loc(st))
        image = {c: c for c in SEMVER_ALPHABET}
        unknown = []
        for m, args in ch:
            if m == "to_string":
                continue
            if m == "replace":
                a, b = lit_str(args[0]), lit_str(args[1])
                if a is None or b is None:
                    unknown.append(render(args))
                    continue
                image = {c: v.replace(a, b) for c, v in image.items()}
            elif m in CASE_FOLDING:
                continue
            else:
                unknown.append(m)
        rep.ob("R27.1", "every step of the chain is understood", not unknown, f"{unknown}", f.loc(st))
        groups = {}
        for c, v in image.items():
            groups.setdefault(v, []).append(c)
        coll = sorted("".join(sorted(g)) for g in groups.values() if len(g) > 1)
        if not coll:
            rep.ob("R27.1", "version characters keep distinct images", True, "", f.loc(st))
        for g in coll:
            rep.ob("R27.1", f"characters `{g}` of a version keep distinct images", False,
                   f"all of `{g}` are rewritten to `{image[g[0]]}`: e.g. versions 1.0.0-a.b and 1.0.0-a-b get the same module name",
                   f.loc(st))
        # prefix-freeness is trivial here (all images have length 1) unless a replacement is longer
        multi = {c: v for c, v in image.items() if len(v) != 1}
        rep.ob("R27.1", "the per-character code is length-preserving (uniquely decodable)", not multi or
               len(set(multi.values())) == len(multi), f"{multi}", f.loc(st), nontrivial=False)
        folds = [m for m, _ in ch if m in CASE_FOLDING]
        rep.ob("R27.2", "no case-folding conversion is applied to the version after substitution", not folds,
               f"`{folds}` lower-cases letters and collapses separators: versions 1.0.0-RC and 1.0.0-rc get the same module name",
               f.loc(st))
    rep.guard("R27.1", "version mangling", r1)

    def r3():
        # ---- resolution of expressions through lets, identity wrappers and same-file helper parameters
        IDENT = {"as_str", "as_ref", "clone", "to_string", "to_owned", "borrow", "as_deref", "deref"}
        helpers = {g.name: g for g in synq.all_fns(PATH) if g.name != f.name and g.body is not None}

        def strip(e):
            while e is not None:
                k = e.get("k")
                if k == "ref" or (k == "unary" and e["op"] == "*"):
                    e = e["e"]
                elif k == "mcall" and e["method"] in IDENT and not e["args"]:
                    e = e["recv"]
                else:
                    break
            return e

        def resolve(e, env, depth=8):
            """Follow plain names through `let` initialisers and helper parameters (env: name -> (expr, env))."""
            e = strip(e)
            while depth and e is not None and e.get("k") == "path" and e["path"] in env:
                e, env = env[e["path"]]
                e = strip(e)
                depth -= 1
            if e is not None and e.get("k") == "field":
                b, _ = resolve(e["base"], env, depth)
                return dict(e, base=b), env
            return e, env

        def env_of(fn, outer=None):
            env = dict(outer or {})
            for nm, init, st in synq.bindings(fn.body):
                if init is not None and st["pat"].get("k") == "p_ident":
                    env[nm] = (init, env.copy())
            return env

        # scopes: the function itself and every same-file helper it calls (one level of call depth is followed
        # transitively up to 3), each with its parameter -> argument environment
        scopes = [(f, env_of(f))]
        seen = {f.name}
        for fn, env in scopes:
            if len(scopes) > 4:
                break
            for call in synq.fn_calls(fn.body):
                nm = synq.short(call["func"]["path"])
                if nm in helpers and nm not in seen:
                    seen.add(nm)
                    h = helpers[nm]
                    penv = {}
                    for pn, a in zip(h.params, call["args"]):
                        if pn:
                            penv[pn] = (a, env)
                    scopes.append((h, env_of(h, penv)))
        cur_pkg = "resolve.packages[id]"

        def is_cur_field(e, env, fld):
            r, _ = resolve(e, env)
            return r is not None and render(r) == f"{cur_pkg}.name.{fld}"

        # ---- every selection over `packages`: its conjuncts
        SELECT = {"filter", "filter_map", "any", "all", "find", "position", "take_while", "skip_while", "find_map"}
        sels = []          # (fn, method node, info)
        for fn, env in scopes:
            for mc in synq.method_calls(fn.body):
                if mc["method"] not in SELECT or "packages" not in render(mc["recv"]):
                    continue
                cl = mc["args"][0] if mc["args"] and mc["args"][0].get("k") == "closure" else None
                info = {"fields": set(), "excl": False, "other": [], "fn": fn.name, "method": mc["method"]}
                sels.append((fn, mc, info))
                if cl is None:
                    info["other"].append("selection is not a closure")
                    continue
                pv = [b["name"] for prm in cl["params"] for b in synq.walk(prm) if b.get("k") == "p_ident"]
                body = cl["body"]
                while body.get("k") == "block" and len(body["stmts"]) == 1 and body["stmts"][0].get("k") == "expr_stmt":
                    body = body["stmts"][0]["e"]
                cond = body
                if body.get("k") == "if":
                    cond = body["cond"]
                    then, els = render(body["then"]).strip("{ }"), render(body.get("else")).strip("{ }")
                    if not (then.startswith("Some(") and els == "None"):
                        info["other"].append("filter_map body is not `if <test> { Some(..) } else { None }`")
                conj = []

                def split(c):
                    if c.get("k") == "binary" and c["op"] == "&&":
                        split(c["l"])
                        split(c["r"])
                    else:
                        conj.append(c)
                split(cond)
                for cj in conj:
                    ok = False
                    if cj.get("k") == "binary" and cj["op"] in ("==", "!="):
                        for a, b in ((cj["l"], cj["r"]), (cj["r"], cj["l"])):
                            ra = render(strip(a))
                            for fld in ("namespace", "name"):
                                if cj["op"] == "==" and any(ra == f"{v}.name.{fld}" for v in pv):
                                    if is_cur_field(b, env, fld):
                                        info["fields"].add(fld)
                                    else:
                                        rb, _ = resolve(b, env)
                                        info["other"].append(f"`{ra}` is compared with `{render(rb)}`, not with the package's own {fld}")
                                    ok = True
                            if cj["op"] == "!=" and ra in pv:
                                rb, _ = resolve(b, env)
                                if render(rb) == "id":
                                    info["excl"] = True
                                    ok = True
                            if ok:
                                break
                    if not ok:
                        info["other"].append(f"extra test `{render(cj)}`")
        rep.ob("R27.3", "one selection of the same-named packages (in name_package_module or a helper it calls)", len(sels) == 1,
               f"{[(i['fn'], i['method']) for _, _, i in sels]}", f.loc())
        if len(sels) != 1:
            return
        sfn, smc, info = sels[0]
        rep.ob("R27.3", "same-package test compares namespace and name with the package's own (unconverted) namespace and name",
               info["fields"] == {"namespace", "name"} and not [o for o in info["other"] if "compared with" in o],
               f"{sorted(info['fields'])} {info['other']}", sfn.loc(smc))
        rep.ob("R27.3", "every package with the same namespace and name is counted, whatever its version",
               not [o for o in info["other"] if "compared with" not in o],
               f"{info['other']}: can drop a same-named package (e.g. the unversioned one) from the count, so a lone versioned "
               "sibling keeps the bare name and collides with it", sfn.loc(smc))
        # the rest of the chain around the selection does not select
        top = smc
        for fn, env in scopes:
            for mc in synq.method_calls(fn.body):
                r_, ch_ = chain(mc)
                if any(args is smc["args"] for m_, args in ch_) and len(ch_) > len(chain(top)[1]):
                    top = mc
        root, ch = chain(top)
        extra = [m_ for m_, args in ch if args is not smc["args"] and m_ not in
                 ("iter", "collect", "into_iter", "values", "map", "count", "len", "is_empty")]
        rep.ob("R27.3", "nothing else in the chain drops packages", not extra, f"{extra}", sfn.loc(smc))
        # ---- how `alone` is derived from the selection
        #  (a) <collected or counted selection without identity exclusion> == 1
        #  (b) !<any(selection with `other != id`)>   (directly or through the helper's value)
        early = []
        for n in synq.walk(f.body):
            if n.get("k") == "if" and n.get("else") is None:
                rets = [r for r in synq.walk(n["then"]) if r.get("k") == "return"]
                if rets and not [m_ for m_ in synq.walk(n["then"]) if m_.get("k") == "match"]:
                    early.append((n, rets))
        rep.ob("R27.3", "a package that is alone with its name keeps the bare name", len(early) == 1 and len(early[0][1]) == 1,
               "", f.loc())
        if len(early) != 1:
            return
        cond = early[0][0]["cond"]
        env0 = scopes[0][1]

        def value_of(e):
            """the selection chain an expression denotes: through lets and a helper call's tail expression"""
            e, _ = resolve(e, env0)
            if e is not None and e.get("k") == "call" and e["func"].get("k") == "path" and synq.short(e["func"]["path"]) in helpers:
                hb = helpers[synq.short(e["func"]["path"])].body
                if hb["stmts"] and hb["stmts"][-1].get("k") == "expr_stmt":
                    return strip(hb["stmts"][-1]["e"])
            return e

        def contains_sel(e):
            return e is not None and any(n is smc for n in synq.walk(e))
        form = None
        if cond.get("k") == "binary" and cond["op"] == "==" and render(cond["r"]) == "1" and cond["l"].get("k") == "mcall" \
                and cond["l"]["method"] in ("len", "count"):
            src = cond["l"] if cond["l"]["method"] == "count" else cond["l"]["recv"]
            v = value_of(src)
            if contains_sel(v) and not info["excl"] and smc["method"] in ("filter", "filter_map"):
                form = "count of same-named packages (itself included) == 1"
        if cond.get("k") == "unary" and cond["op"] == "!":
            v = value_of(cond["e"])
            if contains_sel(v) and v is smc and smc["method"] == "any" and info["excl"]:
                form = "no other package (`!= id`) has the same namespace and name"
        rep.ob("R27.3", "the bare-name decision is `exactly one package has this namespace and name`", form is not None,
               f"condition `{render(cond)}` with selection `{info['method']}` (identity exclusion: {info['excl']})", f.loc(early[0][0]))
        base_names = [nm for nm, init, st in synq.bindings(f.body) if init is not None and render(init).endswith("name.name.to_snake_case()")]
        rep.ob("R27.3", "the bare name is the snake-cased package name", len(base_names) == 1, f"{base_names}", f.loc())
        if early and base_names:
            rep.ob("R27.3", "the early return yields the bare name", all(render(r["e"]) == base_names[0] for r in early[0][1]), "", f.loc())
        # None version keeps the bare name
        m = synq.find_match(f.body, "Some", min_arms=1)
        none_arm = synq.arm_for(m, "None")
        rets = [r for r in synq.walk(none_arm.body) if r.get("k") == "return"] if none_arm else []
        rep.ob("R27.3", "the unversioned member keeps the bare name", bool(base_names) and len(rets) == 1 and
               render(rets[0]["e"]) == base_names[0], "", f.loc(none_arm.node if none_arm else None))
        # final value concatenates base and the mangled version
        fm = synq.fmts(f.body)
        mangled = [nm for nm, init, st in synq.bindings(f.body) if init is not None and any(m_ == "replace" for m_, _ in chain(init)[1])]
        finals = []
        for x in fm:
            if x.name != "format" or x.template is None:
                continue
            hs = x.hole_exprs()
            names = [key if e is None else render(e) for kind_, key, e, off in hs]
            import re as _re
            literal = _re.sub(r"\{[^{}]*\}", "", x.template)
            if len(names) == 2 and literal == "" and base_names and mangled and names == [base_names[0], mangled[0]]:
                finals.append(x)
        rep.ob("R27.3", "the versioned name is the bare name followed by the mangled version", len(finals) == 1,
               f"{[x.template for x in fm]}", f.loc())
    rep.guard("R27.3", "suffix policy", r3)
