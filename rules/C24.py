"""C24 — guest allocation entry points: cabi_realloc shape (syntax tree), Cleanup (MIR), cabi_dealloc template."""
import re

from lib import facts, mir, synq
from lib.synq import render
from .rtcommon import configs, rt, every_return_passes, discr_switches, variant_target

RTMOD = "crates/guest-rust/src/rt/mod.rs"
SHIM = "crates/guest-rust/src/rt/wit_bindgen_cabi_realloc.rs"
RUSTLIB = "crates/rust/src/lib.rs"

CLAIM = dict(
    level="other", engine="synfacts+mirfacts+witness", design="DESIGN.md §5 C24",
    technique="syntax-tree shape rules on the cfg-gated cabi_realloc (no MIR on the native target), MIR path rules on "
              "rt::Cleanup, parse of the embedded cabi_dealloc template, compile_fail witnesses (Cleanup: !Clone, forget consumes)",
    text="Decides the structural clauses: cabi_realloc returns the alignment itself without allocating when both sizes "
         "are zero, allocates with Layout(new_len, align) when old_len is zero, otherwise reallocs with "
         "Layout(old_len, align) to new_len, and only ever returns the pointer on the non-null side of its null test; "
         "Cleanup::new returns (null, None) for size 0 without allocating and otherwise stores the very layout it "
         "allocated with; Drop deallocates self.ptr with self.layout once; the emitted cabi_dealloc skips size 0 and "
         "frees with the given size/align. Contents preservation is the global allocator's (not decided).",
    note="mir+syn")


def use_aliases(fn_body):
    """`use alloc::alloc::{Layout, alloc as allocate, ..}` inside a fn body -> {local_name: original_name}"""
    out = {}
    for n in synq.walk(fn_body):
        if n.get("k") == "item_stmt" and n["item"].get("k") == "use":
            src = n["item"]["src"]
            for m in re.finditer(r"(\w+)\s+as\s+(\w+)", src):
                out[m.group(2)] = m.group(1)
            for m in re.finditer(r"[{,]\s*(\w+)\s*(?=[,}])", src):
                out.setdefault(m.group(1), m.group(1))
    return out


def param_names(fn):
    return [p["pat"]["name"] for p in fn.node["sig"]["params"] if not p.get("self")]


def diverges(block, diverging):
    """every control path through the block ends in a diverging call/macro (no fallthrough, no return)"""
    if block is None:
        return False
    stmts = block["stmts"] if block.get("k") == "block" else [{"k": "expr_stmt", "e": block}]
    if not stmts:
        return False
    last = stmts[-1]
    e = last.get("e") if last.get("k") == "expr_stmt" else None
    if e is None:
        return False
    if any(n.get("k") == "return" for n in synq.walk(block)):
        return False
    return expr_diverges(e, diverging) or any(s.get("k") == "expr_stmt" and expr_diverges(s["e"], diverging) for s in stmts)


def expr_diverges(e, diverging):
    k = e.get("k")
    if k == "macro":
        return synq.short(e["name"]) in ("unreachable", "panic", "todo", "unimplemented")
    if k == "call" and e["func"].get("k") == "path":
        return synq.short(e["func"]["path"]) in diverging
    if k == "if":
        return e.get("else") is not None and diverges(e["then"], diverging) and diverges(e["else"], diverging)
    if k == "block":
        return diverges(e, diverging)
    return False


def run(rep, tier):
    rep.describe(
        "other",
        "R24.1 cabi_realloc (cfg(target_env=p1|\"\"): analysed on the syntax tree, parameters identified by position): "
        "zero/zero returns `align as *mut u8` with no allocation; old_len = 0 allocates Layout(new_len, align); otherwise "
        "realloc(old_ptr, Layout(old_len, align), new_len); the null test's taken branch diverges on every path and the "
        "function returns that pointer only after it; the exported shim forwards its four arguments in order. "
        "R24.2-3 rt::Cleanup on MIR. R24.4 witnesses. R24.5 embedded cabi_dealloc. NOT decided: alignment of the returned "
        "pointer and contents preservation (delegated to the global allocator), heap balance of an execution.",
        trusted_base=["GlobalAlloc contract of alloc/realloc/dealloc", "syn parse (cabi_realloc has no MIR on x86_64)",
                      "rustc MIR of crates/guest-rust"],
    )

    # ------------------------------------------------------------------ R24.1
    def r1():
        f = synq.find_fn(RTMOD, "cabi_realloc")
        rep.saw(f"{RTMOD}::cabi_realloc")
        rep.saw(file=RTMOD)
        ps = param_names(f)
        rep.ob("R24.1", "cabi_realloc takes (old_ptr, old_len, align, new_len)", len(ps) == 4 and
               [p["ty"].replace(" ", "") for p in f.node["sig"]["params"]] == ["*mutu8", "usize", "usize", "usize"], f"{ps}", f.loc())
        if len(ps) != 4:
            return
        ren = {ps[0]: "$old_ptr", ps[1]: "$old_len", ps[2]: "$align", ps[3]: "$new_len"}
        al = use_aliases(f.body)
        # local name -> canonical allocator function
        canon = {k: v for k, v in al.items() if v in ("alloc", "realloc", "handle_alloc_error", "dealloc", "Layout")}
        inv = {v: k for k, v in canon.items()}

        def R(e):
            return render(e, ren)
        ifs = [n for n in synq.walk(f.body) if n.get("k") == "if"]
        outer = [n for n in ifs if R(n["cond"]) == "($old_len == 0)"]
        rep.ob("R24.1", "there is one test `old_len == 0`", len(outer) == 1, f"{[R(n['cond']) for n in ifs]}", f.loc())
        if len(outer) != 1:
            return
        o = outer[0]
        inner = [n for n in synq.walk(o["then"]) if n.get("k") == "if" and R(n["cond"]) == "($new_len == 0)"]
        rep.ob("R24.1", "zero old_len and zero new_len is tested", len(inner) == 1, "", f.loc(o))
        allocs = lambda node: [c for c in synq.fn_calls(node) if al.get(synq.short(c["func"]["path"]), synq.short(c["func"]["path"])) in ("alloc", "realloc", "alloc_zeroed")]
        if inner:
            rets = [r for r in synq.walk(inner[0]["then"]) if r.get("k") == "return"]
            rep.ob("R24.1", "zero-sized request returns the alignment value itself as the pointer",
                   len(rets) == 1 and R(rets[0]["e"]).replace(" ", "") == "($alignas*mutu8)", f"{[R(r['e']) for r in rets]}", f.loc(inner[0]))
            rep.ob("R24.1", "zero-sized request performs no allocation", not allocs(inner[0]["then"]) and not allocs(inner[0]["cond"]), "", f.loc(inner[0]))
            # nothing allocates before the zero test inside the then-branch
            first = o["then"]["stmts"][0] if o["then"]["stmts"] else None
            rep.ob("R24.1", "the zero test comes before any allocation", first is not None and
                   any(x is inner[0] for x in synq.walk(first)), "", f.loc(o))

        def layout_and_call(block, fn_name):
            """(layout ctor args rendered, call args rendered) for the allocator call `fn_name` in block"""
            lay = {}
            for n in synq.walk(block):
                if n.get("k") == "assign" or n.get("k") == "let":
                    rhs = n.get("r") if n.get("k") == "assign" else n.get("init")
                    lhs = render(n["l"]) if n.get("k") == "assign" else (n["pat"].get("name") if n["pat"].get("k") == "p_ident" else None)
                    if rhs is not None and rhs.get("k") == "call" and render(rhs["func"]).endswith("from_size_align_unchecked"):
                        lay[lhs] = [R(a) for a in rhs["args"]]
            calls = [c for c in synq.fn_calls(block) if al.get(synq.short(c["func"]["path"]), synq.short(c["func"]["path"])) == fn_name]
            return lay, calls
        lay, calls = layout_and_call(o["then"], "alloc")
        ok = len(calls) == 1 and len(calls[0]["args"]) == 1 and lay.get(render(calls[0]["args"][0])) == ["$new_len", "$align"]
        rep.ob("R24.1", "old_len = 0: alloc(Layout(new_len, align))", ok, f"layouts {lay}, calls {[render(c) for c in calls]}", f.loc(o))
        rep.ob("R24.1", "old_len = 0: never reallocs", not layout_and_call(o["then"], "realloc")[1], "", f.loc(o))
        els = o.get("else")
        lay, calls = layout_and_call(els, "realloc") if els else ({}, [])
        ok = len(calls) == 1 and len(calls[0]["args"]) == 3 and R(calls[0]["args"][0]) == "$old_ptr" and \
            lay.get(render(calls[0]["args"][1])) == ["$old_len", "$align"] and R(calls[0]["args"][2]) == "$new_len"
        rep.ob("R24.1", "old_len != 0: realloc(old_ptr, Layout(old_len, align), new_len)", ok,
               f"layouts {lay}, calls {[R(c) for c in calls]}", f.loc(o))
        rep.ob("R24.1", "old_len != 0: never a fresh alloc (contents would be lost)", els is not None and not layout_and_call(els, "alloc")[1], "", f.loc(o))
        # the result binding and the null test
        res = [nm for nm, init, st in synq.bindings(f.body) if init is not None and any(x is o for x in synq.walk(init))]
        if len(res) > 1:
            # `let (ptr, layout) = if .. { (alloc(..), l) } else { (realloc(..), l) }`: the pointer is the tuple position
            # that holds the allocator call in every branch
            lets = [st for nm, init, st in synq.bindings(f.body) if init is not None and any(x is o for x in synq.walk(init))]
            pat = lets[0]["pat"] if lets and all(l is lets[0] for l in lets) else None
            if pat is not None and pat.get("k") == "p_tuple":
                def tail_tuple(b):
                    while b is not None and b.get("k") == "block" and b.get("stmts"):
                        last = b["stmts"][-1]
                        if last.get("k") != "expr_stmt" or last.get("semi"):
                            return None
                        b = last["e"]
                    return b if b is not None and b.get("k") == "tuple" else None
                tt = [tail_tuple(o["then"]), tail_tuple(o.get("else"))]
                if all(t is not None and len(t["elems"]) == len(pat["elems"]) for t in tt):
                    idx = [i for i in range(len(pat["elems"])) if all(
                        any(c_.get("k") == "call" and synq.short(render(c_["func"])) in set(inv.values()) | {"alloc", "realloc", "allocate"}
                            for c_ in synq.walk(t["elems"][i])) for t in tt)]
                    if len(idx) == 1 and pat["elems"][idx[0]].get("k") == "p_ident":
                        res = [pat["elems"][idx[0]]["name"]]
        rep.ob("R24.1", "the allocation result is bound once", len(res) == 1, f"{res}", f.loc())
        if len(res) != 1:
            return
        ptr = res[0]
        nulls = [n for n in ifs if render(n["cond"]) == f"{ptr}.is_null()"]
        rep.ob("R24.1", "the result is tested for null", len(nulls) == 1, "", f.loc())
        diverging = {inv.get("handle_alloc_error", "handle_alloc_error"), "unreachable", "abort"}
        for n in nulls:
            rep.ob("R24.1", "the null branch diverges on every path", diverges(n["then"], diverging), "", f.loc(n))
            rep.ob("R24.1", "the null test has no else branch that returns early", n.get("else") is None or
                   not any(r.get("k") == "return" for r in synq.walk(n["else"])), "", f.loc(n))
        rets = [r for r in synq.walk(f.body) if r.get("k") == "return" and r.get("e") is not None and render(r["e"]) == ptr]
        tail = f.body["stmts"][-1] if f.body["stmts"] else None
        tail_ptr = tail is not None and tail.get("k") == "expr_stmt" and (render(tail["e"]) == ptr or
                                                                          (tail["e"].get("k") == "return" and render(tail["e"].get("e")) == ptr))
        rep.ob("R24.1", "the function's result is that pointer, after the null test", tail_ptr and bool(nulls) and
               all(synq.line(r) > synq.line(nulls[0]) for r in rets), "", f.loc())
        # cfg gate + shim
        attrs = f.node.get("attrs", [])
        rep.ob("R24.1", "cabi_realloc is compiled for the p1 / no-env wasm targets", any("target_env" in a for a in attrs), f"{attrs}", f.loc())
        sh = [g for g in synq.all_fns(SHIM) if g.name.startswith("cabi_realloc") and g.body is not None]
        rep.ob("R24.1", "one exported cabi_realloc shim", len(sh) == 1, f"{[g.name for g in sh]}", SHIM)
        for g in sh:
            gp = param_names(g)
            calls = [c for c in synq.fn_calls(g.body, "cabi_realloc")]
            ok = len(calls) == 1 and [render(a) for a in calls[0]["args"]] == gp and len(gp) == 4
            rep.ob("R24.1", "the exported shim forwards its four arguments in order", ok, f"{[render(c) for c in calls]}", g.loc())
            rep.ob("R24.1", "the shim is exported unmangled", any("no_mangle" in a for a in g.node.get("attrs", [])), "", g.loc())
            rep.saw(f"{SHIM}::{g.name}")
    rep.guard("R24.1", "cabi_realloc", r1)

    # ------------------------------------------------------------------ R24.2 / R24.3 (MIR)
    def cleanup(cfg):
        c = rt(cfg)
        tag = f"[{cfg}]"
        f = c.method("Cleanup", "new")
        rep.saw(f)
        sw = None
        for b, t in f.switches():
            o = f.switch_origin(b)
            if o.get("kind") == "bin" and o["op"] == "Eq" and o["a"].get("kind") == "call" and o["a"]["call"].matches("Layout::size") \
                    and o["b"].get("v") == 0:
                sw = b
        rep.ob("R24.2", f"Cleanup::new tests layout.size() == 0 {tag}", sw is not None, "", f.loc())
        if sw is None:
            return
        tg = f.switch_targets(sw)
        zero_t, nz_t = tg["else"], tg[0]
        zr, nzr = f.edge_region(sw, zero_t), f.edge_region(sw, nz_t)
        allocs = f.calls(["alloc::alloc::alloc", "alloc::alloc::alloc_zeroed", "alloc::alloc::realloc"])
        rep.ob("R24.2", f"size 0: no allocation {tag}", not [a for a in allocs if a.bb in zr], "", f.loc(sw))
        rep.ob("R24.2", f"size 0: returns (null, None) {tag}", bool([x for x in f.calls("ptr::null_mut") if x.bb in zr]) and
               bool([1 for bb, i, rv, s in f.aggregates("Option", "None") if bb in zr]) and
               not [1 for bb, i, rv, s in f.aggregates("Option", "Some") if bb in zr], "", f.loc(sw))
        here = [a for a in allocs if a.bb in nzr]
        rep.ob("R24.2", f"size > 0: exactly one alloc with the given layout {tag}", len(here) == 1 and len(allocs) == 1 and
               f.origin(here[0].args[0]).get("kind") == "arg" and f.origin(here[0].args[0]).get("n") == 1, "", f.loc(sw))
        cl = f.aggregates("Cleanup")
        ok = len(cl) == 1
        if ok:
            bb, i, rv, s = cl[0]
            fields = dict(zip(rv["fields"], rv["ops"]))
            lo = f.origin(fields["layout"])
            po = f.origin(fields["ptr"])
            ok = bb in nzr and lo.get("kind") == "arg" and lo.get("n") == 1 and not lo.get("proj")
            # ptr is the Some payload of NonNull::new(alloc result)
            pk = po.get("kind") == "call" and po["call"].matches("NonNull::new") and \
                f.origin(po["call"].args[0]).get("kind") == "call" and f.origin(po["call"].args[0])["call"].bb == here[0].bb if here else False
            rep.ob("R24.2", f"the guard stores the pointer that alloc returned {tag}", bool(pk), f"{po.get('kind')}", f.loc(bb))
        rep.ob("R24.2", f"the guard stores the same layout it allocated with {tag}", ok, "", f.loc())
        # null -> handle_alloc_error, never returns
        for b, m, o in discr_switches(f, ty_sub="Option<core::ptr::NonNull"):
            nt = variant_target(m, "None")
            rep.ob("R24.2", f"allocation failure never returns {tag}", nt is not None and not (f.reachable(nt) & set(f.returns())) and
                   bool([x for x in f.calls("handle_alloc_error") if x.bb in f.reachable(nt)]), "", f.loc(b))
        d = c.method("Cleanup", "drop", trait="Drop")
        rep.saw(d)
        de = d.calls("alloc::alloc::dealloc")
        rep.ob("R24.3", f"Drop for Cleanup deallocates exactly once, on every path, not in a loop {tag}",
               len(de) == 1 and every_return_passes(d, [de[0].bb]) and not d.in_cycle(de[0].bb), f"{len(de)} sites", d.loc())
        if len(de) == 1:
            a0 = d.origin(de[0].args[0])
            a1 = d.origin(de[0].args[1])
            p_ok = a0.get("kind") == "call" and a0["call"].matches("NonNull::as_ptr") and \
                ".ptr" in d.origin(a0["call"].args[0]).get("proj", [])
            l_ok = a1.get("kind") == "arg" and ".layout" in a1.get("proj", [])
            rep.ob("R24.3", f"dealloc(self.ptr, self.layout) {tag}", p_ok and l_ok, f"{a0.get('kind')} {a1.get('place')}", d.loc(de[0].bb))
        g = c.method("Cleanup", "forget")
        rep.saw(g)
        fg = g.calls("mem::forget")
        rep.ob("R24.3", f"Cleanup::forget is mem::forget(self) {tag}", len(fg) == 1 and every_return_passes(g, [fg[0].bb]) and
               g.origin(fg[0].args[0]).get("n") == 1 and not g.calls("alloc::alloc::dealloc"), "", g.loc())
        # no Clone/Copy impl for Cleanup
        rep.ob("R24.3", f"Cleanup implements neither Clone nor Copy {tag}", not c.impls_of("Clone", r"\bCleanup$") and
               not c.impls_of("Copy", r"\bCleanup$"), "", "crates/guest-rust/src/rt/mod.rs")
    for cfg in configs(tier):
        rep.guard("R24.2", f"Cleanup [{cfg}]", lambda cfg=cfg: cleanup(cfg))

    # ------------------------------------------------------------------ R24.4 witnesses
    from .witness import run_witness
    rep.guard("R24.4", "witness", lambda: run_witness(rep, "C24", "R24.4"))

    # ------------------------------------------------------------------ R24.5 embedded cabi_dealloc
    def r5():
        lits = [s for s in synq.strings(synq.load(RUSTLIB)) if "fn cabi_dealloc" in s["v"]]
        rep.ob("R24.5", "one cabi_dealloc template in the Rust generator", len(lits) == 1, f"{len(lits)}", RUSTLIB)
        if len(lits) != 1:
            return
        ast = facts.parse_snippet(lits[0]["v"])
        where = f"{RUSTLIB}:{synq.line(lits[0])}"
        rep.ob("R24.5", "the template parses as Rust", "error" not in ast and ast.get("mode") == "file", str(ast.get("error", ""))[:200], where)
        if "error" in ast:
            return
        fns = [it for it in ast["items"] if it.get("k") == "fn" and it["sig"]["name"] == "cabi_dealloc"]
        if len(fns) != 1:
            rep.ob("R24.5", "cabi_dealloc fn in template", False, "", where)
            return
        fn = fns[0]
        ps = [p["pat"]["name"] for p in fn["sig"]["params"]]
        tys = [p["ty"].replace(" ", "") for p in fn["sig"]["params"]]
        rep.ob("R24.5", "cabi_dealloc(ptr: *mut u8, size: usize, align: usize)", tys == ["*mutu8", "usize", "usize"], f"{tys}", where)
        ren = {ps[0]: "$ptr", ps[1]: "$size", ps[2]: "$align"} if len(ps) == 3 else {}
        first = fn["body"]["stmts"][0] if fn["body"]["stmts"] else None
        e = first.get("e") if first and first.get("k") == "expr_stmt" else None
        ok = e is not None and e.get("k") == "if" and render(e["cond"], ren) == "($size == 0)" and \
            any(r.get("k") == "return" for r in synq.walk(e["then"])) and not synq.fn_calls(e["then"])
        rep.ob("R24.5", "a zero-sized block is never passed to the allocator (early return)", ok, "", where)
        lay = {}
        for n in synq.walk(fn["body"]):
            if n.get("k") == "let" and n.get("init") is not None and n["init"].get("k") == "call" and \
                    render(n["init"]["func"]).endswith("from_size_align_unchecked"):
                lay[n["pat"].get("name")] = [render(a, ren) for a in n["init"]["args"]]
        de = [c for c in synq.fn_calls(fn["body"], "dealloc")]
        ok = len(de) == 1 and render(de[0]["args"][0], ren) == "$ptr" and lay.get(render(de[0]["args"][1])) == ["$size", "$align"]
        rep.ob("R24.5", "dealloc(ptr, Layout(size, align)) exactly once", ok, f"{lay} {[render(c, ren) for c in de]}", where)
    rep.guard("R24.5", "cabi_dealloc template", r5)
