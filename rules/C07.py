"""C07 — Rust guest bindings keep resource and handle ownership exact (structural clauses)."""
import re

from lib import facts, synq
from lib.mir import AnchorMissing
from lib.synq import render
from .rtcommon import configs, rt, every_return_passes, discr_switches, variant_target, calls_in

BG = "crates/rust/src/bindgen.rs"
IF = "crates/rust/src/interface.rs"
LIB = "crates/rust/src/lib.rs"
SENTINEL = 0xFFFFFFFF          # u32::MAX, the "handle was given away" marker
LEAKERS = ("forget", "ManuallyDrop", "leak", "into_raw", "take_handle")

CLAIM = dict(
    level="other", engine="synfacts+mirfacts+witness", design="DESIGN.md §5 C07",
    technique="generator match-arm templates and the embedded Rust templates (re-parsed with syn) checked against an "
              "ownership table; MIR must-pass-through rules on the runtime's handle wrappers; compile_fail witnesses "
              "(!Clone)",
    text="Decides that every handle instruction of the Rust backend writes the ownership action the canonical ABI "
         "asks for (own/future/stream lowered with take_handle, borrow and error-context with handle, own lifted "
         "into exactly one owning wrapper, borrows never into a wrapper that outlives the call), that the taken-"
         "handle sentinel is the value Drop ignores (generated Resource<T> and runtime stream/future readers), that "
         "Drop otherwise calls the drop built-in exactly once, that none of the wrappers can be cloned, and that an "
         "exported resource's representation is boxed once, reached through resource.rep / the borrow pointer and "
         "freed once by the [dtor] export. Partial: the host's resource table and executions are not explored.",
    note="mir+syn")


# ============================================================================ template helpers
def to_rust(t, ren=None):
    """Turn a `format!`-style template holding Rust source into parseable Rust: `{{`/`}}` un-escaped, `{hole}` ->
    identifier `__h_hole__` (a hole alone on its line stands for items: `__h_hole__!();`), macro_rules
    metavariables -> identifiers.  `ren` renames holes to role names (see hole_roles) so that the checks do not
    depend on the generator's local variable names."""
    ren = ren or {}
    t = t.replace("$($path_to_types)*", "__ptt__").replace("$ty", "__ty__")
    t = t.replace("{{", "\x01").replace("}}", "\x02")
    lines = []
    for ln in t.split("\n"):
        m = re.fullmatch(r"\s*\{(\w+)\}\s*", ln)
        lines.append(f"__h_{ren.get(m.group(1), m.group(1))}__!();" if m else ln)
    t = "\n".join(lines)
    n = [0]

    def sub(m):
        name = m.group(1).split(":")[0].strip()
        if name == "":
            name = f"pos{n[0]}"
            n[0] += 1
        return f"__h_{ren.get(name, name)}__"
    t = re.sub(r"\{([^{}]*)\}", sub, t)
    return t.replace("\x01", "{").replace("\x02", "}")


def H(name):
    return f"__h_{name}__"


# what a hole stands for, recognised by the call that produced the interpolated value
ROLE_BY_PRODUCER = (("to_upper_camel_case", "camel"), ("path_to_resource", "resource"), ("runtime_path", "rt"),
                    ("path_to_box", "box_path"), ("path_to_wasm_resource", "wasm_resource"))


def hole_roles(fn, lit):
    """hole name -> role for the format-like macro of generator function `fn` whose template is literal `lit`"""
    ren = {}
    for fm in synq.fmts(fn.body):
        if fm.template_node is not lit:
            continue
        for kind, key, e, off in fm.hole_exprs():
            if kind != "name":
                continue
            if e is None:
                e = let_init(fn.body, key)
            if e is None:
                continue
            for prod, role in ROLE_BY_PRODUCER:
                if synq.contains_call_named(e, {prod}):
                    ren[key] = role
                    break
    return ren


def parse_template(text, what, fmt=True, ren=None):
    ast = facts.parse_snippet(to_rust(text, ren) if fmt else text)
    if "error" in ast or ast.get("mode") not in ("file", "block"):
        raise AnchorMissing(f"{what}: embedded template does not parse as Rust ({str(ast.get('error'))[:120]})")
    return ast


def tmpl_expr(text, what):
    """A template that is one Rust expression -> its node."""
    ast = parse_template(text, what)
    st = ast.get("stmts") or []
    if ast.get("mode") != "block" or len(st) != 1 or st[0].get("k") != "expr_stmt":
        raise AnchorMissing(f"{what}: template is not a single expression")
    return st[0]["e"]


def strip(e):
    """look through `&x`, `x as T`, `.cast()`, `*x`, unsafe/plain blocks with only a tail expression"""
    while True:
        k = e.get("k")
        if k in ("ref", "cast", "unary"):
            e = e["e"]
        elif k == "mcall" and e["method"] == "cast" and not e["args"]:
            e = e["recv"]
        elif k == "block" and len(e["stmts"]) == 1 and e["stmts"][0].get("k") == "expr_stmt":
            e = e["stmts"][0]["e"]
        else:
            return e


def call_name(e):
    if e.get("k") == "call" and e["func"].get("k") == "path":
        return e["func"]["path"]
    return None


def calls_named(node, short):
    return [c for c in synq.fn_calls(node) if synq.short(c["func"]["path"]) == short]


def mentions(node, words):
    """identifiers (path segments / method names / macro names) of `node` that are in `words`"""
    out = []
    for n in synq.walk(node):
        k = n.get("k")
        if k in ("path", "struct"):
            out += [s for s in n["path"].split("::") if s in words]
        elif k == "mcall" and n["method"] in words:
            out.append(n["method"])
        elif k == "macro" and synq.short(n["name"]) in words:
            out.append(synq.short(n["name"]))
    return out


def let_init(scope, name):
    c = [i for n_, i, st in synq.bindings(scope) if n_ == name and i is not None]
    return c[-1] if c else None


def flows_from(scope, arg, producer):
    """`arg` (looking through &, casts, .cast()) is a call of `producer`, or a local bound to one."""
    e = strip(arg)
    for _ in range(4):
        if e.get("k") in ("call", "mcall"):
            nm = synq.short(call_name(e) or "") if e.get("k") == "call" else e["method"]
            return nm == producer
        if e.get("k") == "path":
            i = let_init(scope, e["path"])
            if i is None:
                return False
            e = strip(i)
            continue
        return False
    return False


def fns_of(ast, self_ty=None, trait="*"):
    """name -> fn node for the (impl) functions of a parsed template"""
    out = {}
    for it in ast.get("items", []):
        if it.get("k") == "fn" and self_ty is None:
            out[it["sig"]["name"]] = it
        if it.get("k") == "impl" and (self_ty is None or synq.base_name(it["self_ty"]) == self_ty) and \
                (trait == "*" or (it.get("trait") and synq.base_name(it["trait"])) == trait):
            for m in it["items"]:
                if m.get("k") == "fn":
                    out[m["sig"]["name"]] = m
    return out


def need(d, k, what):
    if k not in d:
        raise AnchorMissing(f"{what}: fn {k}")
    return d[k]


def param_names(fn):
    return [p["pat"]["name"] for p in fn["sig"]["params"] if not p.get("self") and p["pat"].get("k") == "p_ident"]


def derives(item):
    out = []
    for a in item.get("attrs", []):
        m = re.match(r"derive\s*\((.*)\)\s*$", a, re.S)
        if m:
            out += [x.strip().split("::")[-1] for x in m.group(1).split(",") if x.strip()]
    return out


def has_repr_transparent(item):
    return any(re.match(r"repr\s*\(\s*transparent\s*\)", a) for a in item.get("attrs", []))


def the_literal(rel, marker, what):
    lits = [s for s in synq.strings(synq.load(rel)) if marker in s["v"]]
    if len(lits) != 1:
        raise AnchorMissing(f"{what}: {len(lits)} string literals in {rel} contain `{marker}`")
    return lits[0]


# ============================================================================ generator arms (R7.1, R7.2, R7.7)
class Emit:
    def __init__(self):
        self.f = synq.find_fn(BG, "emit", self_ty="FunctionBindgen")
        ps = self.f.params
        if len(ps) < 5:
            raise AnchorMissing("FunctionBindgen::emit(self, resolve, inst, operands, results)")
        self.operands, self.results = ps[3], ps[4]
        self.m = synq.find_match(self.f.body, "Instruction::")

    def arms(self, variant):
        return [a for a in synq.arms(self.m) if any(h == "Instruction::" + variant or h == variant for h in a.heads)]

    def arm(self, variant):
        c = self.arms(variant)
        if len(c) != 1:
            raise AnchorMissing(f"emit: {len(c)} arms for Instruction::{variant}")
        return c[0]

    def pushed(self, scope, within=None):
        """values pushed to `results` inside node `within` (default: scope): list of expression nodes, a pushed
        local being replaced by its initialiser"""
        out = []
        for m in synq.method_calls(within or scope, "push"):
            if render(m["recv"]) != self.results or len(m["args"]) != 1:
                continue
            e = m["args"][0]
            if e.get("k") == "path":
                i = let_init(scope, e["path"])
                if i is not None:
                    e = i
            out.append(e)
        return out

    def is_operand0(self, scope, fmt, key):
        """does hole `key` of Fmt `fmt` stand for operands[0]?"""
        for kind, k, e, off in fmt.hole_exprs():
            if k != key:
                continue
            if e is None and kind == "name":
                e = let_init(scope, key)
            if e is None:
                return False
            s = strip(e)
            return s.get("k") == "index" and render(s["base"]) == self.operands and render(s["index"]) == "0"
        return False


def as_fmt(e):
    if e.get("k") == "macro" and synq.short(e["name"]) == "format" and e.get("args") is not None:
        return synq.Fmt(e)
    return None


def handle_cases(em):
    """{'Own': scope-node, 'Borrow': scope-node} for HandleLower, whether written as two arms with a sub-pattern on
    `handle` or as one arm with an inner match."""
    out = {}
    for a in em.arms("HandleLower"):
        kinds = set()
        for alt in a.alts:
            for fld in alt.get("fields", []) if alt.get("k") == "p_struct" else []:
                if fld["name"] == "handle":
                    for p in synq.pat_alts(fld["pat"]):
                        h = synq.pat_head(p)
                        if h.split("::")[-1] in ("Own", "Borrow"):
                            kinds.add(h.split("::")[-1])
        if kinds:
            for k in kinds:
                out.setdefault(k, []).append(a.body)
        else:
            try:
                m = synq.find_match(a.body, "Handle::")
            except AnchorMissing:
                continue
            for k in ("Own", "Borrow"):
                x = synq.arm_for(m, "Handle::" + k)
                if x is not None and "_" not in x.heads:
                    out.setdefault(k, []).append(x.body)
    return out


def lower_method(em, scope, what):
    """the single value pushed in `scope` must be `(operand0).<method>() [as i32]`; returns (method, problem)"""
    ps = em.pushed(scope)
    if len(ps) != 1:
        return None, f"{len(ps)} values pushed to results"
    fm = as_fmt(ps[0])
    if fm is None or fm.template is None:
        return None, "the pushed value is not a format! template"
    e = strip(tmpl_expr(fm.template, what))
    if e.get("k") != "mcall" or e["args"]:
        return None, f"template `{fm.template}` is not a method call on the operand"
    r = strip(e["recv"])
    key = r["path"][4:-2] if r.get("k") == "path" and r["path"].startswith("__h_") else None
    if key is None or not em.is_operand0(scope, fm, key):
        return None, f"template `{fm.template}`: the receiver is not operands[0]"
    ncalls = len([n for n in synq.walk(tmpl_expr(fm.template, what)) if n.get("k") in ("mcall", "call")])
    if ncalls != 1:
        return None, f"template `{fm.template}` performs {ncalls} calls"
    return e["method"], ""


def brace_net(text, is_fmt):
    if is_fmt:
        text = text.replace("{{", "\x01").replace("}}", "\x02")
        text = re.sub(r"\{[^{}]*\}", "", text)
        text = text.replace("\x01", "{").replace("\x02", "}")
    return text.count("{"), text.count("}")


def src_pushes(node):
    """text written to the function body (`self.push_str(..)`, `self.src.push_str(..)`, uwrite(ln)!(self.src, ..))
    under `node`: list of (node, kind, payload) with kind 'lit' (text, is_fmt) or 'var' (name)"""
    out = []
    for n in synq.walk(node):
        if n.get("k") == "mcall" and n["method"] in ("push_str", "push") and render(n["recv"]) in ("self", "self.src") \
                and len(n["args"]) == 1:
            a = n["args"][0]
            s = strip(a) if a.get("k") in ("ref", "unary") else a
            if s.get("k") == "str":
                out.append((n, "lit", (s["v"], False)))
            elif as_fmt(s) is not None and as_fmt(s).template is not None:
                out.append((n, "lit", (as_fmt(s).template, True)))
            elif s.get("k") == "path":
                out.append((n, "var", s["path"]))
            else:
                out.append((n, "other", render(s)))
        elif n.get("k") == "macro" and synq.short(n["name"]) in ("uwrite", "uwriteln", "write", "writeln") and n.get("args"):
            fm = synq.Fmt(n)
            if fm.dest is not None and render(fm.dest) == "self.src" and fm.template is not None:
                out.append((n, "lit", (fm.template, True)))
    return out


def if_leaves(e, conds=()):
    """leaves of an if / else-if chain: (conditions [(cond-node, polarity)], leaf node)"""
    if e.get("k") == "if":
        out = if_leaves(e["then"], conds + ((e["cond"], True),))
        if e.get("else") is not None:
            out += if_leaves(e["else"], conds + ((e["cond"], False),))
        return out
    if e.get("k") == "block" and len(e["stmts"]) == 1 and e["stmts"][0].get("k") == "expr_stmt" and \
            e["stmts"][0]["e"].get("k") == "if":
        return if_leaves(e["stmts"][0]["e"], conds)
    return [(conds, e)]


def tail_expr(block):
    """value expression of a block, looking through nested (unsafe) blocks"""
    while block is not None and block.get("k") == "block":
        st = block["stmts"]
        if st and st[-1].get("k") == "expr_stmt" and not st[-1].get("semi"):
            block = st[-1]["e"]
        else:
            return None
    return block


def own_flag(scope, subject):
    """name of the local that is true iff the handle is `Handle::Own`"""
    for n in synq.walk(scope):
        if n.get("k") != "let" or n.get("init") is None:
            continue
        init = n["init"]
        if init.get("k") == "macro" and synq.short(init["name"]) == "matches" and init.get("pat") is not None and \
                n["pat"].get("k") == "p_ident":
            heads = {synq.pat_head(p).split("::")[-1] for p in synq.pat_alts(init["pat"])}
            if heads == {"Own"}:
                return n["pat"]["name"], True
        if init.get("k") == "match" and n["pat"].get("k") == "p_tuple":
            val = {}
            for a in synq.arms(init):
                for h in a.heads:
                    v = h.split("::")[-1]
                    if v in ("Own", "Borrow") and a.body.get("k") == "tuple":
                        for i, el in enumerate(a.body["elems"]):
                            if el.get("k") == "bool":
                                val.setdefault(i, {})[v] = el["v"]
            for i, d in val.items():
                if d == {"Own": True, "Borrow": False} and n["pat"]["elems"][i].get("k") == "p_ident":
                    return n["pat"]["elems"][i]["name"], True
                if d == {"Own": False, "Borrow": True} and n["pat"]["elems"][i].get("k") == "p_ident":
                    return n["pat"]["elems"][i]["name"], False
    raise AnchorMissing(f"{subject}: no local distinguishing Handle::Own from Handle::Borrow")


def generator_rules(rep):
    em = Emit()
    rep.saw(f"{BG}::emit")
    rep.saw(file=BG)
    f = em.f

    # ------------------------------------------------------------------ R7.1 lowering
    def r1():
        cases = handle_cases(em)
        n = 0
        table = [("HandleLower Own", cases.get("Own", []), "take_handle",
                  "an owned handle passed on is still dropped by the guest value (double drop / use after transfer)"),
                 ("HandleLower Borrow", cases.get("Borrow", []), "handle",
                  "lending a handle must leave the guest value's handle in place")]
        for v, want in (("FutureLower", "take_handle"), ("StreamLower", "take_handle"), ("ErrorContextLower", "handle")):
            arms = em.arms(v)
            table.append((v, [a.body for a in arms], want,
                          "the readable end is transferred: the guest value must give its handle up" if want == "take_handle"
                          else "lowering an error-context copies it; the sender keeps (and later drops) its own handle"))
        for what, scopes, want, why in table:
            if len(scopes) != 1:
                rep.ob("R7.1", f"{what}: exactly one template", False, f"{len(scopes)} arm(s)/case(s) found", f.loc())
                continue
            n += 1
            got, prob = lower_method(em, scopes[0], what)
            rep.ob("R7.1", f"{what}: lowered as (operand).{want}()", got == want,
                   prob or f"template calls `{got}`: {why}", f.loc(scopes[0]))
        rep.floor("R7.1", "handle lowering templates", n, 5)
    rep.guard("R7.1", "lowering templates", r1)

    # ------------------------------------------------------------------ R7.2 lifting
    def r2_lift():
        a = em.arm("HandleLift")
        flag, pol = own_flag(a.body, "HandleLift")
        ps = em.pushed(a.body)
        if len(ps) != 1:
            raise AnchorMissing(f"HandleLift: {len(ps)} values pushed to results")
        leaves = {}
        for conds, leaf in if_leaves(ps[0]):
            own = exported = None
            for c, p in conds:
                neg = False
                while c.get("k") == "unary" and c["op"] == "!":
                    c = c["e"]
                    neg = not neg
                val = p != neg
                if c.get("k") == "path" and c["path"] == flag:
                    own = val == pol
                elif c.get("k") == "mcall" and c["method"] == "is_exported_resource":
                    exported = val
            cls = "own" if own else ("borrow-exported" if own is False and exported else
                                     "borrow-imported" if own is False and exported is False else "?")
            leaves.setdefault(cls, []).append(leaf)
        rep.floor("R7.2", "HandleLift cases (own, borrow of exported, borrow of imported)",
                  sum(len(v) for k, v in leaves.items() if k != "?"), 3)
        for cls in ("own", "borrow-exported", "borrow-imported"):
            rep.ob("R7.2", f"HandleLift {cls}: exactly one template", len(leaves.get(cls, [])) == 1,
                   f"{len(leaves.get(cls, []))} branches", f.loc(a.node))
        rep.ob("R7.2", "HandleLift: every branch is classified by ownership and import/export", "?" not in leaves,
               f"{len(leaves.get('?', []))} unclassified branch(es)", f.loc(a.node))

        def leaf_tmpl(cls):
            lv = leaves.get(cls, [])
            if len(lv) != 1:
                return None, None, None
            t = tail_expr(lv[0])
            fm = as_fmt(t) if t is not None else None
            if fm is None or fm.template is None:
                return lv[0], None, None
            return lv[0], fm, tmpl_expr(fm.template, f"HandleLift {cls}")

        def decl_pushes(node):
            return [m for m in synq.method_calls(node, "push") if render(m["recv"]).endswith("handle_decls")]

        # own<T>: one owning wrapper
        leaf, fm, e = leaf_tmpl("own")
        if leaf is not None:
            ok = e is not None and e.get("k") == "call" and re.fullmatch(r"__h_\w+__::from_handle", call_name(e) or "") and \
                len(e["args"]) == 1 and operand_hole(em, a.body, fm, e["args"][0])
            rep.ob("R7.2", "HandleLift own: wraps the received handle in the owning type (`{name}::from_handle(op)`)", ok,
                   f"template `{fm.template if fm else None}`", f.loc(leaf))
            rep.ob("R7.2", "HandleLift own: no call-scoped temporary (the value is moved to the callee)",
                   not decl_pushes(leaf), "", f.loc(leaf))
        # borrow<T> of an exported resource: the rep pointer, no owning wrapper
        leaf, fm, e = leaf_tmpl("borrow-exported")
        if leaf is not None:
            nm = call_name(e) if e is not None else None
            ok = nm is not None and re.fullmatch(r"__h_\w+__Borrow::lift", nm) and len(e["args"]) == 1 and \
                operand_hole(em, a.body, fm, e["args"][0], deep=True) and \
                not mentions(e, {"from_handle", "take_handle"})
            rep.ob("R7.2", "HandleLift borrow of an exported resource: `{name}Borrow::lift(rep)`, never an owning wrapper",
                   ok, f"template `{fm.template if fm else None}`: a wrapper built with from_handle would call "
                   "[resource-drop] on a handle the guest does not own", f.loc(leaf))
            rep.ob("R7.2", "HandleLift borrow of an exported resource: no handle_decls temporary", not decl_pushes(leaf),
                   "", f.loc(leaf))
        # borrow<T> of an imported resource: wrapper in a temporary scoped to the call
        leaf, fm, e = leaf_tmpl("borrow-imported")
        if leaf is not None:
            dp = decl_pushes(leaf)
            rep.ob("R7.2", "HandleLift borrow of an imported resource: declares one call-scoped temporary in handle_decls",
                   len(dp) == 1, f"{len(dp)} pushes", f.loc(leaf))
            tmp_name = None
            if len(dp) == 1:
                dfm = as_fmt(dp[0]["args"][0])
                d_ast = parse_template(dfm.template, "handle_decls entry") if dfm and dfm.template else None
                st = d_ast.get("stmts", []) if d_ast else []
                ok = len(st) == 1 and st[0].get("k") == "let" and st[0].get("init") is None and \
                    st[0]["pat"].get("k") == "p_ident" and st[0]["pat"]["name"].startswith("__h_")
                rep.ob("R7.2", "handle_decls entry is an uninitialised `let {tmp};`", ok,
                       f"`{dfm.template if dfm else None}`", f.loc(dp[0]))
                if ok:
                    tmp_name = st[0]["pat"]["name"]
                    key = tmp_name[4:-2]
                    init = let_init(leaf, key)
                    rep.ob("R7.2", "handle_decls temporary has a fresh name (from self.tmp())",
                           init is not None and bool(synq.method_calls(init, "tmp")), "", f.loc(dp[0]))
            ok = False
            det = f"template `{fm.template if fm else None}`"
            if e is not None and e.get("k") == "block" and len(e["stmts"]) == 2:
                s0, s1 = e["stmts"]
                asg = s0.get("e") if s0.get("k") == "expr_stmt" else None
                tl = s1.get("e") if s1.get("k") == "expr_stmt" and not s1.get("semi") else None
                ok = asg is not None and asg.get("k") == "assign" and render(asg["l"]) == tmp_name and \
                    asg["r"].get("k") == "call" and bool(re.fullmatch(r"__h_\w+__::from_handle", call_name(asg["r"]) or "")) and \
                    len(asg["r"]["args"]) == 1 and operand_hole(em, a.body, fm, asg["r"]["args"][0]) and \
                    tl is not None and tl.get("k") == "ref" and not tl.get("mut") and render(tl["e"]) == tmp_name
            rep.ob("R7.2", "HandleLift borrow of an imported resource: `{tmp} = {name}::from_handle(op); &{tmp}` "
                   "(the callee only sees a reference to the call-scoped wrapper)", ok, det, f.loc(leaf))
        # the wrapper type named by the three templates is the (de-aliased) resource's own Rust type
        tys = []
        for cls in ("own", "borrow-exported", "borrow-imported"):
            leaf, fm, e = leaf_tmpl(cls)
            if fm is None:
                continue
            for mm in re.finditer(r"\{(\w+)\}(?:Borrow)?::(?:from_handle|lift)\(", fm.template):
                init = fm.named.get(mm.group(1)) or let_init(a.body, mm.group(1))
                tys.append((cls, render(init) if init is not None else None,
                            init is not None and bool(synq.method_calls(init, "type_path"))))
        rep.ob("R7.2", "HandleLift: every wrapper is the resource's own type (`type_path(resource, ..)`)",
               len(tys) == 3 and all(t[2] for t in tys) and len({t[1] for t in tys}) == 1, f"{tys}", f.loc(a.node))
    rep.guard("R7.2", "HandleLift", r2_lift)

    def r2_async_lift():
        n = 0
        for v, ctor in (("FutureLift", "FutureReader::new"), ("StreamLift", "StreamReader::new"),
                        ("ErrorContextLift", "ErrorContext::from_handle")):
            a = em.arm(v)
            ps = em.pushed(a.body)
            fm = as_fmt(ps[0]) if len(ps) == 1 else None
            e = tmpl_expr(fm.template, v) if fm is not None and fm.template else None
            nm = call_name(e) if e is not None else None
            ok = nm is not None and bool(re.fullmatch(r"__h_\w+__::" + re.escape(ctor), nm)) and \
                len(e["args"]) >= 1 and operand_hole(em, a.body, fm, e["args"][0]) and \
                len([x for x in synq.walk(e) if x.get("k") in ("call", "mcall")]) == 1
            n += 1 if fm is not None else 0
            rep.ob("R7.2", f"{v}: the received handle goes into exactly one owning `{ctor}(op, ..)`", ok,
                   f"template `{fm.template if fm else None}`", f.loc(a.node))
        rep.floor("R7.2", "future / stream / error-context lifting templates", n, 3)
    rep.guard("R7.2", "async lifts", r2_async_lift)

    def r2_decls():
        # who touches handle_decls
        uses = []
        for rel in (BG, IF, LIB):
            for fn in synq.all_fns(rel):
                if fn.body is None:
                    continue
                for m in synq.method_calls(fn.body):
                    if render(m["recv"]).endswith(".handle_decls") or render(m["recv"]) == "handle_decls":
                        uses.append((fn, m))
        rep.floor("R7.2", "uses of handle_decls", len(uses), 2)
        lift = em.arm("HandleLift")
        calli = em.arm("CallInterface")
        order_ok = lifts_precede_call(rep)

        def inside(node, arm):
            sp, asp = node["sp"], arm.node["sp"]
            return (asp[0], asp[1]) <= (sp[0], sp[1]) and (sp[2], sp[3]) <= (asp[2], asp[3])
        for fn, m in uses:
            where = "HandleLift" if fn.name == "emit" and inside(m, lift) else \
                "CallInterface" if fn.name == "emit" and inside(m, calli) else f"{fn.self_ty or ''}::{fn.name}"
            ok = (where == "HandleLift" and m["method"] == "push") or (where == "CallInterface" and m["method"] == "drain") or \
                (m["method"] in ("is_empty", "len") and not m["args"])
            rep.ob("R7.2", f"handle_decls.{m['method']} in {where}", ok,
                   "the temporaries holding lifted borrows may only be declared by HandleLift and emitted by CallInterface",
                   fn.loc(m))
        # no other access to the field (moved out, replaced, assigned, passed on ...)
        recvs = [m["recv"] for fn, m in uses]
        stray = []
        for rel in (BG, IF, LIB):
            for fn in synq.all_fns(rel):
                for n in synq.walk(fn.body) if fn.body is not None else []:
                    if n.get("k") == "field" and n["member"] == "handle_decls" and not any(n is r_ for r_ in recvs):
                        stray.append(fn.loc(n))
        rep.ob("R7.2", "the handle_decls field is accessed only as receiver of push / drain / is_empty", not stray,
               f"other accesses at {stray}: the list of call-scoped temporaries is moved or replaced, declarations can "
               "escape the call's block and outlive task.return", stray[0] if stray else f.loc())
        # whatever CallInterface left over is written at function scope by the caller of abi::call: that outlives
        # task.return, so nothing may be left over, i.e. every lift precedes the (single) CallInterface
        left = []
        for rel in (BG, IF, LIB):
            for fn in synq.all_fns(rel):
                for n in synq.walk(fn.body) if fn.body is not None else []:
                    if n.get("k") == "for" and re.fullmatch(r"&?(mut )?(\w+\.)*handle_decls(\.(drain\(\.\.\)|iter\(\)|into_iter\(\)))?",
                                                            render(n["iter"])) and not (fn.name == "emit" and inside(n, calli)):
                        left.append((fn, n))
        for fn, n in left:
            rep.ob("R7.2", f"left-over handle_decls written by {fn.self_ty or ''}::{fn.name} at function scope are always empty",
                   order_ok, "a borrow lifted after CallInterface would live until the end of the function body, "
                   "i.e. past task.return", fn.loc(n))
        # CallInterface: declarations are emitted inside the call's own block, before the code that assigns them
        body = calli.body
        if body.get("k") != "block":
            raise AnchorMissing("CallInterface arm body is not a block")
        st = body["stmts"]
        drain_i = [i for i, s in enumerate(st)
                   if s.get("k") == "expr_stmt" and s["e"].get("k") == "for" and
                   [m for m in synq.method_calls(s["e"]["iter"], "drain") if render(m["recv"]).endswith("handle_decls")]]
        rep.ob("R7.2", "CallInterface: handle_decls is drained at exactly one unconditional site", len(drain_i) == 1,
               f"{len(drain_i)} top-level drain loops", f.loc(calli.node))
        if len(drain_i) != 1:
            return
        di = drain_i[0]
        loop = st[di]["e"]
        var = loop["pat"].get("name")
        wrote = [p for p in src_pushes(loop["body"]) if p[1] == "var" and p[2] == var]
        rep.ob("R7.2", "CallInterface: every drained declaration is written to the function body", len(wrote) == 1,
               "", f.loc(loop))
        # the previously generated code (which assigns the temporaries)
        prev = [n_ for n_, i, s in synq.bindings(body) if i is not None and
                [c for c in synq.fn_calls(i) if synq.short(c["func"]["path"]) in ("replace", "take")] and
                "self.src" in render(i)]
        depth = 0
        depth_at_drain = None
        prev_at = None
        cond_unbalanced = []
        last_push = None
        for i, s in enumerate(st):
            if i == di:
                depth_at_drain = depth
                continue
            for node, kind, payload in src_pushes(s):
                top = s.get("k") == "expr_stmt" and s["e"] is node
                if kind == "lit":
                    o, c = brace_net(*payload)
                    if top:
                        depth += o - c
                        last_push = (o, c)
                    elif o != c:
                        cond_unbalanced.append(payload[0])
                elif kind == "var" and payload in prev and top:
                    prev_at = (i, depth)
                    last_push = None
                elif top:
                    last_push = None
        rep.ob("R7.2", "CallInterface: handle_decls are emitted inside the block opened for this call",
               depth_at_drain is not None and depth_at_drain >= 1,
               f"brace depth of the literal text pushed before the drain loop: {depth_at_drain}", f.loc(loop))
        rep.ob("R7.2", "CallInterface: the code assigning the temporaries (prev_src) is emitted after their declarations, "
               "inside the same block", prev_at is not None and prev_at[0] > di and prev_at[1] >= 1,
               f"prev_src pushed at statement {prev_at}", f.loc(loop))
        rep.ob("R7.2", "CallInterface: the block is closed by the last text of the arm (borrows die before task.return)",
               depth == 0 and last_push is not None and last_push[1] > last_push[0],
               f"final brace depth {depth}, last push {last_push}", f.loc(calli.node))
        rep.ob("R7.2", "CallInterface: conditionally written text is brace-neutral", not cond_unbalanced,
               f"{cond_unbalanced}", f.loc(calli.node))
        # task.return is written by a different instruction, hence after the block
        tr = em.arm("AsyncTaskReturn")
        rep.ob("R7.2", "AsyncTaskReturn does not touch handle_decls and opens no block",
               not [m for fn, m in uses if inside(m, tr)] and
               all(brace_net(*p[2])[0] == brace_net(*p[2])[1] for p in src_pushes(tr.body) if p[1] == "lit"), "",
               f.loc(tr.node))
    rep.guard("R7.2", "handle_decls scope", r2_decls)

    # ------------------------------------------------------------------ R7.7 DropHandle (async import parameters)
    def r7():
        a = em.arm("DropHandle")
        ps = [p for p in src_pushes(a.body) if p[1] == "lit"]
        rep.floor("R7.7", "DropHandle template", len(ps), 1)
        for node, kind, (text, is_fmt) in ps:
            ast = parse_template(text, "DropHandle")
            st = ast.get("stmts", [])
            fm = synq.Fmt(node) if node.get("k") == "macro" else as_fmt(strip(node["args"][0]))
            ok = False
            if len(st) == 1 and fm is not None:
                s = st[0]
                val = s.get("init") if s.get("k") == "let" and s["pat"].get("k") == "p_wild" else \
                    s.get("e") if s.get("k") == "expr_stmt" and s.get("semi") else None
                if val is not None and val.get("k") == "call" and call_name(val) in ("drop", "core::mem::drop", "mem::drop"):
                    val = val["args"][0]
                ok = val is not None and operand_hole(em, a.body, fm, val) and val.get("k") == "path"
            rep.ob("R7.7", "DropHandle: the re-lifted owning value is dropped on the spot (`let _ = op;`)",
                   ok and not mentions(ast, set(LEAKERS)),
                   f"template `{text.strip()}`: binding or forgetting the value keeps / leaks the handle", f.loc(node))
    rep.guard("R7.7", "DropHandle", r7)

    # the shared generator asks for DropHandle only for what the guest still owns (never for a borrow)
    def r7_core():
        ABI = "crates/core/src/abi.rs"
        n = 0
        for nm, relift in (("deallocate", "lift"), ("deallocate_indirect", "read_from_memory")):
            g = synq.find_fn(ABI, nm, self_ty="Generator")
            rep.saw(f"{ABI}::{nm}")
            sites = [a for m in synq.matches_in(g.body) for a in synq.arms(m)
                     if synq.constructed(a.body, ["DropHandle"]) and not synq.matches_in(a.body)]
            n += len(sites)
            for a in sites:
                kinds = []
                for alt in a.alts:
                    h = synq.pat_head(alt).split("::")[-1]
                    if h == "Handle" and alt.get("k") == "p_tuple_struct" and alt["elems"]:
                        h = "Handle(" + "|".join(synq.pat_head(x).split("::")[-1] for x in synq.pat_alts(alt["elems"][0])) + ")"
                    kinds.append(h)
                rep.ob("R7.7", f"{nm}: DropHandle is requested only for own<T>, future and stream (never for borrow<T>)",
                       bool(kinds) and set(kinds) <= {"Handle(Own)", "Future", "Stream"}, f"arm covers {kinds}", g.loc(a.node))
                rep.ob("R7.7", f"{nm}: DropHandle is requested only when handles are to be released (what.handles())",
                       a.guard is not None and bool(synq.method_calls(a.guard, "handles")), render(a.guard), g.loc(a.node))
                calls = [m_["method"] for m_ in synq.method_calls(a.body) if render(m_["recv"]) == "self"]
                rep.ob("R7.7", f"{nm}: the handle is re-lifted ({relift}) exactly once and then dropped",
                       calls == [relift, "emit"], f"{calls}", g.loc(a.node))
        rep.floor("R7.7", "DropHandle emission sites in abi.rs", n, 2)
    rep.guard("R7.7", "DropHandle requests", r7_core)


def lifts_precede_call(rep):
    """crates/core/src/abi.rs, Generator::call, LiftArgsLowerResults: one unconditional CallInterface, all lifting before it"""
    ABI = "crates/core/src/abi.rs"
    f = synq.find_fn(ABI, "call", self_ty="Generator")
    rep.saw(f"{ABI}::call")
    m = synq.find_match(f.body, "LiftLower::")
    a = synq.arm_for(m, "LiftLower::LiftArgsLowerResults")
    if a is None or "_" in a.heads or a.body.get("k") != "block":
        raise AnchorMissing("abi::call: LiftArgsLowerResults arm")
    st = a.body["stmts"]
    ci = [i for i, s in enumerate(st) if synq.constructed(s, ["CallInterface"])]
    top = [i for i in ci if st[i].get("k") == "expr_stmt" and st[i]["e"].get("k") == "mcall" and st[i]["e"]["method"] == "emit"]
    lifters = set()
    for n_, init, s in synq.bindings(a.body):
        if init is not None and init.get("k") == "closure" and synq.method_calls(init, ("lift", "read_from_memory")):
            lifters.add(n_)
    late = []
    nlift = 0
    for i, s in enumerate(st):
        ls = synq.method_calls(s, ("lift", "read_from_memory")) + [c for c in synq.fn_calls(s) if c["func"]["path"] in lifters]
        nlift += len(ls)
        if ci and i >= ci[0] and not (s.get("k") == "let" and s.get("init", {}).get("k") == "closure"):
            late += ls
    rep.floor("R7.2", "lifting sites of exported-function arguments in abi::call", nlift, 3)
    ok = len(ci) == 1 and top == ci and not late
    rep.ob("R7.2", "abi::call (export): every argument is lifted before the single, unconditional CallInterface", ok,
           f"CallInterface at statement(s) {ci}; {len(late)} lifting call(s) after it", f.loc(a.node))
    return ok


def operand_hole(em, scope, fm, e, deep=False):
    """`e` is the hole standing for operands[0], possibly cast (`op as u32`); deep: anywhere below casts and one call"""
    if fm is None:
        return False
    s = e
    while s.get("k") in ("cast", "ref"):
        s = s["e"]
    if deep and s.get("k") == "call" and len(s["args"]) == 1:
        return operand_hole(em, scope, fm, s["args"][0], deep=True)
    if s.get("k") != "path" or not s["path"].startswith("__h_"):
        return False
    key = s["path"][4:-2]
    if key.startswith("pos") and key[3:].isdigit():
        i = int(key[3:])
        if i < len(fm.positional):
            x = strip(fm.positional[i])
            return x.get("k") == "index" and render(x["base"]) == em.operands and render(x["index"]) == "0"
        return False
    return em.is_operand0(scope, fm, key)


# ============================================================================ embedded Resource<T> (R7.3)
def resource_template_rules(rep):
    lit = the_literal(LIB, "pub struct Resource<", "Resource<T> template")
    where = f"{LIB}:{synq.line(lit)}"
    rep.saw(file=LIB)
    ast = parse_template(lit["v"], "Resource<T> template", fmt=False)
    st = [it for it in ast["items"] if it.get("k") == "struct_def" and it["name"] == "Resource"]
    if len(st) != 1:
        raise AnchorMissing("struct Resource in the embedded template")
    st = st[0]
    rep.ob("R7.3", "Resource<T> is #[repr(transparent)]", has_repr_transparent(st), f"{st.get('attrs')}", where)
    rep.ob("R7.3", "Resource<T> derives neither Clone nor Copy", not ({"Clone", "Copy"} & set(derives(st))),
           f"derive({', '.join(derives(st))}): a second wrapper of the same handle drops it twice", where)
    impls = [it for it in ast["items"] if it.get("k") == "impl" and synq.base_name(it["self_ty"]) == "Resource"]
    bad = [synq.base_name(it["trait"]) for it in impls if it.get("trait") and synq.base_name(it["trait"]) in ("Clone", "Copy")]
    rep.ob("R7.3", "Resource<T> has no hand-written Clone/Copy impl", not bad, f"{bad}", where)
    hf = [x for x in st["fields"] if x["name"] == "handle"]
    rep.ob("R7.3", "Resource<T>.handle is a private AtomicU32", len(hf) == 1 and hf[0]["ty"].replace(" ", "").endswith("AtomicU32")
           and hf[0].get("vis", "") == "", f"{hf}", where)

    inh = fns_of(ast, "Resource", trait=None)
    # take_handle: swap in the sentinel, hand the old value out
    th = need(inh, "take_handle", "Resource<T>")
    p = param_names(th)
    sw = synq.method_calls(th["body"], "swap")
    sent = render(sw[0]["args"][0]) if len(sw) == 1 and sw[0]["args"] else None
    t = tail_expr(th["body"])
    ok = len(sw) == 1 and len(p) == 1 and render(sw[0]["recv"]) == f"{p[0]}.handle" and t is not None and strip(t) is sw[0]
    rep.ob("R7.3", "Resource::take_handle returns the old value of `handle` while swapping the sentinel in", ok,
           f"{render(th['body'])}", where)
    rep.ob("R7.3", "Resource::take_handle stores u32::MAX", sent == "u32::MAX", f"stores `{sent}`", where)
    # handle(): a plain load
    hd = need(inh, "handle", "Resource<T>")
    lds = synq.method_calls(hd["body"], "load")
    rep.ob("R7.3", "Resource::handle only reads the handle (a borrow leaves ownership in place)",
           len(lds) == 1 and not synq.method_calls(hd["body"], ("swap", "store", "fetch_add", "compare_exchange", "take")),
           f"{render(hd['body'])}", where)
    # from_handle stores its argument
    fh = need(inh, "from_handle", "Resource<T>")
    p = param_names(fh)
    news = [c for c in synq.fn_calls(fh["body"]) if c["func"]["path"].endswith("AtomicU32::new")]
    rep.ob("R7.3", "Resource::from_handle stores exactly the received handle",
           len(news) == 1 and len(p) == 1 and render(news[0]["args"]) == p[0], f"{[render(c) for c in news]}", where)
    # Drop
    dr = fns_of(ast, "Resource", trait="Drop")
    d = need(dr, "drop", "impl Drop for Resource<T>")
    ms = synq.matches_in(d["body"])
    if len(ms) != 1:
        raise AnchorMissing(f"Resource::drop: {len(ms)} match expressions")
    m = ms[0]
    sc = m["scrut"]
    rep.ob("R7.3", "Resource::drop inspects the current value of `self.handle`",
           sc.get("k") == "mcall" and sc["method"] in ("load", "get_mut", "swap") and render(sc["recv"]) == "self.handle",
           render(sc), where)
    arms = synq.arms(m)
    noop = [a for a in arms if not [n for n in synq.walk(a.body) if n.get("k") in ("call", "mcall", "macro")]]
    act = [a for a in arms if a not in noop]
    rep.ob("R7.3", "Resource::drop has one no-op arm and one destroying arm", len(noop) == 1 and len(act) == 1,
           f"{len(noop)} no-op / {len(act)} acting arms", where)
    if len(noop) == 1 and len(act) == 1:
        rep.ob("R7.3", "the no-op pattern of Resource::drop is the sentinel take_handle stores",
               noop[0].heads == [sent] and sent is not None, f"no-op for {noop[0].heads}, take_handle stores {sent}: a "
               "taken handle would be dropped again / a live one leaked", where)
        rep.ob("R7.3", "the sentinel is u32::MAX (never a valid handle index)", noop[0].heads == ["u32::MAX"],
               f"{noop[0].heads}", where)
        a = act[0]
        bound = a.pat["name"] if a.pat.get("k") == "p_ident" else None
        cs = [n for n in synq.walk(a.body) if n.get("k") in ("call", "mcall")]
        ok = len(cs) == 1 and call_name(cs[0]) == "T::drop" and render(cs[0]["args"]) == bound and \
            not [n for n in synq.walk(a.body) if n.get("k") in ("for", "while", "loop")]
        rep.ob("R7.3", "every other value is destroyed with T::drop(handle) exactly once", ok,
               f"{render(a.body)}", where)
    rep.ob("R7.3", "Resource::drop has no early return around the match",
           not [n for n in synq.walk(d["body"]) if n.get("k") == "return"], "", where)
    return sent


def wrapper_rules(rep):
    """the generated per-resource wrapper `{camel}` (import and export flavour) and its WasmResource impl"""
    tr = synq.find_fn(IF, "type_resource", self_ty="InterfaceGenerator")
    rep.saw(f"{IF}::type_resource")
    lits = [s for s in synq.strings(tr.body) if re.search(r"pub fn take_handle\(&self\)", s["v"])]
    rep.floor("R7.3", "per-resource wrapper templates (imported, exported)", len(lits), 2)
    rep.saw(file=IF)
    for lit in lits:
        flavour = "exported" if "fn dtor" in lit["v"] else "imported"
        where = f"{IF}:{synq.line(lit)}"
        ast = parse_template(lit["v"], f"{flavour} wrapper", ren=hole_roles(tr, lit))
        sts = [it for it in ast["items"] if it.get("k") == "struct_def" and it["name"] == H("camel")]
        if len(sts) != 1:
            raise AnchorMissing(f"{flavour} wrapper: struct {{camel}}")
        s = sts[0]
        rep.ob("R7.3", f"{flavour} wrapper: derives neither Clone nor Copy", not ({"Clone", "Copy"} & set(derives(s))),
               f"derive({', '.join(derives(s))})", where)
        bad = [it for it in ast["items"] if it.get("k") == "impl" and it.get("trait") and
               synq.base_name(it["trait"]) in ("Clone", "Copy", "Drop")]
        rep.ob("R7.3", f"{flavour} wrapper: no Clone / Copy / extra Drop impl in the template", not bad,
               f"{[b['trait'] for b in bad]}", where)
        flds = s["fields"]
        rep.ob("R7.3", f"{flavour} wrapper: its only field is a private `{{resource}}<{{camel}}>`",
               len(flds) == 1 and flds[0]["ty"].replace(" ", "") == f"{H('resource')}<{H('camel')}>" and flds[0].get("vis", "") == "",
               f"{[(x['name'], x['ty']) for x in flds]}", where)
        fn = fns_of(ast, H("camel"), trait=None)
        fname = flds[0]["name"] if flds else "handle"
        for meth in ("take_handle", "handle"):
            g = need(fn, meth, f"{flavour} wrapper")
            t = tail_expr(g["body"])
            ok = t is not None and call_name(t) == f"{H('resource')}::{meth}" and render(t["args"]) == f"&self.{fname}" and \
                len([n for n in synq.walk(g["body"]) if n.get("k") in ("call", "mcall")]) == 1
            rep.ob("R7.3", f"{flavour} wrapper: {meth}() forwards to Resource::{meth}(&self.{fname})", ok,
                   render(g["body"]), where)
        g = need(fn, "from_handle", f"{flavour} wrapper")
        p = param_names(g)
        cs = [c for c in synq.fn_calls(g["body"]) if c["func"]["path"] == f"{H('resource')}::from_handle"]
        rep.ob("R7.3", f"{flavour} wrapper: from_handle wraps exactly the received handle once",
               len(cs) == 1 and len(p) == 1 and render(cs[0]["args"]) == p[0], render(g["body"]), where)

    # unsafe impl WasmResource for {camel} { unsafe fn drop(_handle) { {intrinsic} drop(_handle as i32) } }
    lit = [s for s in synq.strings(tr.body) if re.search(r"unsafe fn drop\(", s["v"])]
    if len(lit) != 1:
        raise AnchorMissing(f"type_resource: {len(lit)} WasmResource::drop templates")
    where = f"{IF}:{synq.line(lit[0])}"
    ast = parse_template(lit[0]["v"], "WasmResource impl", ren=hole_roles(tr, lit[0]))
    wi = [it for it in ast.get("items", []) if it.get("k") == "impl" and synq.base_name(it["self_ty"]) == H("camel")]
    rep.ob("R7.3", "the [resource-drop] caller is `impl {wasm_resource} for {camel}` (the trait Resource<T>::drop dispatches to)",
           len(wi) == 1 and wi[0].get("trait") == H("wasm_resource"), f"{[(i['self_ty'], i.get('trait')) for i in wi]}", where)
    fn = fns_of(ast, H("camel"))
    g = need(fn, "drop", "WasmResource impl")
    p = param_names(g)
    di = [c for c in synq.fn_calls(tr.body, "declare_import") if "[resource-drop]" in " ".join(s["v"] for s in synq.strings(c))]
    rust_name = None
    if len(di) == 1 and len(di[0]["args"]) >= 3 and di[0]["args"][2].get("k") == "str":
        rust_name = di[0]["args"][2]["v"]
    cs = [n for n in synq.walk(g["body"]) if n.get("k") in ("call", "mcall")]
    ok = rust_name is not None and len(cs) == 1 and call_name(cs[0]) == rust_name and len(p) == 1 and \
        len(cs[0]["args"]) == 1 and render(strip(cs[0]["args"][0])) == p[0] and \
        not [n for n in synq.walk(g["body"]) if n.get("k") in ("for", "while", "loop")]
    rep.ob("R7.3", "WasmResource::drop calls the [resource-drop] import once with the handle it was given", ok,
           f"{render(g['body'])}; import declared as `{rust_name}`", where)
    # the declaration hole is the declare_import result
    holes = [m["name"] for m in synq.macros(g["body"]) if m["name"].startswith("__h_")]
    ok = False
    if len(holes) == 1 and len(di) == 1:
        init = let_init(tr.body, holes[0][4:-2])
        ok = init is di[0]
    rep.ob("R7.3", "WasmResource::drop declares the import produced by declare_import(.., \"[resource-drop]{name}\", ..)",
           ok, f"holes {holes}", where)


# ============================================================================ exported resources (R7.4)
def exported_rules(rep):
    lit = the_literal(IF, "pub fn into_inner", "exported resource template")
    where = f"{IF}:{synq.line(lit)}"
    tr = synq.find_fn(IF, "type_resource", self_ty="InterfaceGenerator")
    ast = parse_template(lit["v"], "exported resource template", ren=hole_roles(tr, lit))
    camel = H("camel")
    fn = fns_of(ast, camel, trait=None)
    bfn = fns_of(ast, camel + "Borrow", trait=None)

    def guard_first(g, who):
        """type_guard::<T>() is the first statement"""
        st = g["body"]["stmts"]
        first = st[0]["e"] if st and st[0].get("k") == "expr_stmt" else None
        ok = first is not None and first.get("k") == "call" and synq.short(call_name(first) or "") == "type_guard" and \
            call_name(first).split("::")[0] in ("Self", camel)
        rep.ob("R7.4", f"{who} checks the implementation type first (type_guard)", ok,
               "a representation of another Rust type could be produced / freed", where)

    # new
    g = need(fn, "new", "exported resource")
    guard_first(g, "new")
    p = param_names(g)
    rn, ir, rs = calls_named(g["body"], "rep_new"), calls_named(g["body"], "resource_into_raw_"), calls_named(g["body"], "_resource_new")
    fh = calls_named(g["body"], "from_handle")
    ok = len(rn) == 1 and len(ir) == 1 and len(rs) == 1 and len(fh) == 1 and len(p) == 1 and \
        render(rn[0]["args"]) == p[0] and flows_from(g["body"], ir[0]["args"][0], "rep_new") and \
        flows_from(g["body"], rs[0]["args"][0], "resource_into_raw_") and \
        flows_from(g["body"], fh[0]["args"][0], "_resource_new") and strip(tail_expr(g["body"]) or {}) is fh[0]
    rep.ob("R7.4", "new: val -> rep_new -> resource_into_raw_ -> _resource_new -> from_handle, each exactly once", ok,
           render(g["body"]), where)
    rep.ob("R7.4", "new: T is `Guest{camel}` and the result is the owning wrapper",
           "Guest" + camel in g["sig"]["generics"].replace(" ", "") and g["sig"]["ret"] == "Self", g["sig"]["generics"], where)

    # dtor
    g = need(fn, "dtor", "exported resource")
    guard_first(g, "dtor")
    p = param_names(g)
    fr = calls_named(g["body"], "resource_from_raw_")
    ok = len(fr) == 1 and len(p) == 1 and render(strip(fr[0]["args"][0])) == p[0] and call_name(fr[0]).split("::")[0] == "T" and \
        not [n for n in synq.walk(g["body"]) if n.get("k") in ("for", "while", "loop", "return", "if", "match")]
    rep.ob("R7.4", "dtor: takes the representation back with T::resource_from_raw_(handle) exactly once, unconditionally",
           ok, render(g["body"]), where)
    rep.ob("R7.4", "dtor: the reclaimed representation is dropped (not forgotten / re-leaked)",
           not mentions(g["body"], set(LEAKERS)), f"{mentions(g['body'], set(LEAKERS))}", where)

    # as_ptr of the owning wrapper: resource.rep of the current handle
    g = need(fn, "as_ptr", "exported resource")
    guard_first(g, "as_ptr")
    rr = calls_named(g["body"], "_resource_rep")
    t = tail_expr(g["body"])
    ok = len(rr) == 1 and len(rr[0]["args"]) == 1 and render(rr[0]["args"][0]) == "self.handle()" and \
        t is not None and strip(t) is rr[0]
    rep.ob("R7.4", "as_ptr: the representation is looked up with [resource-rep] of the live handle (handle(), not take_handle())",
           ok, render(g["body"]), where)
    # get / get_mut / into_inner
    for meth, acc, selfk in (("get", "rep_as_ref", "&self"), ("get_mut", "rep_as_mut", "&mut self"), ("into_inner", "rep_take", "self")):
        g = need(fn, meth, "exported resource")
        cs = calls_named(g["body"], acc)
        sp = [q.get("src", "").replace(" ", "") for q in g["sig"]["params"] if q.get("self")]
        ok = len(cs) == 1 and len(cs[0]["args"]) == 1 and flows_from(g["body"], cs[0]["args"][0], "as_ptr") and \
            sp == [selfk.replace(" ", "")] and len([n for n in synq.walk(g["body"]) if n.get("k") == "call"]) == 1
        rep.ob("R7.4", f"{meth}({selfk}): {acc} on the pointer from as_ptr", ok, render(g["body"]), where)
    g = fn["into_inner"]
    rep.ob("R7.4", "into_inner: `self` is dropped afterwards (the handle is released, the host then runs the dtor)",
           not mentions(g["body"], set(LEAKERS)), f"{mentions(g['body'], set(LEAKERS))}", where)

    # the borrow flavour: pointer only
    bs = [it for it in ast["items"] if it.get("k") == "struct_def" and it["name"] == camel + "Borrow"]
    if len(bs) != 1:
        raise AnchorMissing("struct {camel}Borrow")
    rep.ob("R7.4", "{camel}Borrow holds the representation pointer and no owning handle",
           not any(H("resource") in x["ty"] or x["ty"].replace(" ", "").startswith(camel) for x in bs[0]["fields"]) and
           any(x["ty"].replace(" ", "") == "*constu8" for x in bs[0]["fields"]),
           f"{[(x['name'], x['ty']) for x in bs[0]['fields']]}", where)
    bad = [it for it in ast["items"] if it.get("k") == "impl" and it.get("trait") and synq.base_name(it["trait"]) == "Drop"]
    rep.ob("R7.4", "neither {camel} nor {camel}Borrow has its own Drop impl (a borrow never drops; the owner drops via Resource<T>)",
           not bad, f"{[b['self_ty'] for b in bad]}", where)
    g = need(bfn, "lift", "{camel}Borrow")
    p = param_names(g)
    sl = [n for n in synq.walk(g["body"]) if n.get("k") == "struct"]
    ok = len(sl) == 1 and len(p) == 1 and any(x["name"] == "rep" and render(x["e"]) == p[0] for x in sl[0]["fields"])
    rep.ob("R7.4", "{camel}Borrow::lift stores the received representation pointer", ok, render(g["body"]), where)
    g = need(bfn, "as_ptr", "{camel}Borrow")
    guard_first(g, "{camel}Borrow::as_ptr")
    t = tail_expr(g["body"])
    rep.ob("R7.4", "{camel}Borrow::as_ptr is the stored pointer", t is not None and render(strip(t)) == "self.rep",
           render(g["body"]), where)
    g = need(bfn, "get", "{camel}Borrow")
    cs = calls_named(g["body"], "rep_as_ref")
    rep.ob("R7.4", "{camel}Borrow::get: rep_as_ref on the pointer from as_ptr (no mutable or by-value access)",
           len(cs) == 1 and flows_from(g["body"], cs[0]["args"][0], "as_ptr") and
           not ({"get_mut", "into_inner", "take_handle", "from_handle"} & set(bfn)), f"{sorted(bfn)}", where)

    # trait Guest{camel}: default allocation pair and the two built-ins
    ge = synq.find_fn(IF, "generate_exports", self_ty="InterfaceGenerator")
    rep.saw(f"{IF}::generate_exports")
    lit2 = [s for s in synq.strings(ge.body) if "fn resource_into_raw_" in s["v"] and "fn resource_from_raw_" in s["v"]]
    if len(lit2) != 1:
        raise AnchorMissing(f"generate_exports: {len(lit2)} resource_into_raw_/resource_from_raw_ templates")
    where2 = f"{IF}:{synq.line(lit2[0])}"
    a2 = parse_template(lit2[0]["v"], "Guest{camel} allocation defaults", ren=hole_roles(ge, lit2[0]))
    f2 = fns_of(a2)
    g = need(f2, "resource_into_raw_", "Guest{camel}")
    p = param_names(g)
    t = tail_expr(g["body"])
    bx = H("box_path")
    ok = t is not None and call_name(t) == f"{bx}::into_raw" and len(t["args"]) == 1 and \
        call_name(t["args"][0]) == f"{bx}::new" and render(t["args"][0]["args"]) == (p[0] if p else None)
    rep.ob("R7.4", "default resource_into_raw_ = Box::into_raw(Box::new(val))", ok, render(g["body"]), where2)
    g = need(f2, "resource_from_raw_", "Guest{camel}")
    p = param_names(g)
    t = tail_expr(g["body"])
    inner = strip(t["e"]) if t is not None and t.get("k") == "unary" and t["op"] == "*" else None
    ok = inner is not None and call_name(inner) == f"{bx}::from_raw" and render(inner["args"]) == (p[0] if p else None)
    rep.ob("R7.4", "default resource_from_raw_ = *Box::from_raw(ptr) (frees the allocation of resource_into_raw_, "
           "returns the value to be dropped)", ok, render(g["body"]), where2)
    lit3 = [s for s in synq.strings(ge.body) if "fn _resource_new" in s["v"]]
    if len(lit3) != 1:
        raise AnchorMissing(f"generate_exports: {len(lit3)} _resource_new templates")
    where3 = f"{IF}:{synq.line(lit3[0])}"
    a3 = parse_template(lit3[0]["v"], "Guest{camel} built-ins", ren=hole_roles(ge, lit3[0]))
    f3 = fns_of(a3)
    for meth, marker in (("_resource_new", "[resource-new]"), ("_resource_rep", "[resource-rep]")):
        g = need(f3, meth, "Guest{camel}")
        p = param_names(g)
        di = [c for c in synq.fn_calls(ge.body, "declare_import") if marker in " ".join(s["v"] for s in synq.strings(c))]
        rust_name = di[0]["args"][2]["v"] if len(di) == 1 and len(di[0]["args"]) >= 3 and di[0]["args"][2].get("k") == "str" else None
        cs = [n for n in synq.walk(g["body"]) if n.get("k") in ("call", "mcall")]
        holes = [m["name"] for m in synq.macros(g["body"]) if m["name"].startswith("__h_")]
        decl_ok = len(holes) == 1 and len(di) == 1 and let_init(ge.body, holes[0][4:-2]) is di[0]
        ok = rust_name is not None and len(cs) == 1 and call_name(cs[0]) == rust_name and len(p) == 1 and \
            render(strip(cs[0]["args"][0])) == p[0] and decl_ok
        rep.ob("R7.4", f"{meth} calls the {marker} built-in once with its argument", ok,
               f"{render(g['body'])}; import `{rust_name}`, declaration holes {holes}", where3)

    # the exported [dtor] function forwards the representation to {camel}::dtor
    lit4 = [s for s in synq.strings(ge.body) if "[dtor]" in s["v"]]
    if len(lit4) != 1:
        raise AnchorMissing(f"generate_exports: {len(lit4)} [dtor] templates")
    where4 = f"{IF}:{synq.line(lit4[0])}"
    a4 = parse_template(lit4[0]["v"], "[dtor] export", ren=hole_roles(ge, lit4[0]))
    dfn = [n["item"] for n in synq.walk(a4) if n.get("k") == "item_stmt" and n["item"].get("k") == "fn"]
    dfn += [it for it in a4.get("items", []) if it.get("k") == "fn"]
    dfn = [d for d in dfn if any("export_name" in a for a in d.get("attrs", []))]
    if len(dfn) != 1:
        raise AnchorMissing(f"[dtor] export template: {len(dfn)} exported functions")
    d = dfn[0]
    p = param_names(d)
    cs = [n for n in synq.walk(d["body"]) if n.get("k") in ("call", "mcall")]
    ok = len(cs) == 1 and call_name(cs[0]) == f"__ptt__::{camel}::dtor" and len(p) == 1 and render(cs[0]["args"]) == p[0]
    rep.ob("R7.4", "the [dtor] export calls {camel}::dtor(rep) exactly once with the representation it receives", ok,
           render(d["body"]), where4)
    return d, where4, ge


# ============================================================================ names (R7.6)
MANGLERS = {"to_upper_camel_case", "to_snake_case", "to_rust_ident", "to_shouty_snake_case", "to_lowercase", "to_uppercase"}


def single_hole(template, marker):
    """`<marker>{hole}` -> hole name (the template must consist of the marker and one named hole)"""
    m = re.fullmatch(re.escape(marker) + r"\{(\w+)\}", template or "")
    return m.group(1) if m else None


def module_hole_ok(scope, fm):
    """`[export]{module}` whose hole is the world key of the interface"""
    if fm is None:
        return False, None
    key = single_hole(fm.template, "[export]")
    e = fm.named.get(key) if key else None
    if key and e is None:
        e = let_init(scope, key)
    return bool(key) and e is not None and bool(synq.method_calls(e, "name_world_key")), fm.template


def name_rules(rep, dtor_fn, where4, ge):
    from .C13 import dtor_name_obligations
    dtor_name_obligations(rep, "R7.6", "rust")
    # [dtor]: `{export_prefix}{module}#[dtor]{name}` with name = the WIT name iterated from resources_to_drop
    lit = [s_ for s_ in synq.strings(ge.body) if "[dtor]" in s_["v"]][0]
    fm = [x for x in synq.fmts(ge.body) if x.template_node is lit]
    m = re.search(r'export_name = \\?"((?:\{\w+\})*)#\[dtor\]\{(\w+)\}\\?"', lit["v"])
    pre = re.findall(r"\{(\w+)\}", m.group(1)) if m else []

    def hole_init(key):
        e = fm[0].named.get(key) if fm else None
        return e if e is not None else let_init(ge.body, key)
    ok = m is not None and len(fm) == 1 and len(pre) == 2 and hole_init(pre[0]) is not None and \
        ".export_prefix" in render(hole_init(pre[0])) and hole_init(pre[1]) is not None and \
        bool(synq.method_calls(hole_init(pre[1]), "name_world_key"))
    rep.ob("R7.6", "[dtor] export name is `{export_prefix}{interface}#[dtor]{resource}`", ok,
           m.group(0) if m else "no export_name attribute of that shape", where4)
    loops = [n for n in synq.walk(ge.body) if n.get("k") == "for" and any(x is lit for x in synq.walk(n["body"]))]
    ok = False
    det = ""
    if m is not None and len(loops) >= 1 and loops[-1]["pat"].get("k") == "p_ident":
        var = loops[-1]["pat"]["name"]
        src = render(loops[-1]["iter"])
        # the vector is filled with the key of `interfaces[id].types` (the WIT type name) for Resource kinds
        pushes = [mc for mc in synq.method_calls(ge.body, "push") if render(mc["recv"]) == src.lstrip("&")]
        det = f"for {var} in {src}; pushes {[render(x['args']) for x in pushes]}"
        if var == m.group(2) and fm and m.group(2) not in fm[0].named and len(pushes) == 1:
            pushed = render(pushes[0]["args"])
            outer = [n for n in synq.walk(ge.body) if n.get("k") == "for" and
                     any(x is pushes[0] for x in synq.walk(n["body"]))]
            ok = bool(outer) and outer[-1]["pat"].get("k") == "p_tuple" and \
                outer[-1]["pat"]["elems"][0].get("name") == pushed and ".types" in render(outer[-1]["iter"]) and \
                not synq.contains_call_named(pushes[0]["args"][0], MANGLERS)
    rep.ob("R7.6", "[dtor]: the resource hole iterates the interface's WIT resource names (unmangled)", ok, det, where4)
    # [resource-drop]{name} in type_resource: name = the `name: &str` parameter; module = own import module / [export]module
    tr = synq.find_fn(IF, "type_resource", self_ty="InterfaceGenerator")
    di = [c for c in synq.fn_calls(tr.body, "declare_import") if "[resource-drop]" in " ".join(s_["v"] for s_ in synq.strings(c))]
    rep.floor("R7.6", "[resource-drop] import declarations", len(di), 1)
    for c in di:
        f1 = synq.fmts(c["args"][1])
        key = single_hole(f1[0].template, "[resource-drop]") if len(f1) == 1 else None
        # the hole is the WIT name parameter of `type_resource(&mut self, id, name, docs)`, not a derived local
        ok = key is not None and key not in f1[0].named and let_init(tr.body, key) is None and \
            key in tr.params and tr.params.index(key) == 2
        rep.ob("R7.6", "[resource-drop] import is named `[resource-drop]{name}` with the WIT resource name", ok,
               f"{f1[0].template if f1 else render(c['args'][1])}", tr.loc(c))
        mod = strip(c["args"][0])
        init = let_init(tr.body, mod["path"]) if mod.get("k") == "path" else None
        ok = False
        det = ""
        if init is not None and init.get("k") == "if":
            vals = {}
            for conds, leaf in if_leaves(init):
                vals[tuple((render(cn), p_) for cn, p_ in conds)] = tail_expr(leaf)
            imp = vals.get((("self.in_import", True),))
            exp = vals.get((("self.in_import", False),))
            eok, etxt = module_hole_ok(tr.body, as_fmt(exp) if exp is not None else None)
            # the export flavour's module local may be bound inside the else branch
            if not eok and exp is not None and as_fmt(exp) is not None:
                eok, etxt = module_hole_ok(init, as_fmt(exp))
            ok = imp is not None and render(imp).startswith("self.wasm_import_module") and eok
            det = f"import: {render(imp) if imp is not None else None}; export: {etxt}"
        rep.ob("R7.6", "[resource-drop] module: the interface's own module for imports, `[export]{interface}` for exports",
               ok, det, tr.loc(c))
    for marker in ("[resource-new]", "[resource-rep]"):
        di = [c for c in synq.fn_calls(ge.body, "declare_import") if marker in " ".join(s_["v"] for s_ in synq.strings(c))]
        ok = False
        det = ""
        if len(di) == 1:
            f1 = synq.fmts(di[0]["args"][1])
            key = single_hole(f1[0].template, marker) if len(f1) == 1 else None
            init = (f1[0].named.get(key) or let_init(ge.body, key)) if key else None
            mod = strip(di[0]["args"][0])
            minit = let_init(ge.body, mod["path"]) if mod.get("k") == "path" else None
            mok, mtxt = module_hole_ok(ge.body, as_fmt(minit) if minit is not None else None)
            ok = init is not None and ".name" in render(init) and "types[" in render(init) and \
                not synq.contains_call_named(init, MANGLERS) and mok
            det = f"{f1[0].template if f1 else None}; hole = {render(init) if init is not None else None}; module {mtxt}"
        rep.ob("R7.6", f"{marker} import is `{marker}{{resource}}` of `[export]{{interface}}` with the WIT resource name",
               ok, det, ge.loc())


# ============================================================================ runtime (R7.5 + Option<T> rep)
def runtime_rules(rep, c, cfg):
    tag = f"[{cfg}]"
    is_async = c.method("RawStreamReader", "take_handle", required=False) is not None
    if cfg == "full" and not is_async:
        raise AnchorMissing("RawStreamReader::take_handle in config full")

    def reader(ty, opsname):
        th = c.method(ty, "take_handle")
        oh = c.method(ty, "opt_handle")
        dr = c.method(ty, "drop", trait="Drop")
        nw = c.method(ty, "new")
        for x in (th, oh, dr, nw):
            rep.saw(x)
        # opt_handle: load; sentinel -> None, anything else -> Some(loaded)
        ld = oh.calls("Atomic::load")
        none_vals = []
        ok_some = False
        for b, t in oh.switches():
            o = oh.switch_origin(b)
            if not (o.get("kind") == "call" and o["call"].matches("Atomic::load")):
                continue
            tg = oh.switch_targets(b)
            nones = {bb for bb, i, rv, s in oh.aggregates("Option", "None")}
            somes = {bb for bb, i, rv, s in oh.aggregates("Option", "Some")}
            for v, tb in tg.items():
                if v == "else":
                    ok_some = bool(oh.reachable(tb) & somes) and not (oh.edge_region(b, tb) & nones)
                elif oh.edge_region(b, tb) & nones or tb in nones:
                    none_vals.append(v)
        rep.ob("R7.5", f"{ty}::opt_handle maps exactly one value of the stored handle to None, all others to Some {tag}",
               len(ld) == 1 and len(none_vals) == 1 and ok_some, f"None for {none_vals}", oh.loc())
        sentinel = none_vals[0] if len(none_vals) == 1 else None
        # take_handle: read through opt_handle first, then store the sentinel, return the value read
        st = th.calls("Atomic::store")
        oc = th.calls(f"{ty}::opt_handle")
        stored = [th.origin(x.args[1]) for x in st if len(x.args) >= 2]
        sv = [o.get("v") if o.get("kind") == "const" else f"<{o.get('kind')}>" for o in stored]
        rep.ob("R7.5", f"{ty}::take_handle stores the value opt_handle maps to None {tag}",
               len(st) == 1 and sv == [sentinel] and sentinel is not None,
               f"stores {sv}, opt_handle treats {sentinel} as taken: Drop would release a handle that was given away "
               "(or leak a live one)", th.loc(st[0].bb) if st else th.loc())
        rep.ob("R7.5", f"{ty}: the taken-handle marker is u32::MAX {tag}", sentinel == SENTINEL, f"{sentinel}", oh.loc())
        field_ok = all(".handle" in "".join(map(str, th.origin(x.args[0]).get("proj", []))) for x in st)
        rep.ob("R7.5", f"{ty}::take_handle overwrites the `handle` field {tag}", bool(st) and field_ok, "", th.loc())
        ok = len(oc) == 1 and len(st) == 1 and th.dominates(oc[0].bb, st[0].bb) and oc[0].bb != st[0].bb and \
            every_return_passes(th, [st[0].bb])
        rep.ob("R7.5", f"{ty}::take_handle reads the handle before marking it taken, on every path {tag}", ok, "", th.loc())
        ro = th.place_origin({"l": 0})
        ok = ro.get("kind") == "call" and ro["call"].matches("Option::unwrap") and \
            th.origin(ro["call"].args[0]).get("kind") == "call" and th.origin(ro["call"].args[0])["call"].matches(f"{ty}::opt_handle")
        rep.ob("R7.5", f"{ty}::take_handle returns the handle it read (panics if already taken) {tag}", ok,
               f"{ro.get('kind')}", th.loc())
        # Drop: None => nothing, Some(h) => drop_readable(h) once
        dcall = dr.calls(f"{opsname}::drop_readable")
        sws = [(b, m, o) for b, m, o in discr_switches(dr, ty_sub="Option<u32>")
               if o.get("of", {}).get("kind") == "call" and o["of"]["call"].matches(f"{ty}::opt_handle")]
        rep.floor("R7.5", f"opt_handle test in Drop for {ty} {tag}", len(sws), 1)
        rep.ob("R7.5", f"Drop for {ty}: exactly one drop_readable site, not in a loop {tag}",
               len(dcall) == 1 and not dr.in_cycle(dcall[0].bb), f"{len(dcall)} sites", dr.loc())
        for b, m, o in sws:
            stt, nt = variant_target(m, "Some"), variant_target(m, "None")
            rep.ob("R7.5", f"Drop for {ty}: a live handle is released with drop_readable on every path {tag}",
                   stt is not None and bool(dcall) and dr.all_paths_pass(stt, dr.returns(), [x.bb for x in dcall]),
                   "a received readable end can be dropped without telling the host (leak)", dr.loc(b))
            rep.ob("R7.5", f"Drop for {ty}: a taken handle is never released {tag}",
                   nt is not None and not calls_in(dr, dr.reachable(nt), f"{opsname}::drop_readable") if nt != stt else False,
                   "the handle was transferred; dropping it again is a double drop", dr.loc(b))
        rep.ob("R7.5", f"Drop for {ty}: no return bypasses the opt_handle test {tag}",
               every_return_passes(dr, [b for b, _, _ in sws]), "", dr.loc())
        for x in dcall:
            ao = dr.origin(x.args[1]) if len(x.args) >= 2 else {}
            src_ok = "as Some" in str(ao.get("place", "")) or any("Some" in str(pp) for pp in ao.get("proj", []))
            rep.ob("R7.5", f"Drop for {ty}: drop_readable receives the handle read by opt_handle {tag}", src_ok,
                   f"{ao.get('kind')} {ao.get('place', '')}", dr.loc(x.bb))
        # new stores the handle it is given
        an = nw.calls("Atomic::new")
        ok = len(an) == 1 and nw.origin(an[0].args[0]).get("kind") == "arg" and nw.origin(an[0].args[0]).get("n") == 1
        rep.ob("R7.5", f"{ty}::new wraps exactly the received handle {tag}", ok, "", nw.loc())
        for tr_ in ("Clone", "Copy"):
            rep.ob("R7.5", f"{ty} does not implement {tr_} {tag}", not c.impls_of(tr_, r"\b" + ty + r"\b"),
                   "two wrappers of one handle drop it twice", dr.loc())
        return sentinel

    if is_async:
        rep.guard("R7.5", f"RawStreamReader {tag}", lambda: reader("RawStreamReader", "StreamOps"))
        rep.guard("R7.5", f"RawFutureReader {tag}", lambda: reader("RawFutureReader", "FutureOps"))

        def writers():
            n = 0
            for ty, ops in (("RawStreamWriter", "StreamOps"), ("RawFutureWriter", "FutureOps")):
                dr = c.method(ty, "drop", trait="Drop")
                rep.saw(dr)
                dc = dr.calls(f"{ops}::drop_writable")
                n += len(dc)
                ok = len(dc) == 1 and not dr.in_cycle(dc[0].bb) and every_return_passes(dr, [dc[0].bb])
                rep.ob("R7.5", f"Drop for {ty}: drop_writable exactly once on every path {tag}", ok, f"{len(dc)} sites", dr.loc())
                if dc:
                    ao = dr.origin(dc[0].args[1])
                    rep.ob("R7.5", f"Drop for {ty}: releases its own `handle` field {tag}",
                           ao.get("kind") == "arg" and ".handle" in ao.get("proj", []), f"{ao.get('place')}", dr.loc(dc[0].bb))
                for tr_ in ("Clone", "Copy"):
                    rep.ob("R7.5", f"{ty} does not implement {tr_} {tag}", not c.impls_of(tr_, r"\b" + ty + r"\b"), "", dr.loc())
            rep.floor("R7.5", f"drop_writable sites {tag}", n, 2)
            rep.ob("R7.5", f"FutureWriter does not implement Clone {tag}", not c.impls_of("Clone", r"\bFutureWriter\b"), "",
                   "crates/guest-rust/src/rt/async_support/future_support.rs")
        rep.guard("R7.5", f"writers {tag}", writers)

        def errctx():
            dr = c.method("ErrorContext", "drop", trait="Drop")
            rep.saw(dr)
            dc = dr.calls("error_context::drop")
            rep.floor("R7.5", f"[error-context-drop] call in Drop for ErrorContext {tag}", len(dc), 1)
            ok = len(dc) == 1 and not dr.in_cycle(dc[0].bb) and every_return_passes(dr, [dc[0].bb])
            rep.ob("R7.5", f"Drop for ErrorContext: [error-context-drop] exactly once on every path {tag}", ok,
                   f"{len(dc)} sites", dr.loc())
            if dc:
                ao = dr.origin(dc[0].args[0])
                rep.ob("R7.5", f"Drop for ErrorContext: drops its own handle {tag}",
                       ao.get("kind") == "arg" and ".handle" in ao.get("proj", []), f"{ao.get('place')}", dr.loc(dc[0].bb))
            h = c.method("ErrorContext", "handle")
            rep.saw(h)
            ro = h.place_origin({"l": 0})
            rep.ob("R7.5", f"ErrorContext::handle only reads the handle (the sender keeps it) {tag}",
                   ro.get("kind") == "arg" and ".handle" in ro.get("proj", []) and not h.calls() and not h.field_stores("handle"),
                   f"{ro.get('kind')}", h.loc())
            fh = c.method("ErrorContext", "from_handle")
            rep.saw(fh)
            ag = fh.aggregates("ErrorContext")
            ok = len(ag) == 1 and fh.origin(ag[0][2]["ops"][0]).get("kind") == "arg"
            rep.ob("R7.5", f"ErrorContext::from_handle wraps exactly the received handle {tag}", ok, "", fh.loc())
            for tr_ in ("Clone", "Copy"):
                rep.ob("R7.5", f"ErrorContext does not implement {tr_} {tag}", not c.impls_of(tr_, r"\bErrorContext$"), "", dr.loc())
        rep.guard("R7.5", f"ErrorContext {tag}", errctx)

    # the default representation Option<T> of an exported resource
    def optrep():
        tk = c.method("Option", "rep_take", trait="ResourceRep")
        nw = c.method("Option", "rep_new", trait="ResourceRep")
        rep.saw(tk)
        rep.saw(nw)
        tc = tk.calls("Option::take")
        ro = tk.place_origin({"l": 0})
        ok = len(tc) == 1 and ro.get("kind") == "call" and ro["call"].matches("Option::unwrap") and \
            tk.origin(ro["call"].args[0]).get("kind") == "call" and tk.origin(ro["call"].args[0])["call"].matches("Option::take") and \
            not tk.calls(["ptr::read", "mem::transmute_copy", "ptr::read_unaligned"])
        rep.ob("R7.4", f"Option<T>::rep_take moves the value out and leaves None (the later dtor frees an empty box) {tag}",
               ok, "a bitwise copy would destroy the value twice: once by the caller of into_inner, once by the dtor", tk.loc())
        ag = nw.aggregates("Option", "Some")
        ok = len(ag) == 1 and nw.origin(ag[0][2]["ops"][0]).get("kind") == "arg"
        rep.ob("R7.4", f"Option<T>::rep_new stores the value as Some {tag}", ok, "", nw.loc())
        for nm in ("rep_as_ref", "rep_as_mut"):
            g = c.method("Option", nm, trait="ResourceRep")
            rep.saw(g)
            rep.ob("R7.4", f"Option<T>::{nm} borrows in place (no take) {tag}",
                   not g.calls("Option::take") and len(g.calls("Option::unwrap")) == 1, "", g.loc())
    rep.guard("R7.4", f"Option<T> representation {tag}", optrep)


def errctx_link(rep):
    """the extern declaration's link name (syntax tree; MIR only sees the native shim)"""
    EC = "crates/guest-rust/src/rt/async_support/error_context.rs"
    ff = [n for n in synq.walk(synq.load(EC)) if n.get("k") == "foreign_fn" and n["sig"]["name"] == "drop"]
    rep.floor("R7.5", "foreign fn `drop` of error_context.rs", len(ff), 1)
    for n in ff:
        ln = [re.match(r'link_name\s*=\s*"(.*)"$', a) for a in n.get("attrs", [])]
        ln = [m.group(1) for m in ln if m]
        mod = None
        for fm in synq.walk(synq.load(EC)):
            if fm.get("k") == "foreign_mod" and any(x is n for x in fm.get("items", [])):
                mm = [re.search(r'wasm_import_module\s*=\s*"([^"]*)"', a) for a in fm.get("attrs", [])]
                mod = [m.group(1) for m in mm if m]
        rep.ob("R7.5", "error_context::drop is the `[error-context-drop]` built-in of `$root`",
               ln == ["[error-context-drop]"] and mod == ["$root"], f"link_name {ln}, module {mod}", f"{EC}:{synq.line(n)}")


# ============================================================================ entry point
def run(rep, tier):
    rep.describe(
        "other",
        "Structural necessary conditions of C07. On the syntax tree of the Rust backend: each handle instruction "
        "writes the ownership action of the canonical ABI (own / future / stream lowered with take_handle, borrow and "
        "error-context with handle; own lifted into one owning wrapper; a borrowed exported resource lifted to its "
        "representation pointer; a borrowed imported resource lifted into a temporary declared inside the call's own "
        "block, which is closed before task.return; DropHandle drops on the spot). On the embedded Rust templates "
        "(re-parsed with syn): Resource<T>'s take_handle stores the value its Drop ignores (u32::MAX), Drop otherwise "
        "calls T::drop once, no Clone/Copy; the per-resource wrappers forward to it; the exported-resource impl boxes "
        "the value once (rep_new -> resource_into_raw_ -> [resource-new]), reaches it through [resource-rep] / the "
        "borrow pointer, and frees it once in the [dtor] export (resource_from_raw_); names of [dtor] / "
        "[resource-drop] / [resource-new] / [resource-rep] carry the WIT resource name. On the runtime's MIR: "
        "stream/future readers mark a transferred handle with the value their Drop skips and otherwise call "
        "drop-readable once; writers and ErrorContext drop once; Option<T>::rep_take leaves None. NOT decided: the "
        "host's resource table, any execution, user code calling the #[doc(hidden)] methods; which of the two "
        "parameter-release callbacks an async import runs for each subtask status (own<T> parameters of a call "
        "cancelled before it started) is decided by C21 R21.1 / C08 R8.3; what the runtime's stream/future read and "
        "write operations do with the reader/writer they hold is outside this module.",
        trusted_base=["syn parse of crates/rust/src/{bindgen,interface,lib}.rs and of the embedded templates after "
                      "hole substitution (rules/C07.py: to_rust)", "rustc nightly MIR (opt-level 0) of crates/guest-rust, "
                      "unwind edges ignored", "tools/synfacts, tools/mirfacts", "rustc type checker (witnesses)"],
        assumptions=["holes of the embedded templates are filled with identifiers / paths / item lists",
                     "native (x86_64) build of the runtime: extern_wasm! built-ins appear as shim functions"],
    )
    rep.guard("R7.1", "generator arms", lambda: generator_rules(rep))
    rep.guard("R7.3", "Resource<T> template", lambda: resource_template_rules(rep))
    rep.guard("R7.3", "wrapper templates", lambda: wrapper_rules(rep))
    res = rep.guard("R7.4", "exported resource template", lambda: exported_rules(rep))
    if res is not None:
        rep.guard("R7.6", "name templates", lambda: name_rules(rep, *res))
    else:
        rep.ob("R7.6", "name templates", False, "not evaluated: the exported resource template could not be analysed", IF)
    for cfg in configs(tier):
        rep.guard("R7.5", f"config:{cfg}", lambda cfg=cfg: runtime_rules(rep, rt(cfg), cfg))
    rep.guard("R7.5", "error-context link name", lambda: errctx_link(rep))
    from .witness import run_witness
    rep.guard("R7.5", "witness", lambda: run_witness(rep, "C07", "R7.5"))
