#!/usr/bin/env python3
"""Regenerate /verif/MANIFEST.json from the table below (one entry per claimed property)."""
import json
import os

VERIF = os.path.dirname(os.path.dirname(os.path.abspath(__file__)))

NOTE_MIR = ("Trusted: rustc nightly MIR at mir-opt-level=0 of the native (x86_64) build, tools/mirfacts, the CFG/"
            "dominator queries in lib/mir.py; unwind edges ignored (a panic traps on wasm). A pass means every listed "
            "structural obligation holds on the current tree, not that the full behavioural property is proved.")
NOTE_SYN = ("Trusted: syn 2 parse of the current sources (tools/synfacts), the match-table / template evaluators in "
            "lib/synq.py, wit-parser and wit-component sources as oracles. A pass means every listed structural "
            "obligation holds on the current tree, not that the full behavioural property is proved.")

NOTES = {"mir": NOTE_MIR, "syn": NOTE_SYN, "mir+syn": NOTE_MIR + " " + NOTE_SYN}


def load_claims():
    import importlib
    import sys
    sys.path.insert(0, VERIF)
    sys.dont_write_bytecode = True
    out = {}
    # only modules reviewed and confirmed green on the unchanged tree are registered
    accepted = set(open(os.path.join(VERIF, "rules", "ACCEPTED")).read().split())
    for i in range(1, 35):
        pid = "C%02d" % i
        if not os.path.exists(os.path.join(VERIF, "rules", pid + ".py")) or pid not in accepted:
            continue
        mod = importlib.import_module("rules." + pid)
        c = dict(getattr(mod, "CLAIM"))
        c["note"] = NOTES.get(c["note"], c["note"])
        out[pid] = c
    return out


CLAIMS = load_claims()

NOT_APPLICABLE = {
    "C05": "value fidelity of executing Rust-generated components under an independent host quantifies over runtime "
           "values of generated programs; no sound static argument in reach (its structural clauses are decided under "
           "C01/C04/C14)",
    "C10": "same as C05 for C output; additionally needs clang and a component host",
    "C31": "well-formedness of generated C++ requires type-checking generator output with a C++ front end; analysing "
           "the generator alone cannot decide it",
}

ALL = ["C%02d" % i for i in range(1, 35)]


def main():
    checks = []
    for pid in ALL:
        c = CLAIMS.get(pid)
        if not c or not os.path.exists(os.path.join(VERIF, "rules", pid + ".py")):
            continue
        checks.append({
            "property_id": pid,
            "quick_cmd": f"python3 /verif/check.py {pid} --tier quick",
            "thorough_cmd": f"python3 /verif/check.py {pid} --tier thorough",
            "evidence_file": f"/verif/evidence/{pid}.json",
            "replay_cmd_template": f"python3 /verif/check.py {pid} --tier thorough --replay {{path}}",
            "engine": c["engine"],
            "level_claimed": {"category": c["level"], "text": c["text"], "design_ref": c["design"]},
            "level_note": c["note"],
            "technique": c["technique"],
        })
    claimed = {c["property_id"] for c in checks}
    na = []
    for pid in ALL:
        if pid in claimed:
            continue
        reason = NOT_APPLICABLE.get(pid, "check not built yet in this round (static design in DESIGN.md §5); not claimed")
        na.append({"property_id": pid, "reason": reason})
    man = {
        "version": 1,
        "setup_cmd": "bash /verif/setup.sh",
        "hooks": {
            "guard": "bytecodealliance_wit_bindgen_verif",
            "enable": "none needed: static analysis reads /repo's sources and MIR; no instrumentation is compiled in",
            "baseline_off_cmd": "cd /repo && cargo test --workspace --no-fail-fast --offline",
            "source_commits": [],
            "add_only": True,
        },
        "engines": [
            {"name": "mirfacts", "path": "/verif/tools/mirfacts",
             "kind_free_text": "rustc_private driver (nightly) dumping type-resolved MIR facts; queried by lib/mir.py",
             "serves_properties": sorted(p for p, c in CLAIMS.items() if "mirfacts" in c["engine"] and p in claimed)},
            {"name": "synfacts", "path": "/verif/tools/synfacts",
             "kind_free_text": "syn 2 syntax-tree dump incl. macro arguments; match tables / templates in lib/synq.py",
             "serves_properties": sorted(p for p, c in CLAIMS.items() if "synfacts" in c["engine"] and p in claimed)},
            {"name": "witness", "path": "/verif/witness",
             "kind_free_text": "compile_fail,E0xxx doctests with compiling twins against /repo/crates/guest-rust",
             "serves_properties": sorted(p for p, c in CLAIMS.items() if "witness" in c["engine"] and p in claimed)},
        ],
        "checks": checks,
        "not_applicable": na,
        "notes": "Technique family: static analysis only. Every check reads /repo's current working tree (fact cache "
                 "keyed by a content hash of the tree), reports file:line + rule + instance, and fails closed on a "
                 "missing anchor or a count below the confirmed floor. Known findings: /verif/known_findings.json.",
    }
    with open(os.path.join(VERIF, "MANIFEST.json"), "w") as fh:
        json.dump(man, fh, indent=1)
        fh.write("\n")
    print(f"{len(checks)} checks, {len(na)} not applicable")


if __name__ == "__main__":
    main()
