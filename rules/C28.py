"""C28 — type analysis identifies exactly the structurally equal types (structural clauses)."""
import os
import re

from lib import facts, synq
from lib.mir import AnchorMissing
from lib.synq import short

T = "crates/core/src/types.rs"
RUST_IF = "crates/rust/src/interface.rs"
DRIVERS = [("rust", "crates/rust/src/lib.rs"), ("csharp", "crates/csharp/src/world_generator.rs")]

CLAIM = dict(
    level="other", engine="synfacts", design="DESIGN.md §5 C28",
    technique="first-match evaluation of the (kind, kind) equality tables over wit-parser's variant lists with "
              "symbolic binding of pattern positions; conjunct sets compared with the component list derived from "
              "wit-parser's type definitions; flag/merge tables and usage-flag writers checked by symbolic def-use",
    text="Decides on the syntax tree of crates/core/src/types.rs that the equality tables pair every kind only with "
         "itself and compare exactly the structural components wit-parser defines for it (lengths, names in zip "
         "order, component types, fixed length, resource identity), that typedef layers are peeled on both sides, "
         "that the content-flag table sets exactly the documented flags and ORs in every component's info, that "
         "usage flags are written only for import parameters (borrowed), export parameters / results (owned) and the "
         "error case of a result, and that equal types are merged by union and written back. Partial: the "
         "topological-order argument, LiveTypes and UnionFind path compression are trusted, not decided.",
    note="syn")

A, B = "«A»", "«B»"
TRANSPARENT = {"iter", "into_iter", "iter_mut", "as_ref", "as_mut", "as_deref", "clone", "cloned", "copied", "borrow",
               "to_owned"}
DIVERGE_MACROS = {"unreachable", "panic", "todo", "unimplemented"}
LOG_MACROS = {"log", "debug", "trace", "info", "warn", "error", "eprintln", "println", "dbg", "debug_assert",
              "debug_assert_eq", "assert", "assert_eq"}
NONSTRUCTURAL = {"Docs", "Span"}
SCALARS = {"String", "u8", "u16", "u32", "u64", "usize", "i32", "i64", "bool", "char"}
OPAQUE_CONTENT = {"Handle", "Future", "Stream"}   # handle-like kinds: u32 handles, payload not part of the content facts

# expected content flags per kind (DESIGN R28.2); Handle is split by its own variants
KIND_FLAGS = {"Record": set(), "Resource": {"has_resource"}, "Flags": set(), "Tuple": {"has_tuple"}, "Variant": set(),
              "Enum": set(), "Option": set(), "Result": set(), "List": {"has_list"}, "Map": {"has_list"},
              "FixedLengthList": set(), "Future": {"has_resource", "has_own_handle"},
              "Stream": {"has_resource", "has_own_handle"}, "Type": set()}
HANDLE_FLAGS = {"Own": {"has_own_handle", "has_resource"}, "Borrow": {"has_borrow_handle", "has_resource"}}
PRIM_FLAGS = {"String": {"has_list"}, "ErrorContext": {"has_resource"}}


# ============================================================================ oracle: wit-parser's definitions
class Oracle:
    def __init__(self):
        d = facts.registry_src("wit-parser")
        if d is None:
            raise AnchorMissing("wit-parser source not found in the cargo registry")
        self.path = os.path.join(d, "src/lib.rs")
        ast = facts.parse_snippet(open(self.path).read())
        if "error" in ast:
            raise AnchorMissing("wit-parser lib.rs does not parse: " + ast["error"])
        self.enums, self.structs, self.attrs = {}, {}, {}
        for it in ast["items"]:
            if it.get("k") == "enum_def":
                self.enums[it["name"]] = [(v["name"], [f["ty"].replace(" ", "") for f in v["fields"]]) for v in it["variants"]]
                self.attrs[it["name"]] = it.get("attrs", [])
            elif it.get("k") == "struct_def":
                self.structs[it["name"]] = [(f["name"], f["ty"].replace(" ", "")) for f in it["fields"]]
        for need in ("TypeDefKind", "Type", "Handle"):
            if need not in self.enums:
                raise AnchorMissing(f"enum {need} not found in wit-parser")

    def variants(self, enum):
        return [v for v, _ in self.enums[enum]]

    def payload(self, enum, variant):
        for v, tys in self.enums[enum]:
            if v == variant:
                return tys
        raise AnchorMissing(f"{enum}::{variant}")

    def components(self, ty, path):
        """Leaves of a payload type: (leafkind, path) with leafkind in Type / OptType / TypeId / scalar / len / enum:X."""
        if ty in NONSTRUCTURAL:
            return []
        if ty == "Type":
            return [("Type", path)]
        if ty == "Option<Type>":
            return [("OptType", path)]
        if ty == "TypeId":
            return [("TypeId", path)]
        if ty in SCALARS:
            return [("scalar", path)]
        m = re.fullmatch(r"Vec<(.+)>", ty)
        if m:
            return [("len", path + ".len()")] + self.components(m.group(1), path + "[]")
        if ty in self.structs:
            out = []
            for fname, fty in self.structs[ty]:
                out += self.components(fty, f"{path}.{fname}")
            return out
        if ty in self.enums:
            return [("enum:" + ty, path)]
        raise AnchorMissing(f"wit-parser component type `{ty}` is not understood by the rule (new kind of component?)")


# ============================================================================ symbolic values
def vstr(v):
    if isinstance(v, tuple):
        return "(" + ", ".join(vstr(x) for x in v) + ")"
    return v


def is_expr(n):
    return isinstance(n, dict) and not str(n.get("k", "")).startswith("p_")


class Ctx:
    """per-function symbolic state: ordinal numbering of mutable locals"""

    def __init__(self):
        self.var_count = {}

    def var(self, init):
        k = self.var_count.get(init, 0)
        self.var_count[init] = k + 1
        return f"var#{k}({init})"


def bind(pat, val, env):
    """Bind the identifiers of pattern `pat` matched against symbolic value `val` (positions, not names)."""
    k = pat.get("k")
    if k == "p_ident":
        if pat.get("sub"):
            bind(pat["sub"], val, env)
        if not pat["name"][:1].isupper():
            env[pat["name"]] = val
    elif k == "p_ref":
        bind(pat["pat"], val, env)
    elif k == "p_tuple":
        for i, e in enumerate(pat["elems"]):
            if e.get("k") == "p_rest":
                break
            if isinstance(val, tuple):
                bind(e, val[i] if i < len(val) else "?", env)
            else:
                bind(e, f"{val}.{i}", env)
    elif k == "p_tuple_struct":
        v = short(pat["path"])
        for i, e in enumerate(pat["elems"]):
            if e.get("k") == "p_rest":
                if i != len(pat["elems"]) - 1:
                    for e2 in pat["elems"][i + 1:]:
                        bind(e2, "?", env)
                break
            bind(e, f"{vstr(val)}<{v}>.{i}", env)
    elif k == "p_struct":
        for f in pat["fields"]:
            bind(f["pat"], f"{vstr(val)}.{f['name']}", env)
    elif k == "p_or":
        if pat["cases"]:
            bind(pat["cases"][0], val, env)
    elif k == "p_slice":
        for i, e in enumerate(pat.get("elems", [])):
            if e.get("k") == "p_rest":
                break
            bind(e, f"{vstr(val)}[{i}]", env)
    # p_wild, p_rest, p_lit, p_path, p_range: nothing to bind


def is_diverging(e):
    k = e.get("k")
    if k in ("return", "continue", "break"):
        return True
    if k == "macro" and short(e["name"]) in DIVERGE_MACROS:
        return True
    if k == "block" and e["stmts"]:
        last = e["stmts"][-1]
        return last.get("k") == "expr_stmt" and is_diverging(last["e"])
    return False


def itelem(e, env, cx):
    """Symbolic value of one element of iterator expression e."""
    if e.get("k") == "mcall":
        m, recv, args = e["method"], e["recv"], e["args"]
        if m in ("iter", "into_iter", "iter_mut") and not args:
            return itelem(recv, env, cx) if recv.get("k") == "mcall" and recv["method"] in ("zip", "enumerate", "map", "chain") \
                else sym(recv, env, cx) + "[]"
        if m == "zip" and len(args) == 1:
            return (itelem(recv, env, cx), itelem(args[0], env, cx))
        if m == "enumerate" and not args:
            inner = itelem(recv, env, cx)
            coll = vstr(inner)[:-2] if isinstance(inner, str) and inner.endswith("[]") else vstr(inner)
            return (f"idx({coll})", inner)
        if m == "map" and len(args) == 1 and args[0].get("k") == "closure" and len(args[0]["params"]) == 1:
            env2 = dict(env)
            bind(args[0]["params"][0], itelem(recv, env, cx), env2)
            return symv(args[0]["body"], env2, cx)
        if m == "chain" and len(args) == 1:
            a, b = itelem(recv, env, cx), itelem(args[0], env, cx)
            if isinstance(a, tuple) and isinstance(b, tuple) and len(a) == len(b):
                return tuple(x if x == y else f"alt({vstr(x)}|{vstr(y)})" for x, y in zip(a, b))
            return a if a == b else f"alt({vstr(a)}|{vstr(b)})"
    return sym(e, env, cx) + "[]"


def symv(e, env, cx):
    """Symbolic value of an expression: a canonical string, or a tuple of values for tuple expressions."""
    if e is None:
        return ""
    k = e.get("k")
    if k == "path":
        return env.get(e["path"], e["path"])
    if k == "tuple":
        return tuple(symv(x, env, cx) for x in e["elems"])
    if k in ("ref", "paren", "try", "group"):
        return symv(e["e"], env, cx)
    if k == "unary":
        if e["op"] == "*":
            return symv(e["e"], env, cx)
        return e["op"] + sym(e["e"], env, cx)
    if k == "field":
        b = symv(e["base"], env, cx)
        if isinstance(b, tuple) and str(e["member"]).isdigit() and int(e["member"]) < len(b):
            return b[int(e["member"])]
        return f"{vstr(b)}.{e['member']}"
    if k == "mcall":
        if e["method"] in TRANSPARENT and not e["args"]:
            return symv(e["recv"], env, cx)
        return f"{sym(e['recv'], env, cx)}.{e['method']}({', '.join(sym(a, env, cx) for a in e['args'])})"
    if k == "call":
        return f"{sym(e['func'], env, cx)}({', '.join(sym(a, env, cx) for a in e['args'])})"
    if k == "index":
        return f"{sym(e['base'], env, cx)}[{sym(e['index'], env, cx)}]"
    if k == "binary":
        return f"({sym(e['l'], env, cx)} {e['op']} {sym(e['r'], env, cx)})"
    if k == "str":
        import json
        return json.dumps(e["v"])
    if k in ("int", "float"):
        return str(e["v"])
    if k == "bool":
        return "true" if e["v"] else "false"
    if k == "cast":
        return f"({sym(e['e'], env, cx)} as {e['ty']})"
    if k == "macro":
        if "args" in e and e["args"] is not None:
            return f"{short(e['name'])}!({', '.join(sym(a, env, cx) for a in e['args'])})"
        return f"{short(e['name'])}!(..)"
    if k == "block":
        env2 = dict(env)
        tail = None
        for s in e["stmts"]:
            if s.get("k") == "let":
                bind_let(s, env2, cx)
            elif s.get("k") == "expr_stmt" and not s.get("semi"):
                tail = s["e"]
        return symv(tail, env2, cx) if tail is not None else "()"
    if k == "match":
        sc = symv(e["scrut"], env, cx)
        vals = []
        for a in e["arms"]:
            if is_diverging(a["body"]):
                continue
            env2 = dict(env)
            bind(a["pat"], sc, env2)
            vals.append(vstr(symv(a["body"], env2, cx)))
        if len(vals) == 1:
            return vals[0]
        return "match{" + "|".join(vals) + "}"
    if k == "if":
        c = e["cond"]
        env2 = dict(env)
        if c.get("k") == "let_cond":
            bind(c["pat"], symv(c["e"], env, cx), env2)
            cs = f"let {synq.pat_head(c['pat'])} = {sym(c['e'], env, cx)}"
        else:
            cs = sym(c, env, cx)
        t = vstr(symv(e["then"], env2, cx))
        el = vstr(symv(e["else"], env, cx)) if e.get("else") else "()"
        return f"if({cs}){{{t}|{el}}}"
    if k == "struct":
        return e["path"] + "{" + ", ".join(f"{f['name']}: {sym(f['e'], env, cx)}" for f in e["fields"]) + "}"
    if k == "closure":
        return "|..|"
    if k == "return":
        return "return " + sym(e.get("e"), env, cx)
    ren = {n: vstr(v) for n, v in env.items()}
    return synq.render(e, ren)


def sym(e, env, cx):
    return vstr(symv(e, env, cx))


def bind_let(s, env, cx):
    init = s.get("init")
    pat = s["pat"]
    if init is None:
        bind(pat, "?", env)
        return
    val = symv(init, env, cx)
    if pat.get("k") == "p_ident" and pat.get("mut"):
        val = cx.var(vstr(val))
    bind(pat, val, env)


def fn_env(fn, roles):
    """Initial environment from the declared parameter types: roles maps a declared type to a role (or a list of
    roles handed out in order)."""
    env = {}
    used = {}
    for p in fn.node["sig"]["params"]:
        if p.get("self") or p["pat"].get("k") != "p_ident":
            continue
        ty = re.sub(r"\s+", "", p["ty"])
        r = roles.get(ty)
        if isinstance(r, list):
            i = used.get(ty, 0)
            used[ty] = i + 1
            r = r[i] if i < len(r) else None
        if r is None:
            r = "$" + ty
        env[p["pat"]["name"]] = r
    return env


# ---------------------------------------------------------------------------- event walker
class Ev:
    def __init__(self, kind, node, ctx, **kw):
        self.kind, self.node, self.ctx = kind, node, ctx
        self.pos = tuple(node.get("sp", [0, 0])[:2])   # source order; prefixed by the call site for inlined helpers
        self.inlined = False
        self.__dict__.update(kw)

    def under(self, pred):
        return any(pred(c) for c in self.ctx)


def strip_transparent(e):
    while isinstance(e, dict):
        if e.get("k") in ("ref", "paren", "try", "group") or (e.get("k") == "unary" and e["op"] == "*"):
            e = e["e"]
        elif e.get("k") == "mcall" and e["method"] in TRANSPARENT and not e["args"]:
            e = e["recv"]
        else:
            break
    return e


def events(node, env, cx, choose=None, inline=None):
    """Walk statements/expressions in source order with scoping; report assignments, compound assignments, calls,
    returns, continue/break with operands resolved through let/pattern bindings and the enclosing conditions."""
    out = []
    inline = inline or {}     # INLINE VIEW: private same-impl helpers (name -> FnInfo) whose bodies are walked at the call
    site = []                 # stack of (call-site position, helper name)

    def emit(ev):
        if site:
            ev.pos = site[0][0] + tuple(p for s_ in site[1:] for p in s_[0]) + ev.pos
            ev.inlined = True
        out.append(ev)
    choose = choose or {}

    def pmatch1(p, v):
        k = p.get("k")
        if k in ("p_wild", "p_rest"):
            return True
        if k == "p_ident":
            if p.get("sub"):
                return pmatch1(p["sub"], v)
            return True if not p["name"][:1].isupper() else p["name"] == v
        if k in ("p_path", "p_tuple_struct", "p_struct"):
            return short(p["path"]) == v
        if k == "p_or":
            return any(pmatch1(c, v) for c in p["cases"])
        if k == "p_ref":
            return pmatch1(p["pat"], v)
        raise AnchorMissing(f"pattern kind {k} not understood")

    def w(e, env, ctx):
        if isinstance(e, list):
            for x in e:
                w(x, env, ctx)
            return
        if not is_expr(e):
            return
        k = e.get("k")
        if k == "block":
            env2 = dict(env)
            for s in e["stmts"]:
                sk = s.get("k")
                if sk == "let":
                    if s.get("init") is not None:
                        w(s["init"], env2, ctx)
                    for key in ("else", "diverge"):
                        if isinstance(s.get(key), dict):
                            w(s[key], env2, ctx)
                    bind_let(s, env2, cx)
                elif sk == "expr_stmt":
                    w(s["e"], env2, ctx)
            return
        if k == "if":
            c = e["cond"]
            env2 = dict(env)
            conds = []

            def flat(c_):
                if c_.get("k") == "binary" and c_["op"] == "&&":
                    flat(c_["l"])
                    flat(c_["r"])
                else:
                    conds.append(c_)
            flat(c)
            if len(conds) == 1 and conds[0].get("k") != "let_cond" and sym(conds[0], env, cx) in ("true", "false"):
                # a literal condition (a helper's bool parameter resolved at the call site): only one branch exists
                if sym(conds[0], env, cx) == "true":
                    w(e["then"], env2, ctx)
                elif e.get("else"):
                    w(e["else"], env, ctx)
                return
            tctx = ctx
            for c_ in conds:
                if c_.get("k") == "let_cond":
                    w(c_["e"], env2, ctx)
                    sc = symv(c_["e"], env2, cx)
                    tctx = tctx + (("iflet", synq.pat_head(c_["pat"]), vstr(sc), True),)
                    bind(c_["pat"], sc, env2)
                else:
                    w(c_, env2, ctx)
                    tctx = tctx + (("if", sym(c_, env2, cx), "", True),)
            w(e["then"], env2, tctx)
            if e.get("else"):
                if len(conds) == 1 and conds[0].get("k") != "let_cond":
                    ectx = ctx + (("if", sym(conds[0], env, cx), "", False),)
                else:
                    ectx = ctx + (("else", "", "", False),)
                w(e["else"], env, ectx)
            return
        if k == "match":
            w(e["scrut"], env, ctx)
            sc = symv(e["scrut"], env, cx)
            scs = vstr(sc)
            arms = e["arms"]
            if scs in choose:
                arms = [a for a in arms if pmatch1(a["pat"], choose[scs])][:1]
            for a in arms:
                env2 = dict(env)
                if scs in choose:
                    alt = next((p for p in synq.pat_alts(a["pat"]) if pmatch1(p, choose[scs])), a["pat"])
                    bind(alt, sc, env2)
                else:
                    bind(a["pat"], sc, env2)
                actx = ctx + (("arm", tuple(synq.pat_head(p) for p in synq.pat_alts(a["pat"])), scs, True),)
                if a.get("guard"):
                    w(a["guard"], env2, actx)
                w(a["body"], env2, actx)
            return
        if k == "for":
            w(e["iter"], env, ctx)
            env2 = dict(env)
            bind(e["pat"], itelem(e["iter"], env, cx), env2)
            w(e["body"], env2, ctx + (("for", sym(strip_transparent(e["iter"]), env, cx), "", True),))
            return
        if k in ("while", "loop"):
            if e.get("cond"):
                w(e["cond"], env, ctx)
            w(e["body"], env, ctx + (("loop", "", "", True),))
            return
        if k == "closure":
            env2 = dict(env)
            for p in e["params"]:
                bind(p, "?closure-arg", env2)
            w(e["body"], env2, ctx + (("closure", "", "", True),))
            return
        if k == "assign":
            w(e["r"], env, ctx)
            emit(Ev("assign", e, ctx, lhs=sym(e["l"], env, cx), rhs=sym(e["r"], env, cx), rhs_node=e["r"]))
            # an assignment to a plain local rebinds it for the rest of the scope only when it was a plain binding
            return
        if k == "binary" and e["op"].endswith("=") and e["op"] not in ("==", "!=", "<=", ">="):
            w(e["r"], env, ctx)
            emit(Ev("opassign", e, ctx, op=e["op"], lhs=sym(e["l"], env, cx), rhs=sym(e["r"], env, cx),
                          rhs_node=e["r"]))
            return
        if k == "mcall":
            w(e["recv"], env, ctx)
            cl = [a for a in e["args"] if a.get("k") == "closure"]
            if cl and e["method"] in ("all", "any", "map", "for_each", "filter", "find", "position", "filter_map",
                                      "flat_map") and len(cl[0]["params"]) == 1:
                env2 = dict(env)
                bind(cl[0]["params"][0], itelem(e["recv"], env, cx), env2)
                w(cl[0]["body"], env2, ctx + (("closure", e["method"], "", True),))
            else:
                w(e["args"], env, ctx)
            emit(Ev("call", e, ctx, name=e["method"], recv=sym(e["recv"], env, cx),
                          args=[sym(a, env, cx) for a in e["args"]]))
            h = inline.get(e["method"])
            if h is not None and sym(e["recv"], env, cx) == "self" and len(site) < 3 and \
                    all(nm != e["method"] for _, nm in site):
                params = [p_ for p_ in h.node["sig"]["params"] if not p_.get("self")]
                if len(params) == len(e["args"]):
                    henv = {}
                    for p_, a_ in zip(params, e["args"]):
                        bind(p_["pat"], symv(a_, env, cx), henv)
                    site.append((tuple(e.get("sp", [0, 0])[:2]), e["method"]))
                    try:
                        w(h.body, henv, ctx)
                    finally:
                        site.pop()
            return
        if k == "call":
            w(e["args"], env, ctx)
            emit(Ev("call", e, ctx, name=short(sym(e["func"], env, cx)), recv=None,
                          args=[sym(a, env, cx) for a in e["args"]]))
            return
        if k == "return":
            if e.get("e"):
                w(e["e"], env, ctx)
            emit(Ev("return", e, ctx, val=sym(e.get("e"), env, cx) if e.get("e") else ""))
            return
        if k in ("continue", "break"):
            emit(Ev(k, e, ctx))
            return
        if k == "macro":
            emit(Ev("macro", e, ctx, name=short(e["name"])))
            if e.get("args"):
                w(e["args"], env, ctx)
            return
        for key, v in e.items():
            if key in ("sp", "msp", "pat", "params"):
                continue
            if isinstance(v, dict) and is_expr(v):
                w(v, env, ctx)
            elif isinstance(v, list):
                for x in v:
                    if isinstance(x, dict):
                        if "e" in x and "name" in x and "k" not in x:   # struct literal field
                            w(x["e"], env, ctx)
                        elif is_expr(x):
                            w(x, env, ctx)
    w(node, env, ())
    return out


def order_key(n):
    return tuple(n.get("sp", [0, 0])[:2])


# ============================================================================ pair tables (first-match evaluation)
def pmatch(p, v):
    """Does pattern p match a value whose variant is named v?"""
    k = p.get("k")
    if k in ("p_wild", "p_rest"):
        return True
    if k == "p_ident":
        if p.get("sub"):
            return pmatch(p["sub"], v)
        return True if not p["name"][:1].isupper() else p["name"] == v
    if k in ("p_path", "p_tuple_struct", "p_struct"):
        return short(p["path"]) == v
    if k == "p_or":
        return any(pmatch(c, v) for c in p["cases"])
    if k == "p_ref":
        return pmatch(p["pat"], v)
    raise AnchorMissing(f"pattern kind {k} is not understood in an equality table")


def first_arm(m, va, vb):
    """First arm (and matching alternative) of `match (x, y)` for the variant pair (va, vb)."""
    for arm in m["arms"]:
        for alt in synq.pat_alts(arm["pat"]):
            k = alt.get("k")
            if k == "p_tuple" and len(alt["elems"]) == 2:
                hit = pmatch(alt["elems"][0], va) and pmatch(alt["elems"][1], vb)
            elif k == "p_wild" or (k == "p_ident" and not alt["name"][:1].isupper()):
                hit = True
            else:
                raise AnchorMissing(f"arm pattern `{synq.pat_head(alt)}` of a pair table is not a 2-tuple")
            if hit:
                if arm.get("guard"):
                    raise AnchorMissing(f"guarded arm `{synq.pat_head(alt)}` in an equality table")
                return arm, alt
    return None, None


def mirror(s1, s2):
    """If s1 and s2 are the same access path on the two sides, the path with the side replaced by '@'."""
    for x, y, X, Y in ((s1, s2, A, B), (s2, s1, A, B)):
        if X in x and Y not in x and x.replace(X, Y) == y:
            return x.replace(X, "@")
    return None


class Conj:
    """Conjunct set of a boolean arm body in canonical form."""

    def __init__(self, cx):
        self.cx = cx
        self.nested = []

    def call(self, e, env):
        args = [sym(a, env, self.cx) for a in e["args"]]
        args = [a for a in args if a != "$resolve"]
        if len(args) == 2:
            mm = mirror(args[0], args[1])
            if mm is not None:
                return f"{e['method']}({mm})"
        return f"{e['method']}({', '.join(args)})"

    def of(self, e, env, defs=None):
        """defs: let-bound locals of the arm body -> (initialiser, environment at the let), so that a conjunct may be
        named before it is used (`let x = <cond>; y && x`)"""
        cx = self.cx
        defs = defs or {}
        k = e.get("k")
        if k in ("paren", "group"):
            return self.of(e["e"], env, defs)
        if k == "path" and e["path"] in defs:
            init, ienv, idefs = defs[e["path"]]
            return self.of(init, ienv, idefs)
        if k == "block":
            env2 = dict(env)
            defs2 = dict(defs)
            tail = None
            res = set()
            for s in e["stmts"]:
                if s.get("k") == "let":
                    if s["pat"].get("k") == "p_ident" and not s["pat"].get("mut") and s.get("init") is not None:
                        defs2[s["pat"]["name"]] = (s["init"], dict(env2), dict(defs2))
                    else:
                        for b in synq.walk(s["pat"]):
                            if b.get("k") == "p_ident":
                                defs2.pop(b["name"], None)
                    bind_let(s, env2, cx)
                elif s.get("k") == "expr_stmt":
                    if not s.get("semi"):
                        tail = s["e"]
                    elif s["e"].get("k") == "macro" and short(s["e"]["name"]) in LOG_MACROS:
                        continue
                    elif s["e"].get("k") == "return":
                        tail = s["e"]["e"]
                    else:
                        res.add("?stmt " + sym(s["e"], env2, cx))
                elif s.get("k") == "item_stmt":
                    continue
            if tail is None:
                return res | {"?no value"}
            return res | self.of(tail, env2, defs2)
        if k == "return" and e.get("e"):
            return self.of(e["e"], env, defs)
        if k == "binary" and e["op"] == "&&":
            return self.of(e["l"], env, defs) | self.of(e["r"], env, defs)
        if k == "bool":
            return {"true" if e["v"] else "false"}
        if k == "macro" and short(e["name"]) in DIVERGE_MACROS:
            return {"unreachable"}
        if k == "binary" and e["op"] == "==":
            mm = mirror(sym(e["l"], env, cx), sym(e["r"], env, cx))
            if mm is not None:
                return {f"eq({mm})"}
            return {"?" + sym(e, env, cx)}
        if k == "mcall" and e["method"] == "all" and len(e["args"]) == 1 and e["args"][0].get("k") == "closure" \
                and len(e["args"][0]["params"]) == 1:
            cl = e["args"][0]
            env2 = dict(env)
            bind(cl["params"][0], itelem(e["recv"], env, cx), env2)
            defs2 = dict(defs)
            for b in synq.walk(cl["params"][0]):
                if b.get("k") == "p_ident":
                    defs2.pop(b["name"], None)
            return self.of(cl["body"], env2, defs2)
        if k == "mcall" and sym(e["recv"], env, cx) == "self":
            return {self.call(e, env)}
        if k == "match":
            self.nested.append((e, dict(env)))
            return {f"match#{len(self.nested) - 1}"}
        return {"?" + sym(e, env, cx)}

    def norm(self, s):
        s = set(s)
        if "false" in s:
            return {"false"}
        s.discard("true")
        return s


def eval_pair(m, env, cx, scrut, va, vb):
    """Canonical conjunct set of the first arm of pair table m matching (va, vb); (set, Conj, arm)."""
    arm, alt = first_arm(m, va, vb)
    if arm is None:
        return {"NOARM"}, None, None
    env2 = dict(env)
    if alt.get("k") == "p_tuple":
        for el, sc_, v in ((alt["elems"][0], scrut[0], va), (alt["elems"][1], scrut[1], vb)):
            el = next((c for c in synq.pat_alts(el) if pmatch(c, v)), el)   # the alternative that matches this variant
            bind(el, sc_, env2)
    cj = Conj(cx)
    return cj.norm(cj.of(arm["body"], env2)), cj, arm


def pair_scrutinee(fn, m, env, cx):
    """symbolic (left, right) of the scrutinee of pair table m, resolving the lets before it"""
    env2 = dict(env)
    for s in fn.body["stmts"]:
        if s.get("k") == "let" and order_key(s) < order_key(m):
            bind_let(s, env2, cx)
    sc = symv(m["scrut"], env2, cx)
    if not (isinstance(sc, tuple) and len(sc) == 2):
        raise AnchorMissing(f"{fn.name}: table scrutinee is not a pair")
    return (vstr(sc[0]), vstr(sc[1])), env2


def pretty(s, prefix):
    return s.replace(prefix, "")


def find_pair_match(fn):
    c = [m for m in synq.matches_in(fn.body) if m["scrut"].get("k") == "tuple" and len(m["scrut"]["elems"]) == 2]
    c = [m for m in c if not any(m is n for o in c if o is not m for n in synq.walk(o))]  # outermost only
    if len(c) != 1:
        raise AnchorMissing(f"{fn.name}: {len(c)} top-level `match (x, y)` tables")
    return c[0]


# ============================================================================ the rules
def run(rep, tier):
    rep.describe(
        "other",
        "Structural clauses of C28 decided on the syntax tree of crates/core/src/types.rs, with wit-parser's "
        "TypeDefKind / Type / Handle / Record / Field / ... definitions (read from the cargo registry) as the oracle "
        "for `every kind and every component is handled`. R28.1: the four equality tables are evaluated first-match "
        "on every (variant, variant) pair; same-kind arms must compare exactly the structural components, mixed kinds "
        "are false, typedef layers are peeled with the other side's id. R28.2: the content-flag table sets exactly "
        "the documented flags per kind, ORs in the info of every component type, never overwrites accumulated info, "
        "and `|=` ORs every TypeInfo field. R28.3: usage flags: import params borrowed, export params and all "
        "results owned, error case -> error (result and error both resolved through typedef chains); "
        "collect_equal_types unions only under is_structurally_equal over all earlier live types, merges class info "
        "with `|=` and writes it back; UnionFind::union links roots; analyze passes import=true for imports, false "
        "for exports, for every world. R28.4: the back ends run analyze before collect_equal_types and the Rust "
        "alias path targets the class representative. NOT decided: termination/topological-order argument of the "
        "recursion, wit-parser's LiveTypes, the language-specific `may_alias_another_type` predicate, derived "
        "PartialEq of wit-parser types, run-time behaviour on a concrete world.",
        trusted_base=["syn parse of types.rs / interface.rs", "wit-parser lib.rs type definitions (oracle, read on every run)",
                      "wit-parser LiveTypes (topological order, transitive closure)"],
    )
    rep.rule("R28.1", "is_structurally_equal / types_equal / type_id_equal_to_type / optional_types_equal pair every "
                      "kind with itself only and compare exactly its structural components")
    rep.rule("R28.2", "type_id_info / type_info set exactly the documented content flags and OR in every component")
    rep.rule("R28.3", "type_info_func usage flags; collect_equal_types merges by union; analyze import/export polarity")
    rep.rule("R28.4", "users: analyze before collect_equal_types; Rust alias path targets the representative")
    rep.saw(file=T)
    orc = rep.guard("R28.0", "oracle", Oracle)
    if orc is None:
        return
    rep.guard("R28.1", "is_structurally_equal", lambda: r1_structural(rep, orc))
    rep.guard("R28.1", "types_equal", lambda: r1_types_equal(rep, orc))
    rep.guard("R28.1", "type_id_equal_to_type", lambda: r1_id_vs_type(rep, orc))
    rep.guard("R28.1", "optional_types_equal", lambda: r1_optional(rep))
    rep.guard("R28.2", "type_id_info", lambda: r2_type_id_info(rep, orc))
    rep.guard("R28.2", "type_info", lambda: r2_type_info(rep, orc))
    rep.guard("R28.2", "bitor_assign", lambda: r2_bitor(rep))
    rep.guard("R28.3", "type_info_func", lambda: r3_func(rep))
    rep.guard("R28.3", "collect_equal_types", lambda: r3_collect(rep))
    rep.guard("R28.3", "union-find", lambda: r3_unionfind(rep))
    rep.guard("R28.3", "analyze", lambda: r3_analyze(rep))
    rep.guard("R28.4", "users", lambda: r4_users(rep))


ANCHORS = {"analyze", "collect_equal_types", "type_info_func", "get", "type_id_info", "type_info", "optional_type_info",
           "is_structurally_equal", "types_equal", "type_id_equal_to_type", "optional_types_equal",
           "get_representative_type"}


def private_helpers(rep, rel=T, self_ty="Types"):
    """private methods of the impl that are not themselves analysed anchors: candidates for the inline view"""
    out = {}
    for f in synq.all_fns(rel):
        if f.body is not None and f.self_ty == self_ty and f.trait is None and not f.node.get("vis") and f.name not in ANCHORS:
            if f.name in out:
                raise AnchorMissing(f"two private helpers named {f.name}")
            out[f.name] = f
            rep.saw(f"{rel}::{self_ty}::{f.name}")
    return out


def getfn(rep, name, self_ty="Types", rel=T):
    f = synq.find_fn(rel, name, self_ty=self_ty)
    rep.saw(f"{rel}::{self_ty}::{name}")
    return f


KIND = "$resolve.types[@].kind"


def kind_of(side):
    return KIND.replace("@", side)


# ---------------------------------------------------------------------------- R28.1
def r1_structural(rep, orc):
    R = "R28.1"
    fn = getfn(rep, "is_structurally_equal")
    cx = Ctx()
    env0 = fn_env(fn, {"&Resolve": "$resolve", "TypeId": [A, B]})
    m = find_pair_match(fn)
    scrut, env = pair_scrutinee(fn, m, env0, cx)
    loc = fn.loc(m)
    rep.ob(R, "is_structurally_equal: the table matches (kind of a, kind of b)",
           scrut == (kind_of(A), kind_of(B)), f"scrutinee is {scrut}", loc)
    kinds = orc.variants("TypeDefKind")
    rep.ob(R, "is_structurally_equal: oracle lists the 16 TypeDefKind variants the tables were read against",
           len(kinds) >= 16 and {"Type", "Unknown", "Resource", "Handle"} <= set(kinds), f"{kinds}", orc.path, nontrivial=False)
    plain = [k for k in kinds if k not in ("Type", "Unknown")]

    def ev(ka, kb):
        return eval_pair(m, env, cx, scrut, ka, kb)

    same_arms = 0
    for K in plain:
        got, cj, arm = ev(K, K)
        prefix = f"{KIND}<{K}>"
        payload = orc.payload("TypeDefKind", K)
        exp = set()
        handle = None
        if not payload:
            exp.add("eq(@)")        # no components: identity of the definition (resources are equal only to themselves)
        for i, ty in enumerate(payload):
            for leaf, path in orc.components(ty, f"{prefix}.{i}"):
                if leaf == "Type":
                    exp.add(f"types_equal({path})")
                elif leaf == "OptType":
                    exp.add(f"optional_types_equal({path})")
                elif leaf == "TypeId":
                    exp.add(f"is_structurally_equal({path})")
                elif leaf in ("scalar", "len"):
                    exp.add(f"eq({path})")
                elif leaf.startswith("enum:"):
                    handle = (leaf[5:], path)
                else:
                    raise AnchorMissing(leaf)
        if arm is not None:
            same_arms += 1
        if handle is None:
            shown = ", ".join(sorted(pretty(x, prefix) for x in exp))
            rep.ob(R, f"is_structurally_equal: ({K}, {K}) compares exactly {{{shown}}}", got == exp,
                   f"missing {sorted(pretty(x, prefix) for x in exp - got)}; unexpected "
                   f"{sorted(pretty(x, prefix) for x in got - exp)}", fn.loc(arm) if arm else loc)
        else:
            en, path = handle
            ok = len(got) == 1 and next(iter(got)).startswith("match#") and not exp
            rep.ob(R, f"is_structurally_equal: ({K}, {K}) is decided by a nested table on the two {en} values only", ok,
                   f"conjuncts {sorted(pretty(x, prefix) for x in got)}", fn.loc(arm) if arm else loc)
            if ok:
                nm, nenv = cj.nested[int(next(iter(got))[6:])]
                nsc = symv(nm["scrut"], nenv, cx)
                want = (path.replace("@", A), path.replace("@", B))
                good = isinstance(nsc, tuple) and len(nsc) == 2 and (vstr(nsc[0]), vstr(nsc[1])) == want
                rep.ob(R, f"is_structurally_equal: ({K}, {K}) nested table matches ({en} of a, {en} of b)", good,
                       f"scrutinee {vstr(nsc)}", fn.loc(nm))
                if good:
                    for va in orc.variants(en):
                        for vb in orc.variants(en):
                            g2, _, a2 = eval_pair(nm, nenv, cx, want, va, vb)
                            if va == vb:
                                e2 = set()
                                for i, ty in enumerate(orc.payload(en, va)):
                                    for leaf, p2 in orc.components(ty, f"{path}<{va}>.{i}"):
                                        e2.add({"TypeId": "is_structurally_equal", "Type": "types_equal",
                                                "OptType": "optional_types_equal"}.get(leaf, "eq") + f"({p2})")
                                shown = ", ".join(sorted(pretty(x, path) for x in e2))
                                rep.ob(R, f"is_structurally_equal: ({K}::{va}, {K}::{vb}) compares exactly {{{shown}}}",
                                       g2 == e2, f"got {sorted(pretty(x, path) for x in g2)}", fn.loc(a2) if a2 else loc)
                            else:
                                rep.ob(R, f"is_structurally_equal: ({K}::{va}, {K}::{vb}) is never equal", g2 == {"false"},
                                       f"got {sorted(pretty(x, path) for x in g2)}", fn.loc(a2) if a2 else loc)
        bad = []
        for K2 in plain:
            if K2 != K:
                g, _, _ = ev(K, K2)
                if g != {"false"}:
                    bad.append(f"({K}, {K2}) -> {sorted(g)}")
        rep.ob(R, f"is_structurally_equal: ({K}, any other kind) is never equal", not bad, "; ".join(bad)[:400], loc)
    rep.floor(R, "same-kind arms of is_structurally_equal", same_arms, 14)
    # typedef layers
    bad = []
    for K2 in kinds:
        g, _, _ = ev("Type", K2)
        want = {f"type_id_equal_to_type({B}, {kind_of(A)}<Type>.0)"}
        if g != want:
            bad.append(f"(Type, {K2}) -> {sorted(g)}")
    rep.ob(R, "is_structurally_equal: (Type(t), anything) peels the typedef: b's id is compared with t", not bad,
           "; ".join(bad)[:400], loc)
    bad = []
    for K1 in kinds:
        if K1 == "Type":
            continue
        g, _, _ = ev(K1, "Type")
        want = {f"type_id_equal_to_type({A}, {kind_of(B)}<Type>.0)"}
        if g != want:
            bad.append(f"({K1}, Type) -> {sorted(g)}")
    rep.ob(R, "is_structurally_equal: (anything, Type(t)) peels the typedef: a's id is compared with t", not bad,
           "; ".join(bad)[:400], loc)
    bad = []
    for K1 in plain:
        g, _, _ = ev(K1, "Unknown")
        if g not in ({"false"}, {"unreachable"}):
            bad.append(f"({K1}, Unknown) -> {sorted(g)}")
    g, _, _ = ev("Unknown", "Unknown")
    if g not in ({"false"}, {"unreachable"}):
        bad.append(f"(Unknown, Unknown) -> {sorted(g)}")
    rep.ob(R, "is_structurally_equal: Unknown is unreachable or unequal", not bad, "; ".join(bad)[:300], loc, nontrivial=False)
    # anything that decides the result before the table must be the `same class already` shortcut
    evs = events(fn.body, env0, cx)
    pre = [e for e in evs if e.kind == "return" and not any(n is e.node for n in synq.walk(m))]
    bad = []
    for e in pre:
        conds = [c for c in e.ctx if c[0] in ("if", "iflet", "arm", "else")]
        okc = len(conds) == 1 and conds[0][0] == "if" and conds[0][3] is True and \
            conds[0][1] in (f"(self.equal_types.find({A}) == self.equal_types.find({B}))",
                            f"(self.equal_types.find({B}) == self.equal_types.find({A}))", f"({A} == {B})", f"({B} == {A})")
        if not (okc and e.val == "true"):
            bad.append(f"return {e.val} under {[c[1] for c in conds]}")
    rep.ob(R, "is_structurally_equal: the only shortcut before the table is `already in the same class => true`", not bad,
           "; ".join(bad)[:300], fn.loc())


def r1_types_equal(rep, orc):
    R = "R28.1"
    fn = getfn(rep, "types_equal")
    cx = Ctx()
    env0 = fn_env(fn, {"&Resolve": "$resolve", "&Type": [A, B]})
    m = find_pair_match(fn)
    scrut, env = pair_scrutinee(fn, m, env0, cx)
    loc = fn.loc(m)
    rep.ob(R, "types_equal: the table matches (a, b)", scrut == (A, B), f"scrutinee is {scrut}", loc)
    tys = orc.variants("Type")
    prims = [t for t in tys if t != "Id"]
    rep.ob(R, "types_equal: oracle lists Type::Id and the primitive types", "Id" in tys and len(prims) >= 14, f"{tys}",
           orc.path, nontrivial=False)
    bad = []
    for t in tys:
        g, _, _ = eval_pair(m, env, cx, scrut, "Id", t)
        if g != {f"type_id_equal_to_type({A}<Id>.0, {B})"}:
            bad.append(f"(Id, {t}) -> {sorted(g)}")
    rep.ob(R, "types_equal: (Id(a), b) compares a's definition with b", not bad, "; ".join(bad)[:400], loc)
    bad = []
    for t in prims:
        g, _, _ = eval_pair(m, env, cx, scrut, t, "Id")
        if g != {f"type_id_equal_to_type({B}<Id>.0, {A})"}:
            bad.append(f"({t}, Id) -> {sorted(g)}")
    rep.ob(R, "types_equal: (primitive a, Id(b)) compares b's definition with a (typedefs of primitives are peeled)",
           not bad, "; ".join(bad)[:400], loc)
    bad = []
    for t in prims:
        for u in prims:
            g, _, _ = eval_pair(m, env, cx, scrut, t, u)
            if g != {"eq(@)"}:
                bad.append(f"({t}, {u}) -> {sorted(g)}")
    rep.ob(R, "types_equal: two primitives are equal iff a == b", not bad, "; ".join(bad[:6]), loc)
    der = " ".join(orc.attrs.get("Type", []))
    rep.ob(R, "types_equal: wit-parser's Type derives PartialEq (a == b is variant equality)", "PartialEq" in der, der,
           orc.path, nontrivial=False)


def r1_id_vs_type(rep, orc):
    R = "R28.1"
    fn = getfn(rep, "type_id_equal_to_type")
    cx = Ctx()
    env0 = fn_env(fn, {"&Resolve": "$resolve", "TypeId": [A], "&Type": [B]})
    m = find_pair_match(fn)
    scrut, env = pair_scrutinee(fn, m, env0, cx)
    loc = fn.loc(m)
    rep.ob(R, "type_id_equal_to_type: the table matches (kind of a, b)", scrut == (kind_of(A), B), f"scrutinee is {scrut}", loc)
    kinds = orc.variants("TypeDefKind")
    tys = orc.variants("Type")
    bad = []
    for t in tys:
        g, _, _ = eval_pair(m, env, cx, scrut, "Type", t)
        if g != {f"types_equal({kind_of(A)}<Type>.0, {B})"}:
            bad.append(f"(Type, {t}) -> {sorted(g)}")
    rep.ob(R, "type_id_equal_to_type: a typedef a = t is peeled: t is compared with b", not bad, "; ".join(bad)[:400], loc)
    bad = []
    for K in kinds:
        if K in ("Type", "Unknown"):
            continue
        g, _, _ = eval_pair(m, env, cx, scrut, K, "Id")
        if g != {f"is_structurally_equal({A}, {B}<Id>.0)"}:
            bad.append(f"({K}, Id) -> {sorted(g)}")
    rep.ob(R, "type_id_equal_to_type: a definition vs Id(b) compares the two definitions structurally", not bad,
           "; ".join(bad)[:400], loc)
    bad = []
    for K in kinds:
        if K in ("Type", "Unknown"):
            continue
        for t in tys:
            if t == "Id":
                continue
            g, _, _ = eval_pair(m, env, cx, scrut, K, t)
            if g != {"false"}:
                bad.append(f"({K}, {t}) -> {sorted(g)}")
    rep.ob(R, "type_id_equal_to_type: a non-typedef definition never equals a primitive", not bad, "; ".join(bad[:6]), loc)


def r1_optional(rep):
    R = "R28.1"
    fn = getfn(rep, "optional_types_equal")
    cx = Ctx()
    env0 = fn_env(fn, {"&Resolve": "$resolve", "&Option<Type>": [A, B], "Option<&Type>": [A, B]})
    m = find_pair_match(fn)
    scrut, env = pair_scrutinee(fn, m, env0, cx)
    loc = fn.loc(m)
    rep.ob(R, "optional_types_equal: the table matches (a, b)", scrut == (A, B), f"scrutinee is {scrut}", loc)
    want = {("Some", "Some"): {"types_equal(@<Some>.0)"}, ("Some", "None"): {"false"}, ("None", "Some"): {"false"},
            ("None", "None"): set()}
    for (x, y), wv in want.items():
        g, _, arm = eval_pair(m, env, cx, scrut, x, y)
        txt = "compares the payloads" if wv and wv != {"false"} else ("is unequal" if wv else "is equal")
        rep.ob(R, f"optional_types_equal: ({x}, {y}) {txt}", g == wv, f"got {sorted(g)}", fn.loc(arm) if arm else loc)


# ---------------------------------------------------------------------------- R28.2
def acc_writes(evs, acc):
    """ordered writes to the accumulator: (kind, payload, event)"""
    out = []
    for e in evs:
        if e.kind == "assign":
            if e.lhs == acc:
                out.append(("set", e.rhs, e))
            elif e.lhs.startswith(acc + "."):
                out.append(("flag" if e.rhs == "true" else "flagbad", e.lhs[len(acc) + 1:], e))
        elif e.kind == "opassign":
            if e.lhs == acc:
                out.append(("or" if e.op == "|=" else "opbad", e.rhs, e))
            elif e.lhs.startswith(acc + "."):
                out.append(("flagbad", e.lhs[len(acc) + 1:], e))
    return out


def info_calls(evs):
    return [e for e in evs if e.kind == "call" and e.recv == "self" and
            e.name in ("type_info", "optional_type_info", "type_id_info")]


def r2_type_id_info(rep, orc):
    R = "R28.2"
    fn = getfn(rep, "type_id_info")
    cx = Ctx()
    env0 = fn_env(fn, {"&Resolve": "$resolve", "TypeId": [A]})
    # the accumulator: the mutable local initialised with TypeInfo::default()
    env = dict(env0)
    acc = None
    tables = [m for m in synq.matches_in(fn.body)]
    table = None
    for s in fn.body["stmts"]:
        if s.get("k") == "let":
            bind_let(s, env, cx)
            if s["pat"].get("k") == "p_ident" and s["pat"].get("mut") and s.get("init") is not None and \
                    sym(s["init"], env0, Ctx()) == "TypeInfo::default()":
                acc = env[s["pat"]["name"]]
        elif s.get("k") == "expr_stmt" and s["e"].get("k") == "match" and table is None:
            if sym(s["e"]["scrut"], env, cx) == kind_of(A):
                table = s["e"]
    if acc is None:
        raise AnchorMissing("type_id_info: no `let mut info = TypeInfo::default()` accumulator")
    if table is None:
        raise AnchorMissing("type_id_info: no match on the kind of the type id parameter")
    loc = fn.loc(table)
    kscr = kind_of(A)
    kinds = orc.variants("TypeDefKind")
    arms_seen = 0
    for K in kinds:
        arm = next((a for a in table["arms"] if any(pmatch(p, K) for p in synq.pat_alts(a["pat"]))), None)
        if K == "Unknown":
            ok = arm is not None and is_diverging(arm["body"])
            rep.ob(R, "type_id_info: Unknown is unreachable", ok, "", fn.loc(arm) if arm else loc, nontrivial=False)
            continue
        if arm is None or arm.get("guard"):
            rep.ob(R, f"type_id_info: {K} has an unguarded arm", False, "no arm / guarded arm", loc)
            continue
        arms_seen += 1
        explicit = any(p.get("k") != "p_wild" and not (p.get("k") == "p_ident" and not p["name"][:1].isupper())
                       for p in synq.pat_alts(arm["pat"]) if pmatch(p, K))
        alt = next(p for p in synq.pat_alts(arm["pat"]) if pmatch(p, K))
        payload = orc.payload("TypeDefKind", K)
        sub_enum = [(i, ty) for i, ty in enumerate(payload) if ty in orc.enums and ty != "Type"]
        choices = [({}, "")]
        if sub_enum:
            i, ty = sub_enum[0]
            choices = [({f"{kscr}<{K}>.{i}": v}, f"({v})") for v in orc.variants(ty)]
        for choose, tag in choices:
            env2 = dict(env)
            bind(alt, kscr, env2)
            cxa = Ctx()
            cxa.var_count = dict(cx.var_count)
            evs = events(arm["body"], env2, cxa, choose)
            ws = acc_writes(evs, acc)
            flags = {p for kd, p, _ in ws if kd == "flag"}
            badw = [f"{kd} {p}" for kd, p, _ in ws if kd in ("flagbad", "opbad")]
            want = HANDLE_FLAGS[choose[next(iter(choose))]] if choose and K == "Handle" else KIND_FLAGS.get(K)
            if want is None:
                rep.ob(R, f"type_id_info: {K}{tag} has a documented flag set", False,
                       "kind unknown to the rule's flag table (new TypeDefKind?)", fn.loc(arm))
                continue
            rep.ob(R, f"type_id_info: {K}{tag} sets exactly {{{', '.join(sorted(want))}}}",
                   flags == want and not badw and explicit,
                   f"sets {sorted(flags)}" + (f"; bad writes {badw}" if badw else "") + ("" if explicit else "; via wildcard arm"),
                   fn.loc(arm))
            # component recursion
            exp_alts = []    # list of sets of acceptable canonical calls, one per component
            if K not in OPAQUE_CONTENT:
                for i, ty in enumerate(payload):
                    for leaf, path in orc.components(ty, f"{kscr}<{K}>.{i}"):
                        if leaf == "Type":
                            exp_alts.append({f"type_info({path})"})
                        elif leaf == "OptType":
                            exp_alts.append({f"optional_type_info({path})", f"type_info({path}<Some>.0)"})
                        elif leaf == "TypeId":
                            exp_alts.append({f"type_id_info({path})"})
            calls = info_calls(evs)
            canon = {}
            for c in calls:
                args = [a for a in c.args if a != "$resolve"]
                canon.setdefault(f"{c.name}({', '.join(args)})", []).append(c)
            merged_rhs = {e.rhs for kd, _, e in ws if kd in ("set", "or")}   # symbolic: a let-bound call result counts
            missing, unmerged = [], []
            for alts in exp_alts:
                hit = [c for a in alts for c in canon.get(a, [])]
                if not hit:
                    missing.append(sorted(pretty(a, f"{kscr}<{K}>") for a in alts)[0])
                elif not any(f"self.{c.name}({', '.join(c.args)})" in merged_rhs for c in hit):
                    unmerged.append(sorted(pretty(a, f"{kscr}<{K}>") for a in alts)[0])
                # a component that is an element of a collection must be visited for every element
            allowed = set().union(*exp_alts) if exp_alts else set()
            extra = [pretty(c_, f"{kscr}<{K}>") for c_ in canon if c_ not in allowed] if K not in OPAQUE_CONTENT else []
            shown = ", ".join(sorted(pretty(sorted(a)[0], f"{kscr}<{K}>") for a in exp_alts)) or "nothing"
            if K in OPAQUE_CONTENT:
                continue
            rep.ob(R, f"type_id_info: {K} ORs in the info of {{{shown}}}", not missing and not unmerged and not extra,
                   f"missing {missing}; result not merged {unmerged}; unexpected {extra}", fn.loc(arm))
            # overwriting
            bad = []
            first = True
            for kd, p, e in ws:
                if kd == "set":
                    inloop = e.under(lambda c: c[0] in ("for", "loop", "closure"))
                    if not first or inloop:
                        bad.append(pretty(p, f"{kscr}<{K}>"))
                first = False
            rep.ob(R, f"type_id_info: {K} never overwrites info it has already accumulated", not bad,
                   f"plain `=` after an earlier write / inside a loop: {bad}", fn.loc(arm))
    rep.floor(R, "kinds handled by type_id_info", arms_seen, 15)
    # the result is stored under the id and returned
    evs = events(fn.body, env0, Ctx())
    ins = [e for e in evs if e.kind == "call" and e.name == "insert" and e.recv == "self.type_info"]
    rep.ob(R, "type_id_info: the computed info is stored under the analysed id",
           len(ins) >= 1 and all(e.args == [A, acc] for e in ins), f"{[e.args for e in ins]}", fn.loc())
    rep.ob(R, "type_id_info: the info is stored only after the kind table has filled it in",
           len(ins) >= 1 and all(order_key(e.node) > order_key(table) and not any(n is e.node for n in synq.walk(table))
                                 for e in ins), "insert precedes / sits inside the table", fn.loc())
    tail = [s for s in fn.body["stmts"] if s.get("k") == "expr_stmt" and not s.get("semi")]
    rep.ob(R, "type_id_info: returns the computed info", bool(tail) and sym(tail[-1]["e"], env, cx) == acc,
           f"{sym(tail[-1]['e'], env, cx) if tail else None}", fn.loc())


def r2_type_info(rep, orc):
    R = "R28.2"
    fn = getfn(rep, "type_info")
    cx = Ctx()
    env0 = fn_env(fn, {"&Resolve": "$resolve", "&Type": [A]})
    env = dict(env0)
    acc, table = None, None
    for s in fn.body["stmts"]:
        if s.get("k") == "let":
            bind_let(s, env, cx)
            if s["pat"].get("k") == "p_ident" and s["pat"].get("mut") and s.get("init") is not None and \
                    sym(s["init"], env0, Ctx()) == "TypeInfo::default()":
                acc = env[s["pat"]["name"]]
        elif s.get("k") == "expr_stmt" and s["e"].get("k") == "match" and sym(s["e"]["scrut"], env, cx) == A:
            table = s["e"]
    if acc is None or table is None:
        raise AnchorMissing("type_info: accumulator / match on the type parameter not found")
    loc = fn.loc(table)
    quiet_bad = []
    nprim = 0
    for t in orc.variants("Type"):
        arm = next((a for a in table["arms"] if any(pmatch(p, t) for p in synq.pat_alts(a["pat"]))), None)
        if arm is None:
            rep.ob(R, f"type_info: Type::{t} handled", False, "no arm", loc)
            continue
        alt = next(p for p in synq.pat_alts(arm["pat"]) if pmatch(p, t))
        env2 = dict(env)
        bind(alt, A, env2)
        cxa = Ctx()
        cxa.var_count = dict(cx.var_count)
        evs = events(arm["body"], env2, cxa)
        ws = acc_writes(evs, acc)
        flags = {p for kd, p, _ in ws if kd == "flag"}
        other = [kd for kd, p, _ in ws if kd != "flag"]
        if t == "Id":
            rets = [e for e in evs if e.kind == "return"]
            val = rets[0].val if rets else sym(arm["body"], env2, cxa)
            rep.ob(R, "type_info: Type::Id(id) yields the info of the definition id",
                   val == f"self.type_id_info($resolve, {A}<Id>.0)", f"yields {val}", fn.loc(arm))
        elif t in PRIM_FLAGS:
            rep.ob(R, f"type_info: Type::{t} sets exactly {{{', '.join(sorted(PRIM_FLAGS[t]))}}}",
                   flags == PRIM_FLAGS[t] and not other, f"sets {sorted(flags)} {other}", fn.loc(arm))
        else:
            nprim += 1
            if flags or other or any(e.kind == "return" for e in evs):
                quiet_bad.append(f"{t}: {sorted(flags)} {other}")
    rep.ob(R, "type_info: scalar primitives carry no content flag", not quiet_bad, "; ".join(quiet_bad), loc)
    rep.floor(R, "scalar primitives of Type", nprim, 12)
    tail = [s for s in fn.body["stmts"] if s.get("k") == "expr_stmt" and not s.get("semi")]
    rep.ob(R, "type_info: returns the accumulated info for primitives", bool(tail) and sym(tail[-1]["e"], env, cx) == acc, "",
           fn.loc())
    # optional_type_info
    f2 = getfn(rep, "optional_type_info")
    cx2 = Ctx()
    e0 = fn_env(f2, {"&Resolve": "$resolve", "Option<&Type>": [A], "&Option<Type>": [A]})
    ms = [m for m in synq.matches_in(f2.body) if sym(m["scrut"], e0, cx2) == A]
    if len(ms) != 1:
        raise AnchorMissing("optional_type_info: match on the optional type not found")
    for v, want, txt in (("Some", f"self.type_info($resolve, {A}<Some>.0)", "yields the payload's info"),
                         ("None", "TypeInfo::default()", "yields no flags")):
        arm = next((a for a in ms[0]["arms"] if any(pmatch(p, v) for p in synq.pat_alts(a["pat"]))), None)
        env2 = dict(e0)
        if arm is not None:
            bind(next(p for p in synq.pat_alts(arm["pat"]) if pmatch(p, v)), A, env2)
        got = sym(arm["body"], env2, cx2) if arm is not None else None
        rep.ob(R, f"optional_type_info: {v} {txt}", got == want, f"yields {got}", f2.loc(arm) if arm else f2.loc())


def r2_bitor(rep):
    R = "R28.2"
    fields = None
    for it in synq.items_of(T, ("struct_def",)):
        if it["name"] == "TypeInfo":
            fields = [f["name"] for f in it["fields"]]
    if not fields:
        raise AnchorMissing("struct TypeInfo")
    fns = [f for f in synq.all_fns(T) if f.name == "bitor_assign" and f.self_ty == "TypeInfo" and f.body is not None]
    if len(fns) != 1:
        raise AnchorMissing(f"impl BitOrAssign for TypeInfo: {len(fns)} candidates")
    fn = fns[0]
    rep.saw(f"{T}::TypeInfo::bitor_assign")
    env = fn_env(fn, {"Self": ["$rhs"], "TypeInfo": ["$rhs"]})
    evs = events(fn.body, env, Ctx())
    ors = {(e.lhs, e.rhs) for e in evs if e.kind == "opassign" and e.op == "|="}
    other = [f"{e.lhs} {getattr(e, 'op', '=')} {e.rhs}" for e in evs if e.kind in ("assign", "opassign") and
             not (e.kind == "opassign" and e.op == "|=" and (e.lhs, e.rhs) in ors and e.lhs.startswith("self.") and
                  e.rhs == "$rhs." + e.lhs[5:])]
    rep.floor(R, "TypeInfo fields", len(fields), 8)
    attrs = " ".join(a for it in synq.items_of(T, ("struct_def",)) if it["name"] == "TypeInfo" for a in it.get("attrs", []))
    manual = [i for i in synq.load(T)["items"] if i.get("k") == "impl" and synq.base_name(i.get("trait") or "") == "Default"
              and synq.base_name(i["self_ty"]) == "TypeInfo"]
    rep.ob(R, "TypeInfo::default() has every flag cleared (derived Default over bool fields)",
           re.search(r"derive\s*\([^)]*\bDefault\b", attrs) is not None and not manual and
           all(f["ty"] == "bool" for it in synq.items_of(T, ("struct_def",)) if it["name"] == "TypeInfo" for f in it["fields"]),
           f"attrs: {attrs}; manual impls: {len(manual)}", T)
    for f in fields:
        rep.ob(R, f"TypeInfo |= : field {f} is OR-ed with the other side's {f}", (f"self.{f}", f"$rhs.{f}") in ors,
               "no `self.%s |= rhs.%s`" % (f, f), fn.loc())
    rep.ob(R, "TypeInfo |= : nothing but field-wise OR", not other, "; ".join(other), fn.loc())


# ---------------------------------------------------------------------------- R28.3
GETMUT = re.compile(r"^self\.type_info\.get_mut\((.*)\)\.unwrap\(\)\.(\w+)$")


def chasers(rel):
    """names of fns that follow `TypeDefKind::Type(Type::Id(x))` links (typedef chains) in a loop or recursively"""
    out = set()
    for f in synq.all_fns(rel):
        if f.body is None:
            continue
        for m in synq.matches_in(f.body):
            for a in m["arms"]:
                for p in synq.pat_alts(a["pat"]):
                    if p.get("k") == "p_tuple_struct" and short(p["path"]) == "Type" and p["path"].endswith("TypeDefKind::Type") \
                            and p["elems"] and p["elems"][0].get("k") == "p_tuple_struct" and short(p["elems"][0]["path"]) == "Id":
                        looped = any(n.get("k") in ("loop", "while") and any(x is m for x in synq.walk(n))
                                     for n in synq.walk(f.body))
                        rec = bool(synq.fn_calls(a["body"], f.name)) or bool(synq.method_calls(a["body"], f.name))
                        if (looped or rec) and (f.node["sig"].get("ret") or "").replace(" ", "") == "TypeId":
                            out.add(f.name)
    return out


def r3_func(rep):
    R = "R28.3"
    fn = getfn(rep, "type_info_func")
    cx = Ctx()
    env = fn_env(fn, {"&Resolve": "$resolve", "&Function": "$func", "bool": "$import"})
    evs = events(fn.body, env, cx, inline=private_helpers(rep))
    adds = [e for e in evs if e.kind == "call" and e.name == "add_type" and len(e.args) == 2 and e.args[0] == "$resolve"]
    LP = {e.recv for e in adds if e.args[1] == "$func.params[].ty"}
    LR = {e.recv for e in adds if e.args[1] == "$func.result<Some>.0"}
    rep.ob(R, "type_info_func: the types reachable from every parameter are collected", len(LP) == 1 and
           all(r.startswith("var#") and "LiveTypes::default()" in r for r in LP), f"{sorted(LP)}", fn.loc())
    rep.ob(R, "type_info_func: the types reachable from the result are collected in a separate set", len(LR) == 1 and
           not (LP & LR) and all(r.startswith("var#") and "LiveTypes::default()" in r for r in LR), f"{sorted(LR)}", fn.loc())
    stray = [f"{e.recv}.add_type({e.args[1]})" for e in adds if e.recv in (LP | LR) and
             not ((e.recv in LP and e.args[1] == "$func.params[].ty") or (e.recv in LR and e.args[1] == "$func.result<Some>.0"))]
    rep.ob(R, "type_info_func: parameter and result sets are not mixed", not stray, f"{stray}", fn.loc())
    ti = {e.args[1] for e in evs if e.kind == "call" and e.recv == "self" and e.name == "type_info" and len(e.args) == 2}
    rep.ob(R, "type_info_func: every parameter type and the result type are analysed before flags are written",
           {"$func.params[].ty", "$func.result<Some>.0"} <= ti, f"{sorted(ti)}", fn.loc())
    lp = next(iter(LP), "?") + "[]"
    lr = next(iter(LR), "?") + "[]"
    flagw = []
    for e in evs:
        if e.kind in ("assign", "opassign"):
            mm = GETMUT.match(e.lhs)
            if mm:
                flagw.append((mm.group(1), mm.group(2), e))
    rep.floor(R, "usage-flag writes in type_info_func", len(flagw), 4)

    def imp(e):
        return [c[3] for c in e.ctx if c[0] == "if" and c[1] == "$import"] + \
               [not c[3] for c in e.ctx if c[0] == "if" and c[1] == "!$import"]

    def any_import_cond(e):
        return any("$import" in str(c[1]) + str(c[2] if len(c) > 2 else "") for c in e.ctx)

    def is_true(e):
        return e.kind == "assign" and e.rhs == "true"
    b_ok = [w for w in flagw if w[1] == "borrowed" and w[0] == lp and imp(w[2]) == [True] and is_true(w[2])]
    o_exp = [w for w in flagw if w[1] == "owned" and w[0] == lp and imp(w[2]) == [False] and is_true(w[2])]
    o_res = [w for w in flagw if w[1] == "owned" and w[0] == lr and not any_import_cond(w[2]) and is_true(w[2])]
    rep.ob(R, "type_info_func: parameter types of an import are marked borrowed", bool(b_ok), "no such write", fn.loc())
    rep.ob(R, "type_info_func: parameter types of an export are marked owned", bool(o_exp), "no such write", fn.loc())
    rep.ob(R, "type_info_func: result types are marked owned for imports and exports alike", bool(o_res), "no such write",
           fn.loc())
    bad = [f"{k}.{f}" for k, f, e in flagw if f == "borrowed" and not any(e is w[2] for w in b_ok)]
    rep.ob(R, "type_info_func: borrowed is written only for import parameters", not bad, f"{bad}", fn.loc())
    bad = [f"{k}.{f}" for k, f, e in flagw if f == "owned" and not any(e is w[2] for w in o_exp + o_res)]
    rep.ob(R, "type_info_func: owned is written only for export parameters and results", not bad, f"{bad}", fn.loc())
    late = []
    for L, what in ((LP, "parameter"), (LR, "result")):
        for l in L:
            fill = [e.pos for e in adds if e.recv == l]
            reads = [e.pos for k_, f_, e in flagw if k_ == l + "[]"]
            if fill and reads and not max(fill) < min(reads):
                late.append(what)
    rep.ob(R, "type_info_func: a set of reachable types is complete before its members are flagged", not late, f"{late}", fn.loc())
    bad = [f"{k}.{f}" for k, f, e in flagw if f not in ("borrowed", "owned", "error")]
    rep.ob(R, "type_info_func: writes only usage flags (borrowed, owned, error)", not bad, f"{bad}", fn.loc())
    # error case
    ch = chasers(T)
    errw = [w for w in flagw if w[1] == "error"]
    res_id = "$func.result<Some>.0<Id>.0"
    pat = re.compile(r"^(?:(\w+)\(\$resolve, )?\$resolve\.types\[(.*)\]\.kind<Result>\.0\.err<Some>\.0<Id>\.0\)?$")
    good, chased_err, chased_res = [], [], []
    for k, f, e in errw:
        mm = pat.match(k)
        if mm and is_true(e) and not any_import_cond(e):
            inner = mm.group(2)
            m2 = re.match(r"^(\w+)\(\$resolve, (.*)\)$", inner)
            base = m2.group(2) if m2 else inner
            if base == res_id:
                good.append(e)
                if mm.group(1) in ch:
                    chased_err.append(e)
                if m2 and m2.group(1) in ch:
                    chased_res.append(e)
    rep.ob(R, "type_info_func: the error payload (`err`, not `ok`) of a result-returning function is marked error",
           bool(good) and len(good) == len(errw), f"error written for {[w[0] for w in errw]}", fn.loc())
    rep.ob(R, "type_info_func: the error type is resolved through typedef/use chains to its definition",
           bool(chased_err) and len(chased_err) == len(errw), f"typedef-chasing fns {sorted(ch)}; keys {[w[0] for w in errw]}",
           fn.loc())
    rep.ob(R, "type_info_func: the result type is resolved through typedef/use chains before it is matched against Result",
           bool(chased_res) and len(chased_res) == len(errw),
           f"the kind of the raw result id {res_id} is matched: a result type reached through `use`/`type x = y` "
           f"(kind Type) never marks its error payload; keys {[w[0] for w in errw]}", fn.loc())


def r3_collect(rep):
    R = "R28.3"
    fn = getfn(rep, "collect_equal_types")
    cx = Ctx()
    env = fn_env(fn, {"&Resolve": "$resolve", "WorldId": "$world", "&dynFn(TypeId)->bool": "$pred"})
    evs = events(fn.body, env, cx, inline=private_helpers(rep))
    addw = [e for e in evs if e.kind == "call" and e.name == "add_world" and e.args == ["$resolve", "$world"]]
    LT = addw[0].recv if addw else "?"
    rep.ob(R, "collect_equal_types: candidates are the live types of the given world", len(addw) == 1 and LT.startswith("var#"),
           f"{[e.recv for e in addw]}", fn.loc())
    # the candidates are walked in the live set's own order: either the iterator itself or a snapshot of it
    # (`live.iter().collect()`), the earlier ones being the prefix before the current index (`take(i)` / `[..i]`)
    outer, earlier = f"{LT}[]", f"{LT}.take(idx({LT}))[]"
    for base in (LT, f"{LT}.collect()"):
        for pre in (f"{base}.take(idx({base}))[]", f"{base}[..idx({base})][]", f"{base}[0..idx({base})][]"):
            if any(set(e.args) == {f"{base}[]", pre} for e in evs if e.kind == "call" and e.name == "union"):
                outer, earlier = f"{base}[]", pre
    unions = [e for e in evs if e.kind == "call" and e.name == "union" and e.recv == "self.equal_types"]
    rep.floor(R, "union sites in collect_equal_types", len(unions), 1)
    for e in unions:
        pair = tuple(e.args)
        conds = [c[1] for c in e.ctx if c[0] == "if" and c[3] is True]
        want = {f"self.is_structurally_equal($resolve, {pair[0]}, {pair[1]})",
                f"self.is_structurally_equal($resolve, {pair[1]}, {pair[0]})"} if len(pair) == 2 else set()
        rep.ob(R, "collect_equal_types: two types are unioned only when is_structurally_equal holds for exactly them",
               bool(want & set(conds)), f"union{pair} under {conds}", fn.loc(e.node))
        rep.ob(R, "collect_equal_types: every live type is compared with every earlier live type",
               set(pair) == {outer, earlier}, f"union{pair}; expected the loop element and an element of the earlier prefix",
               fn.loc(e.node))
    # nothing else skips a candidate
    skips = [e for e in evs if e.kind in ("continue", "break", "return") and
             (not e.inlined or any(u.inlined for u in unions))]   # a helper's own control flow
    bad = []                                                                                  # cannot skip a candidate
    same_class = {f"(self.equal_types.find({outer}) == self.equal_types.find({earlier}))",
                  f"(self.equal_types.find({earlier}) == self.equal_types.find({outer}))"}
    for e in skips:
        conds = [c for c in e.ctx if c[0] == "if"]
        inner = conds[-1] if conds else None
        ok = False
        if inner is not None and inner[3] is True:
            if e.kind == "continue" and (inner[1] == f"!$pred({outer})" or inner[1] in same_class):
                ok = True
            if e.kind == "break" and inner[1].startswith("self.is_structurally_equal("):
                ok = True
        if not ok:
            bad.append(f"{e.kind} under {inner[1] if inner else 'no condition'}")
    rep.ob(R, "collect_equal_types: a candidate pair is skipped only when the type cannot alias or both are already in one class",
           not bad, "; ".join(bad), fn.loc())
    # merge by union
    merges = [e for e in evs if e.kind in ("opassign", "assign") and ".entry(" in e.lhs]
    key = "self.equal_types.find(self.type_info[].0)"
    good = [e for e in merges if e.kind == "opassign" and e.op == "|=" and e.rhs == "self.type_info[].1" and
            re.match(r"^var#\d+\(HashMap::new\(\)\)\.entry\(%s\)\.or_default\(\)$" % re.escape(key), e.lhs)]
    rep.floor(R, "class-merge sites", len(merges), 1)
    rep.ob(R, "collect_equal_types: the info of every type is OR-ed (|=) into its class representative's entry",
           len(good) >= 1 and len(good) == len(merges),
           "; ".join(f"{e.lhs} {getattr(e, 'op', '=')} {e.rhs}" for e in merges), fn.loc(merges[0].node) if merges else fn.loc())
    M = merges[0].lhs.split(".entry(")[0].lstrip("*") if merges else "?"
    clobber = [e for e in evs if e.kind == "call" and e.recv == M and e.name in ("insert", "remove", "clear", "retain")]
    rep.ob(R, "collect_equal_types: merged class info is never overwritten or dropped", not clobber,
           f"{[e.name for e in clobber]}", fn.loc())
    wb = [e for e in evs if e.kind == "assign" and e.lhs == "self.type_info[].1"]
    wb_ok = [e for e in wb if e.rhs == f"{M}.get({key})<Some>.0"]
    rep.ob(R, "collect_equal_types: every type receives the merged info of its own class", len(wb_ok) >= 1 and len(wb_ok) == len(wb),
           "; ".join(f"{e.lhs} = {e.rhs}" for e in wb) or "no write-back", fn.loc(wb[0].node) if wb else fn.loc())
    if unions and good and wb_ok:
        o1 = max(e.pos for e in unions)
        o2 = max(e.pos for e in good)
        o3 = min(e.pos for e in wb_ok)
        nested = any(c[0] in ("for", "loop") and c[1] != "self.type_info" for e in good + wb_ok for c in e.ctx)
        rep.ob(R, "collect_equal_types: classes are complete before merging, merging is complete before the write-back",
               o1 < o2 < o3 and not nested, "order of union / merge / write-back loops", fn.loc())
    else:
        rep.ob(R, "collect_equal_types: classes are complete before merging, merging is complete before the write-back", False,
               "a phase is missing", fn.loc())
    # the equality relation is only ever extended here
    others = []
    for f in synq.all_fns(T):
        if f.body is None or f.name == "collect_equal_types" or f.self_ty == "UnionFind":
            continue
        if synq.method_calls(f.body, "union"):
            others.append(f.name)
    rep.ob(R, "Types: collect_equal_types is the only caller of UnionFind::union", not others, f"{others}", T)


def r3_unionfind(rep):
    R = "R28.3"
    fn = getfn(rep, "union", self_ty="UnionFind")
    cx = Ctx()
    env = fn_env(fn, {"TypeId": [A, B]})
    evs = events(fn.body, env, cx)
    ins = [e for e in evs if e.kind == "call" and e.name == "insert" and e.recv == "self.parent"]
    rep.floor(R, "parent links written by union", len(ins), 1)
    roots = {f"self.find({A})", f"self.find({B})"}
    bad = [e.args for e in ins if set(e.args) != roots]
    rep.ob(R, "UnionFind::union links the root of one class to the root of the other", bool(ins) and not bad, f"{bad}", fn.loc())
    f2 = getfn(rep, "find", self_ty="UnionFind")
    env2 = fn_env(f2, {"TypeId": [A]})
    ev2 = events(f2.body, env2, Ctx())
    parent = f"self.parent.get({A}).unwrap_or({A})"
    rec = [e for e in ev2 if e.kind == "call" and e.name == "find" and e.recv == "self"]
    rep.ob(R, "UnionFind::find follows the parent link of the id (or the id itself when it has none)",
           bool(rec) and all(e.args == [parent] for e in rec), f"{[e.args for e in rec]}", f2.loc())
    val = sym(f2.body, env2, Ctx())
    root = f"self.find({parent})"
    forms = {f"if(({x} != {y})){{{root}|{A}}}" for x, y in ((parent, A), (A, parent))} | \
            {f"if(({x} == {y})){{{A}|{root}}}" for x, y in ((parent, A), (A, parent))}
    rep.ob(R, "UnionFind::find yields the root of the parent chain, or the id itself when it is a root", val in forms,
           f"yields {val}", f2.loc())
    g1 = getfn(rep, "get_representative_type")
    v1 = sym(g1.body, fn_env(g1, {"TypeId": [A]}), Ctx())
    rep.ob(R, "Types::get_representative_type yields the class root of the id", v1 == f"self.equal_types.find({A})",
           f"yields {v1}", g1.loc())
    g2 = getfn(rep, "get")
    v2 = sym(g2.body, fn_env(g2, {"TypeId": [A]}), Ctx())
    rep.ob(R, "Types::get yields the stored info of the id", v2 == f"self.type_info[{A}]", f"yields {v2}", g2.loc())
    ins = [e for e in ev2 if e.kind == "call" and e.name == "insert" and e.recv == "self.parent"]
    bad = [e.args for e in ins if e.args != [A, f"self.find({parent})"]]
    rep.ob(R, "UnionFind::find compresses a path only to the root it found", not bad, f"{bad}", f2.loc(), nontrivial=bool(ins))


def r3_analyze(rep):
    R = "R28.3"
    fn = getfn(rep, "analyze")
    cx = Ctx()
    env = fn_env(fn, {"&Resolve": "$resolve"})
    evs = events(fn.body, env, cx)
    ids = [e for e in evs if e.kind == "call" and e.recv == "self" and e.name == "type_id_info"]
    rep.ob(R, "analyze: content facts are computed for every type of the resolve",
           any(e.args == ["$resolve", "$resolve.types[].0"] for e in ids), f"{[e.args for e in ids]}", fn.loc())
    calls = [e for e in evs if e.kind == "call" and e.recv == "self" and e.name == "type_info_func"]
    rep.floor(R, "type_info_func call sites in analyze", len(calls), 2)
    # polarity: the iterator pairs `true` with the world's imports and `false` with its exports
    evs_map = []
    for e in evs:
        if e.kind == "call" and e.name == "map" and e.node["args"] and e.node["args"][0].get("k") == "closure":
            body = e.node["args"][0]["body"]
            if body.get("k") == "tuple" and body["elems"] and body["elems"][0].get("k") == "bool":
                evs_map.append((body["elems"][0]["v"], e.recv))
    world = "$resolve.worlds[].1"
    want = {(True, f"{world}.imports"), (False, f"{world}.exports")}
    rep.ob(R, "analyze: imports are tagged import=true and exports import=false, for every world of the resolve",
           set(evs_map) == want, f"tagged iterators {sorted(evs_map)}", fn.loc())
    tag = "alt(true|false)"
    bad = [e.args for e in calls if len(e.args) != 3 or e.args[2] != tag or e.args[0] != "$resolve"]
    rep.ob(R, "analyze: every type_info_func call receives the item's own import/export tag", bool(calls) and not bad, f"{bad}",
           fn.loc())
    item = f"alt({world}.imports[]|{world}.exports[]).1"
    direct = [e for e in calls if len(e.args) == 3 and e.args[1] == f"{item}<Function>.0"]
    viaif = [e for e in calls if len(e.args) == 3 and re.match(r"^\$resolve\.interfaces\[.*\]\.functions\[\]\.1$", e.args[1])
             and item in e.args[1]]
    rep.ob(R, "analyze: a world-level function item is analysed", bool(direct), f"{[e.args[1] for e in calls]}", fn.loc())
    rep.ob(R, "analyze: every function of a world-level interface item is analysed", bool(viaif), f"{[e.args[1] for e in calls]}",
           fn.loc())
    # nothing is skipped: an interface that is both imported and exported (or mentioned by several worlds) must be
    # analysed once per mention, because each mention contributes its own direction.  So the walk has no early exit,
    # no `continue`/`break`, and the calls are not under any `if`.
    skips = [n for n in synq.walk(fn.body) if n.get("k") in ("continue", "break", "return")]
    conds = []
    def under_if(node, target, inside=False):
        if node is target:
            return inside
        if isinstance(node, dict):
            k = node.get("k")
            for key, v in node.items():
                if isinstance(v, (dict, list)):
                    r = under_if(v, target, inside or (k in ("if", "while") and key in ("then", "else", "body")) or
                                 (k == "match" and key == "arms" and False))
                    if r is not None:
                        return r
        elif isinstance(node, list):
            for v in node:
                r = under_if(v, target, inside)
                if r is not None:
                    return r
        return None
    guarded = [e for e in calls if under_if(fn.body, e.node)]
    arm_guards = [a for m_ in synq.matches_in(fn.body) for a in synq.arms(m_) if a.guard is not None]
    rep.ob(R, "analyze: no world item is skipped (no continue/break/early return, no conditional or guarded analysis)",
           not skips and not guarded and not arm_guards,
           f"{len(skips)} skip statement(s), {len(guarded)} conditional call(s), {len(arm_guards)} guarded arm(s): an interface "
           "mentioned twice (imported and exported) would keep only the facts of its first mention", fn.loc())


# ---------------------------------------------------------------------------- R28.4
def r4_users(rep):
    R = "R28.4"
    n = 0
    for be, rel in DRIVERS:
        for f in synq.all_fns(rel):
            if f.body is None:
                continue
            col = synq.method_calls(f.body, "collect_equal_types")
            if not col:
                continue
            rep.saw(f"{rel}::{f.name}")
            rep.saw(file=rel)
            for c in col:
                n += 1
                recv = synq.render(c["recv"])
                an = [a for a in synq.method_calls(f.body, "analyze") if synq.render(a["recv"]) == recv and
                      order_key(a) < order_key(c)]
                rep.ob(R, f"{be}: the usage/content analysis runs before equal types are collected (the merge sees all facts)",
                       bool(an), f"no `{recv}.analyze(..)` before `{recv}.collect_equal_types(..)` in {f.name}", f.loc(c))
    rep.floor(R, "collect_equal_types call sites in the back ends", n, 2)
    # Rust: define_type prints an alias to the representative, and only for a non-representative
    fn = synq.find_fn(RUST_IF, "define_type", self_ty="InterfaceGenerator")
    rep.saw(f"{RUST_IF}::InterfaceGenerator::define_type")
    rep.saw(file=RUST_IF)
    env = fn_env(fn, {"&str": "$name", "TypeId": [A]})
    evs = events(fn.body, env, Ctx())
    reprs = [e for e in evs if e.kind == "call" and e.name == "get_representative_type"]
    rep.floor(R, "get_representative_type uses in define_type", len(reprs), 1)
    rp = f"{reprs[0].recv}.get_representative_type({A})" if reprs else "?"
    rep.ob(R, "rust define_type: the representative is looked up for the type being defined", bool(reprs) and
           all(e.args == [A] for e in reprs), f"{[e.args for e in reprs]}", fn.loc())
    al = [e for e in evs if e.kind == "call" and e.name == "print_typedef_alias"]
    rep.floor(R, "alias sites in define_type", len(al), 1)
    for e in al:
        rep.ob(R, "rust define_type: a merged type is printed as an alias of its class representative",
               len(e.args) >= 2 and e.args[0] == A and e.args[1] == f"Type::Id({rp})", f"alias({', '.join(e.args[:2])})",
               fn.loc(e.node))
        conds = [(c[1], c[3]) for c in e.ctx if c[0] == "if"]
        ok = any(pol is False and (f"({rp} == {A})" in c or f"({A} == {rp})" in c) for c, pol in conds)
        rep.ob(R, "rust define_type: the alias is printed only when the representative is a different type", ok, f"{conds}",
               fn.loc(e.node))
    gp = synq.find_fn(RUST_IF, "generate_payload", self_ty="InterfaceGenerator")
    rep.saw(f"{RUST_IF}::InterfaceGenerator::generate_payload")
    genv = fn_env(gp, {"Option<&Type>": ["$payload"]})
    gevs = events(gp.body, genv, Ctx())
    keys = [e for e in gevs if e.kind == "call" and e.name == "contains_key"]
    rep.floor(R, "payload dedup lookups in generate_payload", len(keys), 1)
    rep.ob(R, "rust generate_payload: future/stream payload impls are de-duplicated by the class representative of the payload id",
           bool(keys) and all(".get_representative_type($payload<Some>.0<Id>.0)" in e.args[0] for e in keys),
           f"{[e.args[0][:160] for e in keys]}", gp.loc())
    full = [e for e in evs if e.kind == "call" and e.name == "define_type" and e.recv is None]
    rep.ob(R, "rust define_type: a representative (or unmerged) type gets its full definition",
           any(e.args[-1] == A and any(c[0] == "if" and c[3] is True for c in e.ctx) for e in full), f"{[e.args for e in full]}",
           fn.loc())
