// mirfacts: a rustc_private driver that dumps type-resolved MIR facts as JSONL.
//
// Used as RUSTC_WORKSPACE_WRAPPER under `cargo +nightly check`.  For every
// workspace crate it writes ONE file  $MIRFACTS_OUT/<crate>.<kind>.<roothash>.jsonl
// in a single write.  Line 1 is a crate header (consts, adts, impls); every
// following line is one function body.  No analysis is done here: the Python
// side (lib/mir.py) builds CFGs, dominators and origin traces from these facts.
#![feature(rustc_private)]
#![allow(clippy::all)]

extern crate rustc_abi;
extern crate rustc_driver;
extern crate rustc_hir;
extern crate rustc_interface;
extern crate rustc_middle;
extern crate rustc_session;
extern crate rustc_span;

use rustc_hir::def::DefKind;
use rustc_hir::def_id::{DefId, LocalDefId};
use rustc_middle::mir::{
    self, AggregateKind, BasicBlockData, Body, Const, Operand, Place, ProjectionElem, Rvalue,
    StatementKind, TerminatorKind,
};
use rustc_middle::ty::{self, Ty, TyCtxt};
use rustc_span::Span;
use std::fmt::Write as _;

struct Cb;

fn esc(s: &str) -> String {
    let mut o = String::with_capacity(s.len() + 2);
    o.push('"');
    for c in s.chars() {
        match c {
            '"' => o.push_str("\\\""),
            '\\' => o.push_str("\\\\"),
            '\n' => o.push_str("\\n"),
            '\r' => o.push_str("\\r"),
            '\t' => o.push_str("\\t"),
            c if (c as u32) < 0x20 => {
                let _ = write!(o, "\\u{:04x}", c as u32);
            }
            c => o.push(c),
        }
    }
    o.push('"');
    o
}

struct Cx<'tcx> {
    tcx: TyCtxt<'tcx>,
}

impl<'tcx> Cx<'tcx> {
    fn path(&self, d: DefId) -> String {
        let s = self.tcx.def_path_str(d);
        if d.is_local() {
            format!("crate::{s}")
        } else {
            s
        }
    }

    fn span(&self, sp: Span) -> String {
        let sm = self.tcx.sess.source_map();
        let exp = sp.from_expansion();
        let sp = if exp { sp.source_callsite() } else { sp };
        let lo = sm.lookup_char_pos(sp.lo());
        let hi = sm.lookup_char_pos(sp.hi());
        let f = match &lo.file.name {
            rustc_span::FileName::Real(r) => match r.local_path() {
                Some(p) => p.display().to_string(),
                None => format!("{:?}", lo.file.name),
            },
            o => format!("{o:?}"),
        };
        format!(
            "{{\"f\":{},\"l\":{},\"c\":{},\"el\":{},\"ec\":{},\"x\":{}}}",
            esc(&f),
            lo.line,
            lo.col.0,
            hi.line,
            hi.col.0,
            exp
        )
    }

    fn place(&self, body: &Body<'tcx>, p: &Place<'tcx>) -> String {
        let mut o = format!("{{\"l\":{}", p.local.as_usize());
        if !p.projection.is_empty() {
            o.push_str(",\"p\":[");
            let mut pty = mir::PlaceTy::from_ty(body.local_decls[p.local].ty);
            for (i, elem) in p.projection.iter().enumerate() {
                if i > 0 {
                    o.push(',');
                }
                match elem {
                    ProjectionElem::Deref => o.push_str("\"*\""),
                    ProjectionElem::Field(f, _) => {
                        let name = match pty.ty.kind() {
                            ty::Adt(def, _) => {
                                let v = pty.variant_index.unwrap_or(rustc_abi::FIRST_VARIANT);
                                if def.is_enum() && pty.variant_index.is_none() {
                                    format!("{}", f.as_usize())
                                } else {
                                    def.variant(v)
                                        .fields
                                        .get(f)
                                        .map(|fd| fd.name.to_string())
                                        .unwrap_or_else(|| format!("{}", f.as_usize()))
                                }
                            }
                            _ => format!("{}", f.as_usize()),
                        };
                        o.push_str(&esc(&format!(".{name}")));
                    }
                    ProjectionElem::Downcast(name, idx) => {
                        let n = match name {
                            Some(n) => n.to_string(),
                            None => match pty.ty.kind() {
                                ty::Adt(def, _) if def.is_enum() => {
                                    def.variant(idx).name.to_string()
                                }
                                _ => format!("{}", idx.as_usize()),
                            },
                        };
                        o.push_str(&esc(&format!("as {n}")));
                    }
                    ProjectionElem::Index(l) => {
                        o.push_str(&esc(&format!("[_{}]", l.as_usize())));
                    }
                    ProjectionElem::ConstantIndex { offset, from_end, .. } => {
                        o.push_str(&esc(&format!("[{}{}]", if from_end { "-" } else { "" }, offset)));
                    }
                    ProjectionElem::Subslice { .. } => o.push_str("\"[..]\""),
                    _ => o.push_str("\"?\""),
                }
                pty = pty.projection_ty(self.tcx, elem);
            }
            o.push(']');
        }
        o.push('}');
        o
    }

    fn konst(&self, owner: LocalDefId, c: &mir::ConstOperand<'tcx>) -> String {
        let tcx = self.tcx;
        let ty = c.const_.ty();
        let mut o = format!("{{\"c\":1,\"ty\":{}", esc(&ty.to_string()));
        if let ty::FnDef(d, args) = ty.kind() {
            let _ = write!(o, ",\"fn\":{}", esc(&self.path(*d)));
            if !args.is_empty() {
                let _ = write!(o, ",\"ga\":{}", esc(&format!("{args:?}")));
            }
        } else {
            let env = ty::TypingEnv::post_analysis(tcx, owner);
            let scalar_ok = ty.is_integral() || ty.is_bool() || ty.is_char() || ty.is_floating_point();
            if scalar_ok {
                if let Some(si) = c.const_.try_eval_scalar_int(tcx, env) {
                    let bits = si.to_bits(si.size());
                    let _ = write!(o, ",\"v\":\"{}\",\"sz\":{}", bits, si.size().bytes());
                }
            } else if let ty::Ref(_, inner, _) = ty.kind() {
                if inner.is_str() {
                    if let Const::Val(v, _) = c.const_ {
                        if let Some(b) = v.try_get_slice_bytes_for_diagnostics(tcx) {
                            if let Ok(s) = std::str::from_utf8(b) {
                                let _ = write!(o, ",\"s\":{}", esc(s));
                            }
                        }
                    }
                }
            }
            // named constants keep their path
            if let Const::Unevaluated(u, _) = c.const_ {
                let _ = write!(o, ",\"def\":{}", esc(&self.path(u.def)));
            }
        }
        o.push('}');
        o
    }

    fn operand(&self, owner: LocalDefId, body: &Body<'tcx>, op: &Operand<'tcx>) -> String {
        match op {
            Operand::Copy(p) => format!("{{\"cp\":{}}}", self.place(body, p)),
            Operand::Move(p) => format!("{{\"mv\":{}}}", self.place(body, p)),
            Operand::Constant(c) => self.konst(owner, c),
            #[allow(unreachable_patterns)]
            _ => "{\"?\":1}".to_string(),
        }
    }

    fn ops<'a>(
        &self,
        owner: LocalDefId,
        body: &Body<'tcx>,
        it: impl Iterator<Item = &'a Operand<'tcx>>,
    ) -> String
    where
        'tcx: 'a,
    {
        let v: Vec<String> = it.map(|o| self.operand(owner, body, o)).collect();
        format!("[{}]", v.join(","))
    }

    fn rvalue(&self, owner: LocalDefId, body: &Body<'tcx>, rv: &Rvalue<'tcx>) -> String {
        let tcx = self.tcx;
        match rv {
            Rvalue::Use(op, ..) => format!("{{\"k\":\"use\",\"o\":{}}}", self.operand(owner, body, op)),
            Rvalue::Ref(_, bk, p) => format!(
                "{{\"k\":\"ref\",\"m\":{},\"p\":{}}}",
                matches!(bk, mir::BorrowKind::Mut { .. }),
                self.place(body, p)
            ),
            Rvalue::RawPtr(_, p) => format!("{{\"k\":\"rawptr\",\"p\":{}}}", self.place(body, p)),
            Rvalue::BinaryOp(op, ab) => format!(
                "{{\"k\":\"bin\",\"op\":{},\"a\":{},\"b\":{}}}",
                esc(&format!("{op:?}")),
                self.operand(owner, body, &ab.0),
                self.operand(owner, body, &ab.1)
            ),
            Rvalue::UnaryOp(op, a) => format!(
                "{{\"k\":\"un\",\"op\":{},\"a\":{}}}",
                esc(&format!("{op:?}")),
                self.operand(owner, body, a)
            ),
            Rvalue::Cast(kind, op, ty) => format!(
                "{{\"k\":\"cast\",\"ck\":{},\"o\":{},\"ty\":{}}}",
                esc(&format!("{kind:?}")),
                self.operand(owner, body, op),
                esc(&ty.to_string())
            ),
            Rvalue::Discriminant(p) => {
                let pty = p.ty(body, tcx).ty;
                let mut vars = String::new();
                if let ty::Adt(def, _) = pty.kind() {
                    if def.is_enum() {
                        let v: Vec<String> = def
                            .discriminants(tcx)
                            .map(|(idx, d)| {
                                format!("[\"{}\",{}]", d.val, esc(def.variant(idx).name.as_str()))
                            })
                            .collect();
                        vars = format!(",\"vars\":[{}]", v.join(","));
                    }
                }
                format!(
                    "{{\"k\":\"discr\",\"p\":{},\"ty\":{}{}}}",
                    self.place(body, p),
                    esc(&pty.to_string()),
                    vars
                )
            }
            Rvalue::Aggregate(kind, fields) => {
                let mut o = String::from("{\"k\":\"agg\"");
                match &**kind {
                    AggregateKind::Adt(did, vidx, _, _, _) => {
                        let def = tcx.adt_def(*did);
                        let var = def.variant(*vidx);
                        let _ = write!(
                            o,
                            ",\"adt\":{},\"var\":{},\"fields\":[{}]",
                            esc(&self.path(*did)),
                            esc(var.name.as_str()),
                            var.fields
                                .iter()
                                .map(|f| esc(f.name.as_str()))
                                .collect::<Vec<_>>()
                                .join(",")
                        );
                    }
                    AggregateKind::Tuple => o.push_str(",\"tuple\":1"),
                    AggregateKind::Array(_) => o.push_str(",\"array\":1"),
                    AggregateKind::Closure(d, _) => {
                        let _ = write!(o, ",\"closure\":{}", esc(&self.path(*d)));
                    }
                    AggregateKind::Coroutine(d, _) => {
                        let _ = write!(o, ",\"coroutine\":{}", esc(&self.path(*d)));
                    }
                    AggregateKind::CoroutineClosure(d, _) => {
                        let _ = write!(o, ",\"closure\":{}", esc(&self.path(*d)));
                    }
                    _ => o.push_str(",\"other\":1"),
                }
                let _ = write!(o, ",\"ops\":{}}}", self.ops(owner, body, fields.iter()));
                o
            }
            Rvalue::Repeat(op, _) => format!("{{\"k\":\"repeat\",\"o\":{}}}", self.operand(owner, body, op)),
            Rvalue::CopyForDeref(p) => format!("{{\"k\":\"use\",\"o\":{{\"cp\":{}}}}}", self.place(body, p)),
            other => format!("{{\"k\":\"other\",\"d\":{}}}", esc(&format!("{other:?}"))),
        }
    }

    fn block(&self, owner: LocalDefId, body: &Body<'tcx>, bb: &BasicBlockData<'tcx>) -> String {
        let tcx = self.tcx;
        let mut st: Vec<String> = Vec::new();
        for s in &bb.statements {
            match &s.kind {
                StatementKind::Assign(b) => {
                    let (p, rv) = &**b;
                    st.push(format!(
                        "{{\"k\":\"=\",\"p\":{},\"rv\":{},\"sp\":{}}}",
                        self.place(body, p),
                        self.rvalue(owner, body, rv),
                        self.span(s.source_info.span)
                    ));
                }
                StatementKind::SetDiscriminant { place, variant_index } => {
                    let pty = place.ty(body, tcx).ty;
                    let vn = match pty.kind() {
                        ty::Adt(def, _) if def.is_enum() => def.variant(*variant_index).name.to_string(),
                        _ => format!("{}", variant_index.as_usize()),
                    };
                    st.push(format!(
                        "{{\"k\":\"setdiscr\",\"p\":{},\"var\":{},\"ty\":{},\"sp\":{}}}",
                        self.place(body, place),
                        esc(&vn),
                        esc(&pty.to_string()),
                        self.span(s.source_info.span)
                    ));
                }
                _ => {}
            }
        }
        let t = bb.terminator();
        let sp = self.span(t.source_info.span);
        let term = match &t.kind {
            TerminatorKind::Goto { target } => format!("{{\"k\":\"goto\",\"t\":{}}}", target.as_usize()),
            TerminatorKind::SwitchInt { discr, targets } => {
                let dty = discr.ty(body, tcx);
                let v: Vec<String> = targets
                    .iter()
                    .map(|(val, bb)| format!("[\"{}\",{}]", val, bb.as_usize()))
                    .collect();
                format!(
                    "{{\"k\":\"switch\",\"d\":{},\"dty\":{},\"ts\":[{}],\"else\":{},\"sp\":{}}}",
                    self.operand(owner, body, discr),
                    esc(&dty.to_string()),
                    v.join(","),
                    targets.otherwise().as_usize(),
                    sp
                )
            }
            TerminatorKind::Return => format!("{{\"k\":\"return\",\"sp\":{sp}}}"),
            TerminatorKind::Unreachable => "{\"k\":\"unreachable\"}".to_string(),
            TerminatorKind::UnwindResume | TerminatorKind::UnwindTerminate(_) => {
                "{\"k\":\"resume\"}".to_string()
            }
            TerminatorKind::Drop { place, target, .. } => {
                let pty = place.ty(body, tcx).ty;
                format!(
                    "{{\"k\":\"drop\",\"p\":{},\"ty\":{},\"t\":{},\"sp\":{}}}",
                    self.place(body, place),
                    esc(&pty.to_string()),
                    target.as_usize(),
                    sp
                )
            }
            TerminatorKind::Assert { cond, expected, target, msg, .. } => format!(
                "{{\"k\":\"assert\",\"c\":{},\"e\":{},\"t\":{},\"m\":{},\"sp\":{}}}",
                self.operand(owner, body, cond),
                expected,
                target.as_usize(),
                esc(&format!("{:?}", std::mem::discriminant(&**msg))),
                sp
            ),
            TerminatorKind::Call { func, args, destination, target, fn_span, .. } => {
                let fty = func.ty(body, tcx);
                let mut o = String::from("{\"k\":\"call\"");
                match fty.kind() {
                    ty::FnDef(d, ga) => {
                        let _ = write!(o, ",\"fn\":{}", esc(&self.path(*d)));
                        let env = ty::TypingEnv::post_analysis(tcx, owner);
                        let res = std::panic::catch_unwind(std::panic::AssertUnwindSafe(|| {
                            ty::Instance::try_resolve(tcx, env, *d, ga)
                        }));
                        if let Ok(Ok(Some(inst))) = res {
                            let rd = inst.def_id();
                            if rd != *d {
                                let _ = write!(o, ",\"res\":{}", esc(&self.path(rd)));
                            }
                            if let ty::InstanceKind::Virtual(..) = inst.def {
                                o.push_str(",\"virt\":1");
                            }
                        }
                        if !ga.is_empty() {
                            let _ = write!(o, ",\"ga\":{}", esc(&format!("{ga:?}")));
                        }
                        // self type of the first argument (receiver) for method calls
                    }
                    _ => {
                        let _ = write!(
                            o,
                            ",\"ind\":{},\"fty\":{}",
                            self.operand(owner, body, func),
                            esc(&fty.to_string())
                        );
                    }
                }
                let _ = write!(
                    o,
                    ",\"args\":{},\"aty\":[{}],\"d\":{},\"t\":{},\"sp\":{},\"fsp\":{}}}",
                    self.ops(owner, body, args.iter().map(|a| &a.node)),
                    args.iter()
                        .map(|a| esc(&a.node.ty(body, tcx).to_string()))
                        .collect::<Vec<_>>()
                        .join(","),
                    self.place(body, destination),
                    target.map(|t| t.as_usize() as i64).unwrap_or(-1),
                    sp,
                    self.span(*fn_span)
                );
                o
            }
            TerminatorKind::TailCall { .. } => "{\"k\":\"tailcall\"}".to_string(),
            TerminatorKind::Yield { resume, .. } => format!("{{\"k\":\"goto\",\"t\":{},\"yield\":1}}", resume.as_usize()),
            TerminatorKind::CoroutineDrop => "{\"k\":\"return\",\"cdrop\":1}".to_string(),
            TerminatorKind::FalseEdge { real_target, .. } => format!("{{\"k\":\"goto\",\"t\":{}}}", real_target.as_usize()),
            TerminatorKind::FalseUnwind { real_target, .. } => format!("{{\"k\":\"goto\",\"t\":{}}}", real_target.as_usize()),
            TerminatorKind::InlineAsm { .. } => "{\"k\":\"asm\"}".to_string(),
        };
        format!(
            "{{\"cl\":{},\"st\":[{}],\"t\":{}}}",
            bb.is_cleanup,
            st.join(","),
            term
        )
    }

    fn function(&self, def: LocalDefId, out: &mut String) {
        let tcx = self.tcx;
        let did = def.to_def_id();
        let body: &Body<'tcx> = tcx.optimized_mir(did);
        let kind = tcx.def_kind(did);
        let mut o = String::new();
        let _ = write!(
            o,
            "{{\"path\":{},\"kind\":{},\"sp\":{}",
            esc(&self.path(did)),
            esc(&format!("{kind:?}")),
            self.span(body.span)
        );
        // parent impl / trait info
        if matches!(kind, DefKind::AssocFn) {
            let parent = tcx.parent(did);
            match tcx.def_kind(parent) {
                DefKind::Impl { of_trait } => {
                    let st = tcx.type_of(parent).instantiate_identity().skip_norm_wip();
                    let _ = write!(o, ",\"self_ty\":{}", esc(&st.to_string()));
                    if of_trait {
                        let tr = tcx.impl_trait_ref(parent).instantiate_identity().skip_norm_wip();
                        let _ = write!(o, ",\"trait\":{}", esc(&self.path(tr.def_id)));
                    }
                }
                DefKind::Trait => {
                    let _ = write!(o, ",\"in_trait\":{}", esc(&self.path(parent)));
                }
                _ => {}
            }
        }
        let _ = write!(o, ",\"argc\":{}", body.arg_count);
        // locals
        o.push_str(",\"locals\":[");
        for (i, l) in body.local_decls.iter().enumerate() {
            if i > 0 {
                o.push(',');
            }
            o.push_str(&esc(&l.ty.to_string()));
        }
        o.push_str("],\"names\":{");
        let mut first = true;
        for vdi in &body.var_debug_info {
            if let mir::VarDebugInfoContents::Place(p) = &vdi.value {
                if !first {
                    o.push(',');
                }
                first = false;
                // name -> place; a local may carry several names, keep "local:name" keyed by name#idx
                let _ = write!(
                    o,
                    "{}:{}",
                    esc(&format!("{}@{}", vdi.name, self.tcx.sess.source_map().lookup_char_pos(vdi.source_info.span.lo()).line)),
                    self.place(body, p)
                );
            }
        }
        o.push_str("},\"bbs\":[");
        for (i, bb) in body.basic_blocks.iter().enumerate() {
            if i > 0 {
                o.push(',');
            }
            o.push_str(&self.block(def, body, bb));
        }
        o.push_str("]}\n");
        out.push_str(&o);
    }

    fn header(&self, out: &mut String, nonce: &str) {
        let tcx = self.tcx;
        let mut o = String::new();
        let cname = tcx.crate_name(rustc_hir::def_id::LOCAL_CRATE).to_string();
        let _ = write!(o, "{{\"header\":1,\"crate\":{},\"nonce\":{}", esc(&cname), esc(nonce));
        // consts
        o.push_str(",\"consts\":{");
        let mut first = true;
        for id in tcx.hir_crate_items(()).definitions() {
            let did = id.to_def_id();
            let k = tcx.def_kind(did);
            let is_const = matches!(k, DefKind::Const { .. } | DefKind::AssocConst { .. });
            if !is_const {
                continue;
            }
            if tcx.generics_of(did).count() != 0 {
                continue;
            }
            let ty = tcx.type_of(did).instantiate_identity().skip_norm_wip();
            if !(ty.is_integral() || ty.is_bool() || ty.is_char()) {
                continue;
            }
            let res = std::panic::catch_unwind(std::panic::AssertUnwindSafe(|| tcx.const_eval_poly(did)));
            if let Ok(Ok(v)) = res {
                if let Some(si) = v.try_to_scalar_int() {
                    if !first {
                        o.push(',');
                    }
                    first = false;
                    let _ = write!(
                        o,
                        "{}:{{\"v\":\"{}\",\"ty\":{}}}",
                        esc(&self.path(did)),
                        si.to_bits(si.size()),
                        esc(&ty.to_string())
                    );
                }
            }
        }
        o.push_str("},\"adts\":{");
        let mut first = true;
        for id in tcx.hir_crate_items(()).definitions() {
            let did = id.to_def_id();
            if !matches!(tcx.def_kind(did), DefKind::Struct | DefKind::Enum | DefKind::Union) {
                continue;
            }
            let def = tcx.adt_def(did);
            if !first {
                o.push(',');
            }
            first = false;
            let _ = write!(o, "{}:{{\"variants\":[", esc(&self.path(did)));
            for (i, v) in def.variants().iter().enumerate() {
                if i > 0 {
                    o.push(',');
                }
                let _ = write!(o, "{{\"name\":{},\"fields\":[", esc(v.name.as_str()));
                for (j, f) in v.fields.iter().enumerate() {
                    if j > 0 {
                        o.push(',');
                    }
                    let fty = tcx.type_of(f.did).instantiate_identity().skip_norm_wip();
                    let _ = write!(o, "[{},{}]", esc(f.name.as_str()), esc(&fty.to_string()));
                }
                o.push_str("]}");
            }
            let _ = write!(o, "],\"has_dtor\":{}}}", def.has_dtor(tcx));
        }
        // trait impls for local self types
        o.push_str("},\"impls\":[");
        let mut first = true;
        for id in tcx.hir_crate_items(()).definitions() {
            let did = id.to_def_id();
            if let DefKind::Impl { of_trait: true } = tcx.def_kind(did) {
                let tr = tcx.impl_trait_ref(did).instantiate_identity().skip_norm_wip();
                let st: Ty<'tcx> = tcx.type_of(did).instantiate_identity().skip_norm_wip();
                if !first {
                    o.push(',');
                }
                first = false;
                let neg = matches!(tcx.impl_polarity(did), ty::ImplPolarity::Negative);
                let _ = write!(
                    o,
                    "{{\"trait\":{},\"self\":{},\"neg\":{},\"sp\":{}}}",
                    esc(&self.path(tr.def_id)),
                    esc(&st.to_string()),
                    neg,
                    self.span(tcx.def_span(did))
                );
            }
        }
        o.push_str("]}\n");
        out.push_str(&o);
    }
}

impl rustc_driver::Callbacks for Cb {
    fn after_analysis<'tcx>(
        &mut self,
        _compiler: &rustc_interface::interface::Compiler,
        tcx: TyCtxt<'tcx>,
    ) -> rustc_driver::Compilation {
        let outdir = match std::env::var("MIRFACTS_OUT") {
            Ok(d) => d,
            Err(_) => return rustc_driver::Compilation::Continue,
        };
        let cname = tcx.crate_name(rustc_hir::def_id::LOCAL_CRATE).to_string();
        if cname.starts_with("build_script") {
            return rustc_driver::Compilation::Continue;
        }
        if let Ok(sel) = std::env::var("MIRFACTS_CRATES") {
            if !sel.split(',').any(|c| c == cname) {
                return rustc_driver::Compilation::Continue;
            }
        }
        let nonce = std::env::var("MIRFACTS_NONCE").unwrap_or_default();
        let tag = std::env::var("MIRFACTS_TAG").unwrap_or_default();
        let cx = Cx { tcx };
        let mut out = String::new();
        cx.header(&mut out, &nonce);
        for def in tcx.hir_body_owners() {
            let k = tcx.def_kind(def.to_def_id());
            if !matches!(k, DefKind::Fn | DefKind::AssocFn | DefKind::Closure) {
                continue;
            }
            // coroutine-closure bodies etc. are fine; skip const fns? keep.
            if !tcx.is_mir_available(def.to_def_id()) {
                continue;
            }
            cx.function(def, &mut out);
        }
        let kind = tcx
            .crate_types()
            .iter()
            .map(|t| format!("{t:?}").to_lowercase())
            .collect::<Vec<_>>()
            .join("+");
        // root file to disambiguate bin/lib with equal crate names
        let root = {
            let sm = tcx.sess.source_map();
            let sp = tcx.def_span(rustc_hir::def_id::CRATE_DEF_ID.to_def_id());
            let f = sm.lookup_char_pos(sp.lo()).file.name.prefer_local_unconditionally().to_string();
            f
        };
        let mut h: u64 = 0xcbf29ce484222325;
        for b in root.bytes().chain(tag.bytes()) {
            h ^= b as u64;
            h = h.wrapping_mul(0x100000001b3);
        }
        let is_test = tcx.sess.opts.test;
        let fname = format!(
            "{outdir}/{cname}.{kind}{}.{h:016x}.jsonl",
            if is_test { ".test" } else { "" }
        );
        let _ = std::fs::create_dir_all(&outdir);
        // atomic: readers never see a half-written file
        let tmp = format!("{fname}.tmp{}", std::process::id());
        std::fs::write(&tmp, out).expect("write facts");
        std::fs::rename(&tmp, &fname).expect("rename facts");
        rustc_driver::Compilation::Continue
    }
}

fn main() {
    let mut args: Vec<String> = std::env::args().collect();
    // RUSTC_WORKSPACE_WRAPPER: argv[1] is the path of the real rustc
    if args.len() > 1 && (args[1].ends_with("rustc") || args[1].contains("/rustc")) {
        args.remove(1);
    }
    rustc_driver::run_compiler(&args, &mut Cb);
}
