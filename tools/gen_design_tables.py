#!/usr/bin/env python3
"""Regenerate the machine-derived tables of DESIGN.md (between the BEGIN/END GENERATED markers)."""
import glob, json, os, re
VERIF = os.path.dirname(os.path.dirname(os.path.abspath(__file__)))
def esc(s): return str(s).replace("|", "\\|").replace("\n", " ")
out = []
man = json.load(open(os.path.join(VERIF, "MANIFEST.json")))
out.append("### 11.1 Registered checks (from MANIFEST.json and the committed evidence)\n")
out.append("| property | level | engine | quick obligations (hold / known findings) | technique |")
out.append("|---|---|---|---|---|")
for c in man["checks"]:
    pid = c["property_id"]
    try:
        ev = json.load(open(os.path.join(VERIF, "evidence", pid + ".json")))
        cov = ev["coverage"]
        ob = f"{cov['obligations']} ({cov['discharged']} / {cov.get('known_findings_hit', 0)})"
    except Exception:
        ob = "?"
    out.append(f"| {pid} | {c['level_claimed']['category']} | {c.get('engine','')} | {ob} | {esc(c.get('technique',''))[:160]} |")
out.append("")
k = json.load(open(os.path.join(VERIF, "known_findings.json")))
out.append("### 11.2 Genuine defects repaired in /repo (`fix:` commits; a fixed entry suppresses nothing)\n")
for f in k["fixed"]:
    out.append("* " + esc(f))
out.append("")
out.append("### 11.3 Known findings (genuine defects recorded, not repaired; suppressed by exact key only)\n")
out.append("| property | key | what fails |")
out.append("|---|---|---|")
for f in k["findings"]:
    out.append(f"| {f['property']} | `{esc(f['key'])}` | {esc(f['what'])[:420]} |")
out.append("")
out.append("### 11.4 Seeded changes (independent sub-agents, confirmed by tools/seed_confirm.py) and which checks catch them\n")
out.append("| seed | breaks | what it needs to manifest | detected by | note |")
out.append("|---|---|---|---|---|")
for d in sorted(glob.glob(os.path.join(VERIF, "seeded", "*", "meta.json"))):
    m = json.load(open(d))
    sid = os.path.basename(os.path.dirname(d))
    out.append(f"| {sid} | {m.get('breaks_property', m.get('property'))} | {esc(m.get('needs_to_manifest',''))[:300]} | "
               f"{', '.join(m.get('detected_by', [])) or '**missed**'} | {esc(m.get('history',''))[:300]} |")
out.append("")
st = os.path.join(VERIF, "selftest", "results.json")
if os.path.exists(st):
    r = json.load(open(st))
    per = {}
    for key, v in r.items():
        pid = key.split("/")[0]
        p = per.setdefault(pid, {"mutation": [0, 0], "benign": [0, 0], "missed": 0})
        kind = v.get("kind", "")
        if kind == "mutation":
            p["mutation"][1] += 1; p["mutation"][0] += 1 if v.get("ok") else 0
        elif kind == "benign":
            p["benign"][1] += 1; p["benign"][0] += 1 if v.get("ok") else 0
        elif kind.startswith("missed"):
            p["missed"] += 1
    out.append("### 11.5 Self-test patches (tools/selftest.py, last recorded run)\n")
    out.append("| property | mutations killed | benign silent | documented misses |")
    out.append("|---|---|---|---|")
    for pid in sorted(per):
        p = per[pid]
        out.append(f"| {pid} | {p['mutation'][0]}/{p['mutation'][1]} | {p['benign'][0]}/{p['benign'][1]} | {p['missed']} |")
    out.append("")
text = "\n".join(out)
p = os.path.join(VERIF, "DESIGN.md")
s = open(p).read()
b, e = "<!-- BEGIN GENERATED -->", "<!-- END GENERATED -->"
if b in s:
    s = s[:s.index(b) + len(b)] + "\n" + text + "\n" + s[s.index(e):]
else:
    s += "\n" + b + "\n" + text + "\n" + e + "\n"
open(p, "w").write(s)
print("tables regenerated")
