"""C03 — cleanup frees exactly what the lowering allocated (structural clauses)."""
import os
import re

from lib import facts, mir, synq
from lib.mir import AnchorMissing
from lib.synq import render

from .rtcommon import bool_switches_on_call

ABI = "crates/core/src/abi.rs"

CLAIM = dict(
    level="other", engine="synfacts+mirfacts", design="DESIGN.md §5 C03",
    technique="arm-by-arm consistency matrix between the ownership predicate and the two deallocation walkers "
              "(match-table classification on the syntax tree, kind domain read from wit-parser), MIR constant / "
              "guard-edge checks of the ownership mode and of the post-return predicate at every backend call site, "
              "sibling-expression agreement of size / alignment / stride between allocation and free templates",
    text="Decides that needs_deallocate, deallocate and deallocate_indirect agree for every Type / TypeDefKind, that "
         "the mode (Lists / ListsAndOwn) is threaded unchanged and DropHandle only exists under what.handles(), that "
         "every backend generates the post-return under exactly the true edge of guest_export_needs_post_return, and "
         "that each backend's free uses the size / alignment / stride expressions of its allocation and releases the "
         "list pointer exactly once after the element loop. Balance for a concrete value is not decided.",
    note="mir+syn")

SCALARS = ["Bool", "U8", "U16", "U32", "U64", "S8", "S16", "S32", "S64", "F32", "F64", "Char"]

# what the property statement says about every kind ("heap buffer: string, list, map, at any nesting depth";
# "owned resource, future and stream handles" only in the ownership mode)
BUFFER, RECURSE, HMODE, NEVER, UNREACH = "always", "recurse", "handles-mode", "never", "unreachable"
EXPECT_N = {"Type::String": {BUFFER}, "Type::ErrorContext": {NEVER, HMODE},
            "TypeDefKind::List": {BUFFER}, "TypeDefKind::Map": {BUFFER},
            "TypeDefKind::Record": {RECURSE}, "TypeDefKind::Tuple": {RECURSE}, "TypeDefKind::Variant": {RECURSE},
            "TypeDefKind::Option": {RECURSE}, "TypeDefKind::Result": {RECURSE}, "TypeDefKind::Type": {RECURSE},
            "TypeDefKind::FixedLengthList": {RECURSE},
            "TypeDefKind::Handle(Handle::Own)": {HMODE}, "TypeDefKind::Future": {HMODE}, "TypeDefKind::Stream": {HMODE},
            "TypeDefKind::Handle(Handle::Borrow)": {NEVER}, "TypeDefKind::Resource": {NEVER},
            "TypeDefKind::Flags": {NEVER}, "TypeDefKind::Enum": {NEVER}, "TypeDefKind::Unknown": {UNREACH}}
for _s in SCALARS:
    EXPECT_N["Type::" + _s] = {NEVER}
# members of the payload that every walker has to visit ("at any nesting depth")
CHILDREN = {"TypeDefKind::Record": {"fields"}, "TypeDefKind::Tuple": {"types"}, "TypeDefKind::Variant": {"cases"},
            "TypeDefKind::Result": {"ok", "err"}}
FREE_OF = {"Type::String": "GuestDeallocateString", "TypeDefKind::List": "GuestDeallocateList",
           "TypeDefKind::Map": "GuestDeallocateMap"}
MODES = ("Lists", "ListsAndOwn")


# ------------------------------------------------------------------------------------------------ kind domain
def wit_parser_domain():
    """Type / TypeDefKind / Handle variants, read from the wit-parser source the workspace compiles against."""
    d = facts.registry_src("wit-parser")
    if d is None:
        raise AnchorMissing("wit-parser source not found in the cargo registry")
    p = os.path.join(d, "src/lib.rs")
    ast = facts.parse_snippet(open(p).read())
    if "error" in ast:
        raise AnchorMissing("wit-parser lib.rs does not parse: " + ast["error"])
    en = {}
    for it in ast["items"]:
        if it.get("k") == "enum_def" and it["name"] in ("Type", "TypeDefKind", "Handle"):
            en[it["name"]] = [v["name"] for v in it["variants"]]
    if set(en) != {"Type", "TypeDefKind", "Handle"}:
        raise AnchorMissing(f"wit-parser enums not found: {sorted(en)}")
    keys = ["Type::" + v for v in en["Type"] if v != "Id"]
    for v in en["TypeDefKind"]:
        if v == "Handle":
            keys += [f"TypeDefKind::Handle(Handle::{h})" for h in en["Handle"]]
        else:
            keys.append("TypeDefKind::" + v)
    return keys, p


# ------------------------------------------------------------------------------------------------ match tables
def alt_keys(alt, domain):
    """Keys of the kind domain one pattern alternative matches ('*' = everything of that table)."""
    k = alt.get("k")
    if k == "p_wild" or (k == "p_ident" and not alt["name"][:1].isupper() and not alt.get("sub")):
        return ["*"]
    if k not in ("p_path", "p_tuple_struct", "p_struct", "p_ident"):
        raise AnchorMissing(f"pattern kind {k} not understood in a Type/TypeDefKind table")
    path = alt.get("path") or alt.get("name")
    segs = path.split("::")
    if segs[-1] == "Handle" and len(segs) >= 2 and segs[-2] == "TypeDefKind":
        sub = alt.get("elems") or []
        if len(sub) == 1 and sub[0].get("k") in ("p_tuple_struct", "p_path", "p_struct"):
            return [f"TypeDefKind::Handle(Handle::{synq.short(sub[0]['path'])})"]
        return [x for x in domain if x.startswith("TypeDefKind::Handle(")]
    return ["::".join(segs[-2:])]


class Table:
    """A `match ty { Type::.. , Type::Id(id) => match kind { TypeDefKind::.. } }` pair."""

    def __init__(self, fn, domain, roles):
        self.fn = fn
        self.roles = roles
        self.outer = synq.find_match(fn.body, "Type::")
        ida = synq.arm_for(self.outer, "Type::Id")
        if ida is None or "_" in ida.heads:
            raise AnchorMissing(f"{fn.name}: no explicit Type::Id arm")
        self.inner = synq.find_match(ida.body, "TypeDefKind::")
        self.rows = {}  # key -> [(guard_text | None, Arm)] in source order
        for m, pre in ((self.outer, "Type::"), (self.inner, "TypeDefKind::")):
            for a in synq.arms(m):
                g = render(a.guard, roles) if a.guard is not None else None
                for alt in a.alts:
                    for key in alt_keys(alt, domain):
                        tgt = [x for x in domain if x.startswith(pre)] if key == "*" else [key]
                        for t in tgt:
                            self.rows.setdefault(t, []).append((g, a))

    def per_mode(self, key, classify):
        """{mode: (class, Arm)} following first-match semantics with `if what.handles()` guards."""
        out = {}
        for g, a in self.rows.get(key, []):
            if g is None:
                for m in MODES:
                    out.setdefault(m, (classify(a), a))
                break
            if g == "$what.handles()":
                out.setdefault("ListsAndOwn", (classify(a), a))
            elif g == "!$what.handles()":
                out.setdefault("Lists", (classify(a), a))
            else:
                raise AnchorMissing(f"{self.fn.name}: guard `{g}` on the {key} arm not understood")
            if len(out) == 2:
                break
        for m in MODES:
            out.setdefault(m, ("no arm", None))
        return out


def only_expr(body):
    """the expression an arm evaluates to (through a single-statement block)"""
    while body.get("k") == "block" and len(body["stmts"]) == 1 and body["stmts"][0]["k"] == "expr_stmt":
        body = body["stmts"][0]["e"]
    return body


def macro_class(e):
    if e.get("k") == "macro":
        n = synq.short(e["name"])
        if n in ("unreachable", "panic"):
            return UNREACH
        if n in ("todo", "unimplemented"):
            return "todo"
    return None


def stack_pops(node):
    return [m for m in synq.method_calls(node, "pop") if render(m["recv"]) == "self.stack"]


def is_empty(body):
    return body.get("k") == "block" and not body["stmts"]


# ------------------------------------------------------------------------------------------------ inline view of an arm
# methods of Generator the rules reason about by name; every other `self.<helper>(..)` of Generator is looked into
NAMED = {"emit", "push_block", "finish_block", "deallocate", "deallocate_indirect", "deallocate_indirect_fields",
         "deallocate_indirect_variant", "deallocate_in_types", "lift", "lower", "read_from_memory", "write_to_memory",
         "load_intrepr", "store_intrepr", "flat_for_each_record_type", "flat_for_each_variant_arm", "post_return", "call",
         "lower_and_emit", "emit_and_lift", "write_list_to_memory", "read_list_from_memory"}


def generator_helpers():
    return {f.name: f for f in synq.all_fns(ABI) if f.self_ty == "Generator" and f.body is not None and f.name not in NAMED}


def inline_view(body, V, ren=None, depth=3):
    """(made, calls) of an arm as if private Generator helpers were written out at their call site, in call order.
    made:  [(instruction name, node, ren)]     calls: [(method, mcall node, ren)] (receiver `self`)
    `ren` renames the locals of each (inlined) body: helper parameters are replaced by the rendered caller arguments."""
    helpers = generator_helpers()
    vs = set(V)
    made, calls = [], []

    def rec(node, ren, d, stack):
        for n in synq.walk(node):
            k = n.get("k")
            if k in ("path", "struct") and n["path"].split("::")[-1] in vs:
                made.append((n["path"].split("::")[-1], n, ren))
            elif k == "mcall" and render(n["recv"]) == "self":
                h = helpers.get(n["method"])
                if h is not None and d > 0 and n["method"] not in stack:
                    names = [p for p in h.params if p != "self"]
                    sub = dict(ren or {})
                    for pn, a in zip(names, n["args"]):
                        if pn is not None:
                            sub[pn] = render(a, ren)
                    rec(h.body, sub, d - 1, stack + (n["method"],))
                else:
                    calls.append((n["method"], n, ren))
    rec(body, ren, depth, ())
    return made, calls


def made_names(body, V):
    return [n for n, _, _ in inline_view(body, V)[0]]


def called(body, V, methods):
    """`self.m(..)` calls (through helpers) plus direct method calls on any receiver (closures call `me.m(..)`)"""
    ms = {methods} if isinstance(methods, str) else set(methods)
    return [c for c in inline_view(body, V)[1] if c[0] in ms] or synq.method_calls(body, tuple(ms))


def classify_N(roles):
    def c(arm):
        e = only_expr(arm.body)
        mc = macro_class(e)
        if mc:
            return mc
        if e.get("k") == "bool":
            return BUFFER if e["v"] else NEVER
        if render(e, roles) == "$what.handles()":
            return HMODE
        if synq.fn_calls(e, "needs_deallocate"):
            return RECURSE
        return "? " + render(e)[:50]
    return c


def classify_D(V):
    def c(arm):
        e = only_expr(arm.body)
        mc = macro_class(e)
        if mc:
            return mc
        made = made_names(arm.body, V)
        if any(n in FREE_OF.values() for n in made):
            return "frees"
        if "DropHandle" in made:
            return "drops-handle"
        if called(arm.body, V, "deallocate"):
            return "recurses"
        if is_empty(arm.body):
            return "nothing"
        if len(stack_pops(arm.body)) == 1 and not made and len(synq.method_calls(arm.body)) == 2:
            return "discards"      # self.stack.pop().unwrap() and nothing else
        return "? " + render(e)[:50]
    return c


def classify_I(V):
    def c(arm):
        e = only_expr(arm.body)
        mc = macro_class(e)
        if mc:
            return mc
        made = made_names(arm.body, V)
        if "DropHandle" in made:
            return "drops-handle"
        if called(arm.body, V, ("deallocate_indirect", "deallocate_indirect_fields", "deallocate_indirect_variant")):
            return "recurses"
        if called(arm.body, V, "deallocate"):
            return "frees"        # loads pointer + length and hands the pair to `deallocate` of the same type
        if is_empty(arm.body):
            return "nothing"
        return "? " + render(e)[:50]
    return c


# N class (per mode) -> acceptable walker classes
def n_in_mode(ncls, mode):
    if ncls == HMODE:
        return "handle" if mode == "ListsAndOwn" else NEVER
    return ncls


ACCEPT_I = {BUFFER: {"frees"}, RECURSE: {"recurses"}, "handle": {"drops-handle"}, NEVER: {"nothing", UNREACH}, UNREACH: {UNREACH}}
ACCEPT_D = {BUFFER: {"frees"}, RECURSE: {"recurses"}, "handle": {"drops-handle"}, NEVER: {"discards", UNREACH}, UNREACH: {UNREACH}}


def noidx(path):
    """function path without crate prefix and without closure ordinals (stable instance names)"""
    return re.sub(r"\{closure#\d+\}", "{closure}", path).replace("crate::abi::", "").replace("crate::", "")


def instr_variants():
    c = mir.load("ws", "wit_bindgen_core", "rlib")
    return [v["name"] for v in c.adt("abi::Instruction")["variants"]]


def arm_binds(arm):
    """names bound positionally by `TypeDefKind::X(a, b)` -> {name: '$b0', ..}"""
    ren = {}
    for alt in arm.alts:
        if alt.get("k") == "p_tuple_struct":
            for i, e in enumerate(alt["elems"]):
                if e.get("k") == "p_ident":
                    ren[e["name"]] = f"$b{i}"
    return ren


def members_of(body, names):
    """field names accessed on any of the bound names inside body"""
    out = set()
    for n in synq.walk(body):
        if n.get("k") == "field" and n["base"].get("k") == "path" and n["base"]["path"] in names:
            out.add(n["member"])
    return out


def self_calls(node):
    return [m["method"] for m in synq.method_calls(node) if render(m["recv"]) == "self"]


def field_expr(node, name, ren=None):
    for x in node.get("fields", []):
        if x["name"] == name:
            return render(x["e"], ren)
    return None


def handles_table(h):
    """Deallocate::handles as a function of the variant, written as a `match self` table or as `matches!(self, ..)`"""
    variants = synq.enum_variants(ABI, "Deallocate")
    e = only_expr(h.body)
    neg = False
    while e.get("k") == "unary" and e["op"] == "!":
        e, neg = e["e"], not neg
    if e.get("k") == "macro" and synq.short(e["name"]) == "matches" and "pat" in e and render(e["expr"]).lstrip("*&") == "self" \
            and e.get("guard") is None:
        hit = {synq.short(synq.pat_head(p)) for p in synq.pat_alts(e["pat"])}
        if not hit <= set(variants):
            raise AnchorMissing(f"Deallocate::handles: matches! pattern {sorted(hit)} not understood")
        return {v: (v in hit) != neg for v in variants}
    m = synq.find_match(h.body, "Deallocate::")
    if render(m["scrut"]).lstrip("*&") != "self":
        raise AnchorMissing("Deallocate::handles does not match on self")
    tbl = {}
    for a in synq.arms(m):
        b = only_expr(a.body)
        for hd in a.heads:
            keys = variants if hd == "_" else [synq.short(hd)]
            for k_ in keys:
                tbl.setdefault(k_, (b["v"] != neg) if b.get("k") == "bool" else render(b))
    return tbl


ADAPTERS = {"into_iter", "iter", "collect", "copied", "cloned", "chain", "to_vec", "as_slice"}


def collection_sources(fn_body, e, depth=4):
    """What a collection expression is made of: adapters (`into_iter().collect()`, `iter().chain(x)`) are looked through,
    a local is resolved through its `let` plus everything later pushed / extended into it.  Returns base expressions."""
    while e.get("k") in ("ref", "paren") or (e.get("k") == "unary" and e["op"] in ("*", "&")):
        e = e["e"]
    k = e.get("k")
    if k == "mcall" and e["method"] in ADAPTERS:
        out = collection_sources(fn_body, e["recv"], depth)
        if e["method"] == "chain":
            for a in e["args"]:
                out += collection_sources(fn_body, a, depth)
        return out
    if k == "call" and e["func"].get("k") == "path":
        p = e["func"]["path"]
        if p in ("Vec::new", "Vec::with_capacity"):
            return []
        if p in ("Vec::from_iter", "Vec::from"):
            return [b for a in e["args"] for b in collection_sources(fn_body, a, depth)]
    if k == "macro" and synq.short(e["name"]) == "vec" and not e.get("args"):
        return []
    if k == "path" and "::" not in e["path"] and depth > 0:
        inits = [init for nm, init, st in synq.bindings(fn_body) if nm == e["path"] and st["pat"].get("k") == "p_ident"]
        if len(inits) == 1 and inits[0] is not None:
            out = collection_sources(fn_body, inits[0], depth - 1)
            for m in synq.method_calls(fn_body, ("extend", "push", "extend_from_slice")):
                if render(m["recv"]) == e["path"]:
                    for a in m["args"]:
                        out += collection_sources(fn_body, a, depth - 1)
            return out
    return [e]


# ================================================================================================ core rules
def core_rules(rep):
    V = instr_variants()
    domain, wp_path = wit_parser_domain()
    rep.saw(file=ABI)
    nd = synq.find_fn(ABI, "needs_deallocate")
    fD = synq.find_fn(ABI, "deallocate", self_ty="Generator")
    fI = synq.find_fn(ABI, "deallocate_indirect", self_ty="Generator")
    for f in (nd, fD, fI):
        rep.saw(f"{ABI}::{f.name}")
    rN, rD, rI = synq.param_roles(nd), synq.param_roles(fD), synq.param_roles(fI)
    tN, tD, tI = Table(nd, domain, rN), Table(fD, domain, rD), Table(fI, domain, rI)

    # ---------------------------------------------------------------- R3.1 consistency matrix
    def r31():
        rep.floor("R3.1", "kinds of the Type/TypeDefKind domain (wit-parser)", len(domain), 31)
        for t, role in ((tN, rN), (tD, rD), (tI, rI)):
            s_out = render(t.outer["scrut"], role).lstrip("*&")
            s_in = render(t.inner["scrut"], role)
            rep.ob("R3.1", f"{t.fn.name}: the table dispatches on its own `ty` and on resolve.types[id].kind",
                   s_out == "$ty" and re.fullmatch(r"&?(self\.resolve|\$resolve)\.types\[\*?\w+\]\.kind", s_in) is not None,
                   f"scrutinees `{s_out}` / `{s_in}`", t.fn.loc(t.outer))
        for key in domain:
            rep.guard("R3.1", f"matrix row {key}", lambda key=key: row(key))

    def row(key):
        cN, cD, cI = classify_N(rN), classify_D(V), classify_I(V)
        n = tN.per_mode(key, cN)
        ncls = {n[m][0] for m in MODES}
        narm = n["Lists"][1]
        exp = EXPECT_N.get(key)
        if exp is None:
            rep.ob("R3.1", f"N({key}) has a class assigned by the property", False,
                   "kind unknown to rules/C03.py: decide whether it owns heap data and extend EXPECT_N", wp_path)
            return
        n1 = next(iter(ncls)) if len(ncls) == 1 else "mixed " + "/".join(sorted(ncls))
        rep.ob("R3.1", f"N({key}) is {' or '.join(sorted(exp))}", n1 in exp,
               f"needs_deallocate classifies {key} as `{n1}`; the property only counts string/list/map buffers (and, in "
               f"ListsAndOwn mode, own/future/stream handles)", nd.loc(narm.node if narm else None))
        for nm, t, cl, acc in (("I", tI, cI, ACCEPT_I), ("D", tD, cD, ACCEPT_D)):
            w = t.per_mode(key, cl)
            bad = []
            for m in MODES:
                want = acc.get(n_in_mode(n[m][0], m))
                if want is None or w[m][0] not in want:
                    bad.append(f"{m}: N={n[m][0]} but {t.fn.name}={w[m][0]}")
            warm = w["Lists"][1] or w["ListsAndOwn"][1]
            rep.ob("R3.1", f"{nm}({key}) consistent with N({key})", not bad,
                   "; ".join(bad) or f"N={n1}, {t.fn.name}: " + "/".join(w[m][0] for m in MODES),
                   t.fn.loc(warm.node if warm else None))
        # the free instruction is the one of this kind
        if key in FREE_OF:
            a = tD.per_mode(key, cD)["Lists"][1]
            made = [x for x in made_names(a.body, V) if x.startswith("GuestDeallocate")] if a else []
            rep.ob("R3.1", f"D({key}) frees with {FREE_OF[key]}", made == [FREE_OF[key]], f"arm constructs {made}",
                   fD.loc(a.node if a else None))
        # every child is visited by all three
        if key in CHILDREN:
            for nm, t, cl in (("N", tN, cN), ("I", tI, cI), ("D", tD, cD)):
                a = t.per_mode(key, cl)["Lists"][1]
                got = members_of(a.body, set(arm_binds(a))) if a else set()
                rep.ob("R3.1", f"{nm}({key}) visits every child ({', '.join(sorted(CHILDREN[key]))})",
                       CHILDREN[key] <= got, f"members read from the payload: {sorted(got)}", t.fn.loc(a.node if a else None))
    rep.guard("R3.1", "consistency matrix", r31)

    core = mir.load("ws", "wit_bindgen_core", "rlib")
    FAMILY = ["Generator::deallocate_in_types", "Generator::deallocate", "Generator::deallocate_indirect",
              "Generator::deallocate_indirect_fields", "Generator::deallocate_indirect_variant", "abi::needs_deallocate"]

    def mode_param(f):
        """index (1-based) of the parameter of type Deallocate"""
        c = [i for i in range(1, f.argc + 1) if f.locals[i].split("::")[-1] == "Deallocate"]
        return c[0] if len(c) == 1 else None

    def mode_arg(cl):
        c = [i for i, t in enumerate(cl.arg_types) if t.split("::")[-1] == "Deallocate"]
        return cl.args[c[0]] if len(c) == 1 else None

    # ---------------------------------------------------------------- R3.2 the ownership mode
    def r32():
        # (a) the mode constant exists only at the five entry points
        ENTRY = {"abi::deallocate_lists_in_types": ("Lists", "Generator::deallocate_in_types"),
                 "abi::deallocate_lists_and_own_in_types": ("ListsAndOwn", "Generator::deallocate_in_types"),
                 "Generator::post_return": ("Lists", "Generator::deallocate_in_types"),
                 "abi::guest_export_needs_post_return": ("Lists", "abi::needs_deallocate"),
                 "abi::guest_export_params_have_allocations": ("Lists", "abi::needs_deallocate")}
        made = {}
        for p, f in core.fns.items():
            for b, i, rv, s in f.aggregates("Deallocate"):
                made.setdefault(f, []).append(rv["var"])
        seen = set()
        for f, vs in made.items():
            base = re.sub(r"::\{closure#\d+\}.*$", "", f.npath)
            ent = [k for k in ENTRY if mir.suffix_match(base, k)]
            rep.ob("R3.2", f"a Deallocate mode constant is created only at an entry point ({noidx(f.npath)})",
                   len(ent) == 1, f"constructs Deallocate::{'/'.join(vs)} outside the five entry points "
                   "(a walker that makes up its own mode no longer honours its caller's)", f.loc())
            if len(ent) != 1:
                continue
            want, callee = ENTRY[ent[0]]
            seen.add(ent[0])
            rep.saw(f)
            cls = f.calls(callee)
            ok = len(cls) == 1 and vs == [want]
            if ok:
                o = f.origin(mode_arg(cls[0])) if mode_arg(cls[0]) is not None else {}
                ok = o.get("kind") == "agg" and o["rv"].get("var") == want
            rep.ob("R3.2", f"{ent[0].split('::')[-1]} passes Deallocate::{want} to {callee.split('::')[-1]}", ok,
                   f"constructs {vs}, {len(cls)} call(s) of {callee}", f.loc(cls[0].bb) if cls else f.loc())
        rep.floor("R3.2", "entry points fixing the mode", len(seen), 5)
        # post_return walks the result through memory
        pr = core.method("Generator", "post_return")
        cl = pr.calls("Generator::deallocate_in_types")
        ind = pr.origin(cl[0].args[3]) if len(cl) == 1 else {}
        rep.ob("R3.2", "post_return deallocates through the return pointer (indirect = true)",
               ind.get("kind") == "const" and ind.get("v") == 1, f"{ind}", pr.loc(cl[0].bb) if cl else pr.loc())
        # (b) Deallocate::handles is the table Lists -> false, ListsAndOwn -> true
        h = synq.find_fn(ABI, "handles", self_ty="Deallocate")
        tbl = handles_table(h)
        rep.ob("R3.2", "Deallocate::handles: Lists -> false, ListsAndOwn -> true", tbl == {"Lists": False, "ListsAndOwn": True},
               f"{tbl}", h.loc())
        # (c) the mode is threaded unchanged through the walkers (and their closures)
        nthread = 0
        edges = set()
        for fam in FAMILY:
            f = core.fn(fam)
            rep.saw(f)
            own = mode_param(f)
            for g in [f] + core.closures_of(f):
                for cl in g.calls(FAMILY):
                    a = mode_arg(cl)
                    o = g.origin(a) if a is not None else {"kind": "missing"}
                    if g is f:
                        ok = o.get("kind") == "arg" and o.get("n") == own and not [x for x in o.get("proj", []) if x.startswith(".")]
                    else:   # a closure: the mode is a captured variable of the walker (its only Deallocate value, see (a))
                        ok = o.get("kind") == "arg" and o.get("n") == 1
                    nthread += 1
                    edges.add((noidx(g.npath), cl.callee.split("::")[-1]))
                    rep.ob("R3.2", f"{noidx(g.npath)} hands its own mode to {cl.callee.split('::')[-1]}",
                           ok, f"mode argument originates from {({k: v for k, v in o.items() if k in ('kind', 'n', 'place')})}",
                           g.loc(cl.bb))
        # distinct caller -> callee edges (merging identical arms must not look like a lost site)
        rep.floor("R3.2", "caller -> callee edges between walkers carrying the mode", len(edges), EDGES_MIN)
        # (d) DropHandle only under what.handles()
        sites = []
        for p, f in core.fns.items():
            for b, i, rv, s in f.aggregates("Instruction", "DropHandle"):
                sites.append((f, b))
        rep.floor("R3.2", "sites constructing Instruction::DropHandle", len(sites), 2)
        for f, b in sites:
            own = mode_param(f)
            sw = []
            for sb, ft, tt in bool_switches_on_call(f, "Deallocate::handles"):
                o = f.switch_origin(sb)
                while o.get("kind") == "un":
                    o = o["a"]
                r = f.origin(o["call"].args[0])
                if r.get("kind") == "arg" and r.get("n") == own:
                    sw.append((sb, tt))
            ok = own is not None and bool(sw) and b not in f.reachable(0, avoid_edges=sw)
            nm = noidx(f.npath)
            rep.ob("R3.2", f"{nm}: DropHandle is emitted only on a true edge of what.handles()", ok,
                   f"{len(sw)} handles() test(s) on the function's own mode; the site is reachable without passing one"
                   if not ok else "", f.loc(b))
            rep.ob("R3.2", f"{nm}: DropHandle is emitted by one of the two walkers",
                   any(mir.suffix_match(f.npath, k) for k in ("Generator::deallocate", "Generator::deallocate_indirect")), "", f.loc(b))
    rep.guard("R3.2", "ownership mode", r32)

    # ---------------------------------------------------------------- R3.5 walker shapes (each part fails closed on its own)
    cD, cI = classify_D(V), classify_I(V)

    def s_early_return():
        # deallocate_indirect returns early exactly when its own (ty, what) own nothing
        mI = core.method("Generator", "deallocate_indirect")
        sw = bool_switches_on_call(mI, "abi::needs_deallocate")
        ok = len(sw) == 1
        det = f"{len(sw)} test(s) of needs_deallocate"
        if ok:
            sb, ft, tt = sw[0]
            cl = mI.switch_origin(sb)
            while cl.get("kind") == "un":
                cl = cl["a"]
            cl = cl["call"]
            oty, owh = mI.origin(cl.args[1]), mI.origin(cl.args[2])
            region = mI.edge_region(sb, tt)
            others = [c.bb for c in mI.calls() if c.bb != cl.bb]
            skipped = mI.edge_region(sb, ft)
            typ = [i for i in range(1, mI.argc + 1) if mI.locals[i].startswith("&") and mI.locals[i].split("::")[-1] == "Type"]
            ok = oty.get("kind") == "arg" and [oty.get("n")] == typ and owh.get("kind") == "arg" and owh.get("n") == mode_param(mI) \
                and all(b in region for b in others) and not [c for c in mI.calls() if c.bb in skipped]
            det = f"ty from {oty.get('kind')}#{oty.get('n')}, mode from {owh.get('kind')}#{owh.get('n')}, " \
                  f"{len([b for b in others if b not in region])} call(s) outside the needs_deallocate=true region"
        rep.ob("R3.5", "deallocate_indirect does nothing iff needs_deallocate(ty, what) is false for its own arguments", ok, det, mI.loc())

    def s_mem_to_flat():
        # memory -> flat: pointer + length are loaded, then the pair goes to `deallocate` of the same type
        for key in FREE_OF:
            a = tI.per_mode(key, cI)["Lists"][1]
            mv, cv = inline_view(a.body, V, rI)
            made = [n for n, _, _ in mv]
            dc = [render(m["args"], rn) for nm_, m, rn in cv if nm_ == "deallocate"]
            rep.ob("R3.5", f"I({key}) loads pointer then length and hands them to deallocate(ty, what)",
                   made == ["PointerLoad", "LengthLoad"] and dc == ["$ty, $what"] and [c[0] for c in cv][-1:] == ["deallocate"],
                   f"constructs {made}, deallocate({dc})", fI.loc(a.node))

    def s_elements_first():
        # list / map: the elements are released inside the block, before the buffer itself
        for key, kids in (("TypeDefKind::List", 1), ("TypeDefKind::Map", 2)):
            a = tD.per_mode(key, cD)["Lists"][1]
            ren = dict(rD, **arm_binds(a))
            mv, cv = inline_view(a.body, V, ren)
            made = [(n, node) for n, node, _ in mv]
            calls = [c[0] for c in cv]
            want = ["push_block", "emit"] + ["deallocate_indirect"] * kids + ["finish_block", "emit"]
            calls_c = [c for c in calls if c in set(want)]
            rec = [[render(x, rn) for x in m["args"]] for nm_, m, rn in cv if nm_ == "deallocate_indirect"]
            kids_ok = len(rec) == kids and [r[0] for r in rec] == [f"$b{i}" for i in range(kids)] and all(r[-1] == "$what" for r in rec)
            fr = [(node, rn) for n, node, rn in mv if n == FREE_OF[key]]
            fields_ok = len(fr) == 1 and sorted(render(x["e"], fr[0][1]) for x in fr[0][0].get("fields", [])) == [f"$b{i}" for i in range(kids)]
            rep.ob("R3.5", f"D({key}): element block (IterBasePointer, children) is closed before the one {FREE_OF[key]} of the same types",
                   calls_c == want and [n for n, _ in made] == ["IterBasePointer", FREE_OF[key]] and kids_ok and fields_ok,
                   f"self calls {calls_c}, constructs {[n for n, _ in made]}, children {rec}", fD.loc(a.node))

    def s_variant_blocks():
        # variants: one block per case
        for t, f_, cl, roles, nm in ((tD, fD, cD, rD, "D"), (tI, fI, cI, rI, "I")):
            for key, want in (("TypeDefKind::Variant", "$b0.cases.len()"), ("TypeDefKind::Option", "2"), ("TypeDefKind::Result", "2")):
                a = t.per_mode(key, cl)["Lists"][1]
                ren = dict(roles, **arm_binds(a))
                gv = [field_expr(node, "blocks", rn) for n, node, rn in inline_view(a.body, V, ren)[0] if n == "GuestDeallocateVariant"]
                rep.ob("R3.5", f"{nm}({key}) closes with GuestDeallocateVariant over {want} blocks", gv == [want], f"{gv}", f_.loc(a.node))
        fv = synq.find_fn(ABI, "deallocate_indirect_variant", self_ty="Generator")
        rep.saw(f"{ABI}::{fv.name}")
        loops = [n for n in synq.walk(fv.body) if n.get("k") == "for"]
        ok = len(loops) == 1
        if ok:
            lp = loops[0]
            sc = self_calls(lp["body"])
            ok = sc == ["push_block", "deallocate_indirect", "finish_block"] and "$p4" in render(lp["iter"], synq.param_roles(fv)) \
                and not [c for c in self_calls(fv.body) if c in ("push_block", "finish_block")][2:]
        rep.ob("R3.5", "deallocate_indirect_variant opens and closes exactly one block per case", ok,
               f"{[self_calls(l['body']) for l in loops]}", fv.loc())

    def s_handle_drop():
        # handles: the handle is lifted / read, then dropped
        for t, f_, cl, roles, nm, first, args in ((tD, fD, cD, rD, "D", "lift", "$ty"), (tI, fI, cI, rI, "I", "read_from_memory", "$ty, $addr, $offset")):
            for key in ("TypeDefKind::Handle(Handle::Own)", "TypeDefKind::Future", "TypeDefKind::Stream"):
                a = t.per_mode(key, cl)["ListsAndOwn"][1]
                if a is None:
                    continue
                mv, cv = inline_view(a.body, V, roles)
                sc = [c[0] for c in cv]
                got = [render(m["args"], rn) for nm_, m, rn in cv if nm_ == first]
                dh = [field_expr(node, "ty", rn) for n, node, rn in mv if n == "DropHandle"]
                rep.ob("R3.5", f"{nm}({key}) [ListsAndOwn]: {first}({args}) then DropHandle of the same type",
                       sc == [first, "emit"] and got == [args] and dh == ["$ty"], f"{sc} {got} {dh}", f_.loc(a.node))

    def s_in_types():
        # deallocate_in_types: memory walk under `indirect`, flat walk otherwise
        mT = core.method("Generator", "deallocate_in_types")
        ind = [i for i in range(1, mT.argc + 1) if mT.locals[i] == "bool"]
        for callee, edge in (("Generator::deallocate_indirect", ["else"]), ("Generator::deallocate", [0])):
            cls = mT.calls(callee)
            ok = len(cls) == 1 and len(ind) == 1 and any(o.get("kind") == "arg" and o.get("n") == ind[0] and vals == edge
                                                          for b, vals, o in mT.guard_edges(cls[0].bb))
            rep.ob("R3.5", f"deallocate_in_types: {callee.split('::')[-1]} runs on the indirect={'true' if edge == ['else'] else 'false'} edge",
                   ok, f"{len(cls)} call(s)", mT.loc(cls[0].bb) if cls else mT.loc())

    def s_post_return_shape():
        # post_return: argument 0 is the return pointer, the walked types are the result, nothing is returned
        fp = synq.find_fn(ABI, "post_return", self_ty="Generator")
        rp = synq.param_roles(fp)
        made = [(n, node) for n, node in synq.constructed(fp.body, V)]
        ga = [field_expr(node, "nth") for n, node in made if n == "GetArg"]
        rt = [field_expr(node, "amt") for n, node in made if n == "Return"]
        # the collection handed to deallocate_in_types, resolved through its `let` and what is added to it
        ext = []
        for m in synq.method_calls(fp.body, "deallocate_in_types"):
            if m["args"]:
                ext += [render(b, rp) for b in collection_sources(fp.body, m["args"][0])]
        rep.ob("R3.5", "post_return: GetArg 0, walks func.result, Return amt 0, in this order",
               [n for n, _ in made] == ["GetArg", "Return"] and ga == ["0"] and rt == ["0"] and ext == ["$func.result"] and
               self_calls(fp.body) == ["emit", "deallocate_in_types", "emit"], f"{[n for n, _ in made]} {ga} {rt} {ext} {self_calls(fp.body)}", fp.loc())

    def s_predicates():
        # the two public predicates
        for nm, member in (("guest_export_needs_post_return", "result"), ("guest_export_params_have_allocations", "params")):
            g = synq.find_fn(ABI, nm)
            rep.saw(f"{ABI}::{nm}")
            rg = synq.param_roles(g)
            fname = [k for k, v in rg.items() if v == "$func"]
            mem = members_of(g.body, set(fname))
            neg = [n for n in synq.walk(g.body) if n.get("k") == "unary" and n["op"] == "!"]
            dflt = [render(m["args"][0]) for m in synq.method_calls(g.body, ("unwrap_or", "map_or")) if m["args"]]
            calls = synq.fn_calls(g.body, "needs_deallocate")
            for mt in synq.matches_in(g.body):      # written as `match func.result { Some(t) => .., None => false }`
                for a in synq.arms(mt):
                    if any(synq.short(hd) in ("None", "_") for hd in a.heads):
                        dflt.append(render(only_expr(a.body)))
            rep.ob("R3.5", f"{nm} = needs_deallocate over func.{member} (not negated, absent result = false)",
                   mem == {member} and not neg and len(calls) == 1 and all(d == "false" for d in dflt) and
                   not synq.method_calls(g.body, ("is_none_or", "all", "is_none", "is_empty")),
                   f"reads func.{sorted(mem)}, {len(neg)} negation(s), default {dflt}", g.loc())

    for part in (s_early_return, s_mem_to_flat, s_elements_first, s_variant_blocks, s_handle_drop, s_in_types, s_post_return_shape, s_predicates):
        rep.guard("R3.5", "walker shapes: " + part.__name__[2:], part)
    return V


# ================================================================================================ backends
BACKENDS = {
    "rust": dict(crate="wit_bindgen_rust", gen=["crates/rust/src/interface.rs"], emit="crates/rust/src/bindgen.rs",
                 free=r"\{dealloc\}\(", post_return=1, names=1, pairs=12, frees=3),
    "c": dict(crate="wit_bindgen_c", gen=["crates/c/src/lib.rs"], emit="crates/c/src/lib.rs", free=r"\bfree\(",
              post_return=1, names=1, pairs=0, frees=3),
    "cpp": dict(crate="wit_bindgen_cpp", gen=["crates/cpp/src/lib.rs"], emit="crates/cpp/src/lib.rs",
                free=r"\b(?:free|drop_raw)\(", post_return=1, names=3, pairs=6, frees=3),
    "csharp": dict(crate="wit_bindgen_csharp", gen=["crates/csharp/src/interface.rs"], emit="crates/csharp/src/function.rs",
                   free=r"NativeMemory\.Free\(", post_return=1, names=1, pairs=6, frees=3),
    "moonbit": dict(crate="wit_bindgen_moonbit", gen=["crates/moonbit/src/lib.rs"], emit="crates/moonbit/src/lib.rs",
                    free=r"\bmbt_ffi_free\(", post_return=1, names=1, pairs=6, frees=3),
    "d": dict(crate="wit_bindgen_d", gen=["crates/d/src/lib.rs"], emit="crates/d/src/lib.rs", free=r"\bfree\(",
              post_return=1, names=3, pairs=3, frees=2),
    "go": dict(crate="wit_bindgen_go", gen=["crates/go/src/lib.rs"], emit="crates/go/src/lib.rs", free=None,
               post_return=0, names=1, pairs=2, frees=0),
}
QUICK_BACKENDS = ["rust", "c"]
PRED = "abi::guest_export_needs_post_return"
EDGES_MIN = 14


def walk_ifs(root):
    """pre-order (node, chain); chain = ((if_node, 'then'|'else'), ..) of the enclosing `if`s, outermost first"""
    st = [(root, ())]
    while st:
        n, ch = st.pop()
        if isinstance(n, list):
            for v in reversed(n):
                st.append((v, ch))
        elif isinstance(n, dict):
            yield n, ch
            if n.get("k") == "if":
                if n.get("else") is not None:
                    st.append((n["else"], ch + ((n, "else"),)))
                st.append((n["then"], ch + ((n, "then"),)))
                st.append((n["cond"], ch))
                continue
            for v in reversed([v for v in n.values() if isinstance(v, (dict, list))]):
                st.append((v, ch))


def conjuncts(c):
    while c.get("k") == "paren":
        c = c["e"]
    if c.get("k") == "binary" and c["op"] == "&&":
        return conjuncts(c["l"]) + conjuncts(c["r"])
    return [c]


def canon(c, roles):
    if c.get("k") == "macro" and synq.short(c["name"]) == "matches" and "expr" in c:
        return f"matches!({render(c['expr'], roles)}, {synq.pat_head(c['pat'])})"
    if c.get("k") == "unary" and c["op"] == "!":
        return "!" + canon(c["e"], roles)
    return render(c, roles)


def is_pred(c, roles):
    return c.get("k") == "call" and c["func"].get("k") == "path" and synq.short(c["func"]["path"]) == "guest_export_needs_post_return" \
        and len(c["args"]) == 2 and render(c["args"][1], roles) == "$func"


def guard_sig(fn, chain):
    """(under_predicate, signature) of a site: the predicate-bearing `if` with its other conjuncts, and bool-parameter tests"""
    roles = synq.param_roles(fn)
    bools = {p["pat"]["name"] for p in fn.node["sig"]["params"]
             if not p.get("self") and p["pat"].get("k") == "p_ident" and p["ty"].replace(" ", "") == "bool"}
    under, sig = False, []
    lets = {nm: init for nm, init, st in synq.bindings(fn.body) if init is not None and st["pat"].get("k") == "p_ident"}
    for ifn, br in chain:
        cj = []
        for c in conjuncts(ifn["cond"]):    # a condition computed into a local beforehand is looked through
            if c.get("k") == "path" and c["path"] in lets and c["path"] not in bools:
                cj += conjuncts(lets[c["path"]])
            else:
                cj.append(c)
        if br == "then" and any(is_pred(c, roles) for c in cj):
            under = True
            sig.append("P(func)" + "".join(" && " + x for x in sorted(canon(c, roles) for c in cj if not is_pred(c, roles))))
        elif len(cj) == 1 and cj[0].get("k") == "path" and cj[0]["path"] in bools:
            sig.append(("" if br == "then" else "!") + "$bool-param")
    return under, sorted(sig)


def naming_sites(fn):
    """nodes that name / announce the post-return entry point"""
    out = []
    for n, ch in walk_ifs(fn.body):
        k = n.get("k")
        if k == "str" and "cabi_post_" in n["v"]:
            out.append(("export name `" + re.sub(r"\s+", " ", n["v"].strip())[:60] + "`", n, ch))
        elif k == "path" and n["path"].endswith("WasmExportKind::PostReturn"):
            out.append(("WasmExportKind::PostReturn", n, ch))
        elif k == "assign" and n["l"].get("k") == "field" and n["l"]["member"] == "post_return":
            out.append((f"`{render(n)}`", n, ch))
    return out


def print_sites(fn, node, depth=3):
    """If `node` only builds a string into a local (`let x = format!(.. node ..)`), the places where that local reaches
    generated text: templates with a hole for it, or other uses outside a `let`; locals built from it are followed.
    Returns [(site node, if-chain)]; empty when the string is not let-bound (it is printed where it stands)."""
    chains = {id(n): ch for n, ch in walk_ifs(fn.body)}
    lets = [(nm, init, st) for nm, init, st in synq.bindings(fn.body) if init is not None and st["pat"].get("k") == "p_ident"]

    def holder(n):
        for nm, init, st in lets:
            if any(x is n for x in synq.walk(init)):
                return nm, st
        return None

    out, todo, seen = [], [], set()
    h = holder(node)
    if h is None:
        return []
    todo.append((h[0], h[1], depth))
    while todo:
        name, st, d = todo.pop()
        if (name, id(st)) in seen:
            continue
        seen.add((name, id(st)))
        uses = []
        for fm in synq.fmts(fn.body):
            if fm.template_node is not None and any(kind == "name" and key == name and e is None for kind, key, e, off in fm.hole_exprs()):
                uses.append(fm.template_node)
        for n in synq.walk(fn.body):
            if n.get("k") == "path" and n["path"] == name and not any(x is n for x in synq.walk(st)):
                uses.append(n)
        for u in uses:
            h2 = holder(u)
            if h2 is not None and h2[1] is not st and d > 0:
                todo.append((h2[0], h2[1], d - 1))
            elif h2 is None or h2[1] is not st:
                out.append((u, chains.get(id(u), ())))
    return out


def backend_r33(rep, be, cfg):
    # ---- MIR: the call that generates the post-return body
    c = mir.load("ws", cfg["crate"], "rlib")
    sites = [(f, cl) for f in c.fns.values() for cl in f.calls("abi::post_return")]
    rep.floor("R3.3", f"{be}: calls of abi::post_return", len(sites), cfg["post_return"])
    for f, cl in sites:
        rep.saw(f)
        nm = f"{be}: {f.npath.split('::')[-1]}"
        fplace = f.origin(cl.args[1]).get("place")
        sw = []
        for sb, ft, tt in bool_switches_on_call(f, PRED):
            o = f.switch_origin(sb)
            while o.get("kind") == "un":
                o = o["a"]
            if fplace is not None and f.origin(o["call"].args[1]).get("place") == fplace:
                sw.append((sb, tt))
        guarded = [(sb, tt) for sb, tt in sw if cl.bb not in f.reachable(0, avoid_edges=[(sb, tt)])]
        rep.ob("R3.3", f"{nm}: abi::post_return(func) only on the true edge of guest_export_needs_post_return(func)",
               bool(guarded), f"{len(sw)} test(s) of the predicate on the same function; the call is reachable without passing "
               "a true edge" if not guarded else "", f.loc(cl.bb))
        total = any(f.all_paths_pass(tt, f.returns(), {cl.bb}) for sb, tt in guarded)
        rep.ob("R3.3", f"{nm}: every path of the predicate's true edge generates the post-return (exactly once)",
               total and not f.in_cycle(cl.bb), "a path from the true edge returns without calling abi::post_return, or the call "
               "sits in a loop" if not (total and not f.in_cycle(cl.bb)) else "", f.loc(cl.bb))
    # ---- syntax: everything that names the entry point sits under the same predicate
    nsites, ref = [], None
    for rel in cfg["gen"]:
        rep.saw(file=rel)
        for fn in synq.all_fns(rel):
            if fn.body is None or fn.name == "emit":
                continue
            for desc, n, ch in naming_sites(fn):
                nsites.append((fn, desc, n, ch))
            for n, ch in walk_ifs(fn.body):
                if n.get("k") == "call" and n["func"].get("k") == "path" and n["func"]["path"].endswith("abi::post_return"):
                    ref = guard_sig(fn, ch)
    # nested fns are listed by all_fns and again inside their parent: keep one per source position
    uniq = {}
    for fn, desc, n, ch in nsites:
        uniq.setdefault(tuple(n["sp"]), (fn, desc, n, ch))
    nsites = list(uniq.values())
    rep.floor("R3.3", f"{be}: sites naming the post-return entry point", len(nsites), cfg["names"])
    for fn, desc, n, ch in nsites:
        under, sig = guard_sig(fn, ch)
        det = "no enclosing `if` tests the predicate for this function"
        if not under:
            # the name is only built here (`let sym = format!(..)`): what matters is where it is printed
            prints = print_sites(fn, n)
            if prints:
                sigs = [guard_sig(fn, pch) for pn, pch in prints]
                under = all(u for u, _ in sigs)
                sig = sigs[0][1] if len({tuple(x) for _, x in sigs}) == 1 else ["(print sites differ)"]
                det = f"built into a local and printed at {len(prints)} site(s), not all under the predicate"
        rep.ob("R3.3", f"{be}: {fn.name}: {desc} only under guest_export_needs_post_return(func)", under,
               det if not under else "", fn.loc(n))
        if ref is not None and under:
            rep.ob("R3.3", f"{be}: {fn.name}: {desc} is guarded like the abi::post_return call", sig == ref[1],
                   f"site: {sig}; abi::post_return: {ref[1]}", fn.loc(n))


def rust_modes(rep):
    """R3.2 in the Rust backend: which cleanup mode ends up in which generated function."""
    rel = "crates/rust/src/interface.rs"
    c = mir.load("ws", "wit_bindgen_rust", "rlib")
    WR = {"deallocate_lists": "abi::deallocate_lists_in_types", "deallocate_lists_and_own": "abi::deallocate_lists_and_own_in_types"}
    for w, callee in WR.items():
        f = c.method("InterfaceGenerator", w)
        rep.saw(f)
        got = sorted({cl.callee.split("::")[-1] for cl in f.calls(list(WR.values()))})
        rep.ob("R3.2", f"rust: InterfaceGenerator::{w} forwards to {callee}", got == [callee.split("::")[-1]], f"calls {got}", f.loc())
    nsite = 0
    for fn in synq.all_fns(rel):
        if fn.body is None:
            continue
        src = {}   # local name -> wrapper it was computed with
        for nm, init, st in synq.bindings(fn.body):
            if init is not None and init.get("k") == "mcall" and init["method"] in WR and render(init["recv"]) == "self":
                src[nm] = init["method"]
        for n in synq.walk(fn.body):
            if n.get("k") == "assign" and n["l"].get("k") == "path" and n["r"].get("k") == "mcall" and n["r"]["method"] in WR \
                    and render(n["r"]["recv"]) == "self":
                src[n["l"]["path"]] = n["r"]["method"]
        if not src:
            continue
        fl = [fm for fm in synq.fmts(fn.body) if fm.template is not None]
        for i, fm in enumerate(fl):
            mm = re.search(r"fn (\w*dealloc_lists\w*)\(", fm.template)
            if not mm:
                continue
            holes = [(key, e) for kind, key, e, off in fm.hole_exprs() if off > mm.end()]
            if i + 1 < len(fl):
                holes += [(key, e) for kind, key, e, off in fl[i + 1].hole_exprs()]
            used = [src[k] for k, e in holes if e is None and k in src] + \
                   [src[e["path"]] for k, e in holes if e is not None and e.get("k") == "path" and e["path"] in src]
            want = "deallocate_lists_and_own" if "_and_own" in mm.group(1) else "deallocate_lists"
            nsite += 1
            rep.ob("R3.2", f"rust: generated `{mm.group(1)}` gets the body computed by {want}", used[:1] == [want],
                   f"body comes from {used[:1]}", fn.loc(fm.node))
    rep.floor("R3.2", "rust: generated dealloc_lists functions", nsite, 3)


# ---------------------------------------------------------------- R3.4 / R3.6 templates of the Bindgen::emit arms
QUANT = ("format", "format_term", "size_wasm32", "align_wasm32")
FIELD_ROLE = {"element": "$element", "key": "$key", "value": "$value", "ty": "$tyid", "realloc": "$realloc", "size": "$size",
              "align": "$align"}


def arm_ren(arm):
    """local name -> canonical text: pattern fields get roles, simple `let x = e` are inlined in source order"""
    ren = {}
    for alt in arm.alts:
        if alt.get("k") == "p_struct":
            for fld in alt["fields"]:
                if fld["pat"].get("k") == "p_ident":
                    ren[fld["pat"]["name"]] = FIELD_ROLE.get(fld["name"], "$" + fld["name"])
    for nm, init, st in synq.bindings(arm.body):
        if init is not None and st["pat"].get("k") == "p_ident" and st["pat"]["name"] == nm:
            ren[nm] = render(init, ren)
    return ren


def qkind(s):
    """size / align / None for a rendered quantity"""
    if "{" in s or " " in s.replace(", ", ","):
        return None     # not a plain method chain
    if re.search(r"\.size(\([^()]*\))?\.(%s)\([^()]*\)$" % "|".join(QUANT), s):
        return "size"
    if re.search(r"\.align(\([^()]*\))?\.(%s)\([^()]*\)$" % "|".join(QUANT), s):
        return "align"
    return None


def quantities(arm, ren):
    out = {"size": set(), "align": set()}
    for m in synq.method_calls(arm.body, QUANT):
        s = render(m, ren)
        k = qkind(s)
        if k and not re.search(r"(%s)\([^()]*\)\.(%s)\(" % ("|".join(QUANT), "|".join(QUANT)), s):
            out[k].add(re.sub(r"\.iter\(\)\.copied\(\)", "", s))
    return out


def hole_text(fm, kind, key, e, ren):
    if e is not None:
        return render(e, ren)
    return ren.get(key, "{" + str(key) + "}") if kind == "name" else None


def arm_templates(arm):
    """format-like macros of the arm with a literal template, source order"""
    return [fm for fm in synq.fmts(arm.body) if fm.template is not None]


def explicit_arm(m, name):
    a = synq.arm_for(m, "Instruction::" + name)
    return a if a is not None and "_" not in a.heads else None


def backend_r34(rep, be, cfg):
    rel = cfg["emit"]
    rep.saw(file=rel)
    cands = [f for f in synq.all_fns(rel) if f.name == "emit" and f.body is not None and f.trait == "Bindgen"]
    if len(cands) != 1:
        raise AnchorMissing(f"{rel}: `impl Bindgen .. fn emit`: {len(cands)} candidates")
    f = cands[0]
    rep.saw(f"{rel}::emit")
    ms = [x for x in synq.matches_in(f.body) if len([h for a in synq.arms(x) for h in a.heads if "Instruction::" in h]) >= 20]
    if len(ms) != 1:
        raise AnchorMissing(f"{rel}: emit: {len(ms)} `match` tables over Instruction")
    m = ms[0]
    arms = {n: explicit_arm(m, n) for n in ("ListLower", "ListLift", "GuestDeallocateList", "MapLower", "MapLift",
                                            "GuestDeallocateMap", "GuestDeallocateString")}
    rens = {n: arm_ren(a) for n, a in arms.items() if a is not None}
    qs = {n: quantities(a, rens[n]) for n, a in arms.items() if a is not None}
    ncmp = 0
    for grp, own in ((("ListLower", "ListLift", "GuestDeallocateList"), ["$element"]),
                     (("MapLower", "MapLift", "GuestDeallocateMap"), ["$key", "$value"])):
        lo, li, de = grp
        for a_, b_ in ((de, lo), (de, li), (li, lo)):
            if arms.get(a_) is None or arms.get(b_) is None:
                continue
            for k in ("size", "align"):
                x, y = qs[a_][k], qs[b_][k]
                if not x or not y:
                    continue
                ncmp += 1
                rep.ob("R3.4", f"{be}: {k} expression of {a_} = {k} expression of {b_}", x == y and len(x) == 1,
                       f"{a_}: {sorted(x)}; {b_}: {sorted(y)}", f.loc(arms[a_].node))
        for n in grp:
            if arms.get(n) is None:
                continue
            for k in ("size", "align"):
                if qs[n][k]:
                    rep.ob("R3.4", f"{be}: {n}: the {k} is that of the instruction's own {'/'.join(o[1:] for o in own)}",
                           all(o in s for s in qs[n][k] for o in own), f"{sorted(qs[n][k])}", f.loc(arms[n].node))
            # a count is only ever multiplied by a size
            scaled, seen_align = [], 0
            for fm in arm_templates(arms[n]):
                for kind, key, e, off in fm.hole_exprs():
                    t = hole_text(fm, kind, key, e, rens[n])
                    if t is None or qkind(t) != "align":
                        continue
                    seen_align += 1
                    before = fm.template[:off]
                    after = fm.template[fm.template.index("}", off) + 1:]
                    if re.search(r"\*\s*\(?$", before) or re.search(r"^\)?\s*\*", after):
                        scaled.append(re.sub(r"\s+", " ", fm.template.strip())[:70])
            if seen_align:
                rep.ob("R3.4", f"{be}: {n}: an alignment is never scaled by the element count", not scaled,
                       f"{seen_align} alignment hole(s); scaled in {scaled}", f.loc(arms[n].node))
    rep.floor("R3.4", f"{be}: allocation/free expression pairs compared", ncmp, cfg["pairs"])
    if be == "rust":
        # cabi_dealloc(ptr, len * size, align) / Layout::from_size_align(len * size, align)
        nsite = 0
        for n in ("ListLower", "MapLower", "ListLift", "MapLift", "GuestDeallocateList", "GuestDeallocateMap"):
            for fm in arm_templates(arms[n]):
                mm = re.search(r"\* \{(\w*)\}, \{(\w*)\}\)", fm.template)
                if not mm:
                    continue
                hs = {off: hole_text(fm, kind, key, e, rens[n]) for kind, key, e, off in fm.hole_exprs()}
                a1, a2 = hs.get(mm.start(1) - 1), hs.get(mm.start(2) - 1)
                nsite += 1
                rep.ob("R3.4", f"rust: {n}: byte size = count * size, then the alignment", a1 is not None and a2 is not None and
                       qkind(a1) == "size" and qkind(a2) == "align", f"`{fm.template.strip()[:60]}` with {a1} / {a2}", f.loc(fm.node))
        rep.floor("R3.4", "rust: (count * size, align) templates", nsite, 6)
        a = arms["GuestDeallocateString"]
        tm = [fm.template for fm in arm_templates(a) if re.search(cfg["free"], fm.template)]
        rep.ob("R3.4", "rust: GuestDeallocateString frees (ptr, len, align 1) like the byte vector StringLower leaks",
               len(tm) == 1 and re.search(r"\(\{\w*\}, \{\w*\}, 1\)", tm[0]) is not None, f"{tm}", f.loc(a.node))
    # ---- R3.6 the buffer is released exactly once, it is operand 0, and only after the element block was emitted
    if cfg["free"] is None:
        return
    nfree = 0
    for n in ("GuestDeallocateString", "GuestDeallocateList", "GuestDeallocateMap"):
        a = arms.get(n)
        if a is None:
            continue
        ren = rens[n]
        strs = [s for s in synq.strings(a.body)]
        hits = [(s, mm) for s in strs for mm in re.finditer(cfg["free"], s["v"])]
        ok = len(hits) == 1
        det = f"{len(hits)} free template(s)"
        after_body = True
        if ok:
            s, mm = hits[0]
            fm = [x for x in arm_templates(a) if x.template_node is s]
            ptr = None
            if fm:
                hs = [(off, hole_text(fm[0], kind, key, e, ren), key) for kind, key, e, off in fm[0].hole_exprs() if off >= mm.end() - 1]
                if hs:
                    off, ptr, key = hs[0]
                    if ptr is not None and "operands" not in ptr:
                        # a generated-code variable: find the template that defines it from an operand
                        for d in arm_templates(a):
                            dm = re.search(r"\{%s\}\s*=\s*\{(\w*)\}" % re.escape(str(key)), d.template)
                            if dm:
                                dh = {o: hole_text(d, k_, ky, e_, ren) for k_, ky, e_, o in d.hole_exprs()}
                                ptr = dh.get(dm.start(1) - 1)
            ok = ptr is not None and ptr.lstrip("&") == "operands[0]"
            det = f"released pointer is `{ptr}`"
            if n != "GuestDeallocateString":
                blk = set()
                for nm_, init, st in synq.bindings(a.body):
                    if init is not None and "self.blocks.pop()" in render(init):
                        blk.add(nm_)
                emits = []
                for fm_ in arm_templates(a):
                    if any((e is None and key in blk) or (e is not None and e.get("k") == "path" and e["path"] in blk)
                           or (e is not None and any(x.get("k") == "path" and x["path"] in blk for x in synq.walk(e)))
                           for kind, key, e, off in fm_.hole_exprs()):
                        emits.append(tuple(fm_.node["sp"][:2]))
                for mc in synq.method_calls(a.body, "push_str"):
                    if any(x.get("k") == "path" and x["path"] in blk for arg in mc["args"] for x in synq.walk(arg)):
                        emits.append(tuple(mc["sp"][:2]) if "sp" in mc else (0, 0))
                after_body = bool(emits) and max(emits) < tuple(s["sp"][:2])
                det += f"; element block emitted at {len(emits)} site(s)"
        nfree += 1
        rep.ob("R3.6", f"{be}: {n} releases operand 0, exactly once", ok, det, f.loc(a.node))
        if n != "GuestDeallocateString":
            rep.ob("R3.6", f"{be}: {n} emits the element block, and frees the buffer only after it", ok and after_body, det, f.loc(a.node))
    rep.floor("R3.6", f"{be}: GuestDeallocate arms with a free", nfree, cfg["frees"])


def run(rep, tier):
    rep.describe(
        "other",
        "Structural clauses of C03. Core (crates/core/src/abi.rs): the ownership predicate needs_deallocate (N) and the "
        "two walkers deallocate (D, flat operands) and deallocate_indirect (I, memory) are classified arm by arm over "
        "the Type/TypeDefKind domain read from wit-parser; N must be the class the property assigns to the kind and D, I "
        "must do what N promises in both modes, visiting every child (R3.1). The mode constant is created only at the "
        "five entry points with the right value, is threaded unchanged through every walker call and closure, "
        "DropHandle exists only on a true edge of what.handles(), and the Rust backend puts each mode into the "
        "generated function of that name (R3.2). Walker shapes: early return iff N is false for the same arguments, "
        "pointer+length load, element block closed before the buffer free, one block per case, read/lift before "
        "DropHandle, post_return = GetArg 0 / result / Return 0, the two public predicates (R3.5). Backends (rust, c "
        "quick; cpp, csharp, moonbit, d, go thorough): every abi::post_return call is reachable only through the true "
        "edge of guest_export_needs_post_return for the same function and is reached on every path of that edge, once; "
        "every string / path / field that names the post-return entry point is under the same predicate with the same "
        "side conditions (R3.3). Size / alignment / stride expressions of GuestDeallocateList/Map equal those of "
        "ListLower/MapLower and ListLift/MapLift and belong to the instruction's own element / key+value; an alignment "
        "is never scaled by the count; Rust's cabi_dealloc gets (ptr, len * size, align) (R3.4). Each "
        "GuestDeallocate{String,List,Map} template releases operand 0 exactly once, after emitting the element block "
        "(R3.6). NOT decided: balance for a concrete value, the condition under which a backend skips an empty element "
        "block, SizeAlign (wit-parser), the target languages' allocators, that flat_types/field_offsets describe the "
        "lowered layout (C01), async exports (no post-return by construction of the backends; not checked).",
        trusted_base=["syn parse of the generator sources", "rustc MIR of the workspace crates (native target)",
                      "wit-parser enum definitions (kind domain) and SizeAlign",
                      "class table EXPECT_N in rules/C03.py (transcribes the property statement)",
                      "per-backend name of the free primitive (BACKENDS[..]['free'] in rules/C03.py)"],
        assumptions=["a kind owns heap data iff it is string / list / map or contains one; error-context owns none"],
    )
    rep.rule("R3.1", "consistency matrix N / D / I over every Type and TypeDefKind (both modes), N against the property's class table, "
                     "children coverage")
    rep.rule("R3.2", "ownership mode: constants only at the 5 entry points, threaded unchanged, DropHandle only under what.handles(); "
                     "Rust: generated *_dealloc_lists[_and_own] bodies come from the wrapper of the same mode")
    rep.rule("R3.3", "post-return generated (abi::post_return call, export names) exactly on the true edge of "
                     "guest_export_needs_post_return(func), per backend")
    rep.rule("R3.4", "size / alignment / stride expressions agree between allocation (ListLower/MapLower), lift-side free and "
                     "GuestDeallocateList/Map, per backend")
    rep.rule("R3.5", "shapes of the walkers' arms and of post_return / the two public predicates")
    rep.rule("R3.6", "per backend: GuestDeallocate{String,List,Map} releases operand 0 exactly once, after the element block")
    core_rules(rep)
    for be in (list(BACKENDS) if tier == "thorough" else QUICK_BACKENDS):
        cfg = BACKENDS[be]
        rep.guard("R3.3", f"backend {be}: post-return generation", lambda be=be, cfg=cfg: backend_r33(rep, be, cfg))
        rep.guard("R3.4", f"backend {be}: allocation / free templates", lambda be=be, cfg=cfg: backend_r34(rep, be, cfg))
    rep.guard("R3.2", "backend rust: cleanup mode of the generated functions", lambda: rust_modes(rep))
