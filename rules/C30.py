"""C30 — MoonBit output forms a consistent package graph (structural clauses)."""
import re

from lib import mir, synq
from lib.synq import render
from .rtcommon import bool_switches_on_call, discr_switches, variant_target, is_true_edge

LIB = "crates/moonbit/src/lib.rs"
PKG = "crates/moonbit/src/pkg.rs"
ASY = "crates/moonbit/src/async_support.rs"

CLAIM = dict(
    level="other", engine="mirfacts+synfacts", design="DESIGN.md §5 C30",
    technique="MIR who-may-write / guard-edge / value-origin rules on PkgResolver::qualify_package and "
              "MoonBit::write_moon_pkg, an inter-procedural provenance closure of every package-name argument, and "
              "sibling-expression agreement (syntax tree + MIR) between the import path written to moon.pkg.json and "
              "the directory a package's files are pushed under",
    text="Decides necessary conditions of the package-graph property on the generator's code: the per-package import "
         "table has one writer that looks up before inserting, never inserts the package itself, takes aliases from the "
         "package's own fresh-name generator (C26) and returns exactly the stored alias; moon.pkg.json lists every "
         "entry of that table, sorted, with the path obtained from the package name by '.' -> '/' only; the directory "
         "of every emitted package is computed by the same substitution from the same name that is registered for "
         "look-up and used as the generator's `this`; no case conversion or other string transformation lies between a "
         "WIT name and a package name; async-core is emitted whenever the flags that accompany its references are set. "
         "Partial: no concrete world is generated, MoonBit's own resolution rules are not modelled.",
    note="mir+syn")

# calls that hand a string on unchanged (used when tracing where a package name comes from)
PASS_THROUGH = ["Deref>::deref", "Clone>::clone", "ToString>::to_string", "ToString::to_string", "String::as_str",
                "hint::must_use", "AsRef>::as_ref", "Borrow>::borrow", "ToOwned>::to_owned", "ToOwned::to_owned",
                "From>::from", "Into>::into", "String::as_mut_str", "str::<impl str>::to_string",
                "str::<impl str>::to_owned"]
# string transformations that would break "the WIT name is preserved"
TRANSFORM = re.compile(r"heck::|to_(ascii_)?(lower|upper)case|make_ascii_|to_moonbit_ident|to_moonbit_type_ident|"
                       r"::trim|::strip_prefix|::strip_suffix|::replacen|::replace_range|::truncate|::to_shouty|"
                       r"::to_snake|::to_kebab|::to_upper_camel|::to_lower_camel|::to_title|::to_train")
# iterator adaptors / consumers that keep every element
KEEP_ALL = {"map", "collect", "for_each", "next", "into_iter", "by_ref", "cloned", "copied", "rev", "enumerate",
            "inspect", "size_hint", "fold", "count"}
SORTS = ["slice::<impl [T]>::sort", "slice::<impl [T]>::sort_unstable", "slice::<impl [T]>::sort_by",
         "slice::<impl [T]>::sort_by_key", "slice::<impl [T]>::sort_unstable_by", "slice::<impl [T]>::sort_unstable_by_key"]
VEC_SHRINK = ["Vec::retain", "Vec::truncate", "Vec::pop", "Vec::remove", "Vec::swap_remove", "Vec::drain", "Vec::clear",
              "Vec::dedup", "Vec::dedup_by", "Vec::dedup_by_key", "Vec::split_off", "Vec::retain_mut"]
def mp(*methods):
    """the method(s) on either std map type (the generator has switched containers before)"""
    return [f"{m}::{x}" for m in ("HashMap", "BTreeMap") for x in methods]


MAP_MUT = mp("insert", "entry", "remove", "remove_entry", "clear", "retain", "drain", "extend", "get_mut", "values_mut",
             "iter_mut", "try_insert", "extract_if", "get_many_mut", "get_disjoint_mut", "pop_first", "pop_last", "append",
             "split_off", "first_entry", "last_entry") + ["Extend>::extend", "mem::take", "mem::replace", "mem::swap"]


# ------------------------------------------------------------------------------------------------ MIR helpers
def fields_of(o):
    return [p for p in o.get("proj", []) if isinstance(p, str) and p.startswith(".")]


def peel(f, o, extra=()):
    """Follow calls that pass a string through unchanged down to the value's root origin."""
    seen = 0
    while o.get("kind") == "call" and o["call"].matches(PASS_THROUGH + list(extra)) and o["call"].args and seen < 16:
        o = f.origin(o["call"].args[0])
        seen += 1
    return o


def root_id(f, o):
    """A comparable identity for a peeled origin (no block numbers escape into instance strings)."""
    o = peel(f, o)
    k = o.get("kind")
    if k == "call":
        return ("call", mir.norm(o["call"].callee), o["call"].bb)
    if k == "arg":
        return ("arg", o["n"], tuple(fields_of(o)))
    if k == "const":
        return ("const", o.get("def") or o.get("s") or o.get("v"))
    if k == "place":
        return ("place", o.get("local"))
    return (k,)


def describe(f, o):
    o = peel(f, o)
    k = o.get("kind")
    if k == "call":
        return "result of " + mir.norm(o["call"].callee)
    if k == "arg":
        return f"parameter #{o['n']}{''.join(fields_of(o))}"
    if k == "const":
        return f"constant {o.get('def') or o.get('s')!r}"
    return str(k)


def is_lit(o, text):
    """a `&str` or `char` literal operand equal to `text`"""
    if o.get("kind") != "const":
        return False
    if o.get("s") == text:
        return True
    return "char" in str(o.get("ty")) and o.get("v") == ord(text) and len(text) == 1


def fmt_display_args(f, o):
    """origins of the values formatted by the `format!` whose String result has origin `o` (in hole order)"""
    o = peel(f, o)
    if not (o.get("kind") == "call" and o["call"].matches("fmt::format")):
        return None
    a = f.origin(o["call"].args[0])
    if not (a.get("kind") == "call" and a["call"].matches(["Arguments::new", "Arguments::new_const", "Arguments::new_v1"])):
        return None
    if len(a["call"].args) < 2:
        return []
    arr = f.origin(a["call"].args[1])
    if arr.get("kind") != "agg":
        return None
    out = []
    for op in arr["rv"].get("ops", []):
        d = f.origin(op)
        if not (d.get("kind") == "call" and d["call"].matches(re.compile(r"Argument::<'_>::new_|Argument::new_"))):
            return None
        out.append(f.origin(d["call"].args[0]))
    return out


def imports_place(f, p):
    """is place `p` the field `.packages` / `.ns` of a value of type pkg::Imports? -> field name or None"""
    proj = p.get("p") or []
    flds = [x for x in proj if isinstance(x, str) and x.startswith(".")]
    if not flds or mir.base_type(f.locals[p["l"]]) != "Imports":
        return None
    return flds[0][1:] if flds[0] in (".packages", ".ns") else None


def local_of_ref(f, op):
    """local behind `&mut (*_l).field` / `&(*_l).field` given as an operand"""
    p = op.get("mv") or op.get("cp")
    if p is None:
        return None, None
    ds = [x for x in f.defs.get(p["l"], []) if x[2] == "assign"]
    if len(ds) == 1 and ds[0][3]["k"] in ("ref", "rawptr"):
        inner = ds[0][3]["p"]
        return inner["l"], imports_place(f, inner)
    return None, None


def str_replaces(f):
    return f.calls("str::<impl str>::replace")


def dot_to_slash(f, call):
    return len(call.args) == 3 and is_lit(f.origin(call.args[1]), ".") and is_lit(f.origin(call.args[2]), "/")


def transforms_in(f):
    return [c for c in f.calls() if any(TRANSFORM.search(n) for n in c.names())]


def with_closures(c, f):
    out = [f]
    for g in c.closures_of(f):
        out.append(g)
    return out


# ------------------------------------------------------------------------------------------------ syntax helpers
def lit(e):
    return e.get("v") if isinstance(e, dict) and e.get("k") in ("str", "char") else None


def unraw(s):
    return s.replace("r#", "")


def strip_ref(e):
    while isinstance(e, dict) and e.get("k") in ("ref",):
        e = e["e"]
    return e


def is_dot_slash_replace(e):
    return isinstance(e, dict) and e.get("k") == "mcall" and e["method"] == "replace" and len(e["args"]) == 2 and \
        lit(e["args"][0]) == "." and lit(e["args"][1]) == "/"


def run(rep, tier):
    rep.describe(
        "other",
        "Structural clauses of C30 on crates/moonbit. R30.1 (MIR): Imports.packages and Imports.ns are touched only by "
        "PkgResolver::qualify_package; the insertion lies on the vacant edge of a look-up with the same key, under "
        "`name != this`; the inserted alias is a clone of the result of Ns::tmp on the same Imports value, its base is a "
        "'.'-free segment of the name; both return paths format exactly the stored alias into `@{alias}.`. R30.2 "
        "(MIR+syn): write_moon_pkg iterates imports.packages with element-preserving adaptors only, the closure's path "
        "is key.replace('.', '/') and the alias the value, the list is sorted before it is joined into the output; every "
        "caller passes package_import.get(<package name>). R30.3 (MIR+syn): in each package-emitting callback the "
        "directory, the look-up key, the registered interface name and the generator's `this` are one and the same "
        "value (made unique by interface_ns), every file is pushed under `{directory}/`, the directory is "
        "name.replace('.', '/'); gen, moon.mod.json and async-core likewise. R30.4 (MIR): every `this`/`name` argument "
        "of qualify_package originates, through pass-through calls, parameters, closure captures and generator fields "
        "only, from a registered interface name, world_name, ASYNC_CORE_DIR, gen_dir or the generator's own name; "
        "world_name/interface_name and the emitting callbacks contain no case conversion; qualifier() goes through "
        "qualify_package whenever the owner's package differs from `this`. R30.5 (MIR+syn): async-core is emitted by "
        "finish on every path, unless !is_required(); every reference to it is accompanied by the flags that make "
        "is_required() true. R30.6 (MIR): moon.pkg.json is rendered after the package's generator finished, on every "
        "returning path of the import callbacks and, unless --ignore-stub, of the export callbacks; core's "
        "WorldGenerator::generate never calls an import callback after finish_imports nor anything after finish. "
        "R30.7 (syn + bundled files): no generator source spells a `@pkg.` qualifier literally; the bundled async-core "
        "sources use only aliases their bundled moon.pkg.json declares. R30.8 (MIR+syn): the glue strings recorded for "
        "the link package (MoonBit.export, written to <gen_dir>/ffi.mbt) contain only qualifiers computed relative to "
        "gen_dir, and every such qualifier goes there. NOT decided: that text qualified relative to an interface "
        "package lands in that package's own files (InterfaceGenerator.src/ffi are plain strings), MoonBit's package "
        "resolution itself, that interfaces are visited in dependency order (wit-parser), packages the user keeps "
        "under --ignore-stub, uniqueness of Ns::tmp results (C26).",
        trusted_base=["rustc MIR of wit-bindgen-moonbit", "syn parse of crates/moonbit/src/{lib,pkg,async_support}.rs",
                      "std HashMap / slice::sort / str::replace semantics", "Ns::tmp returns names unique per Ns (C26)",
                      "bundled files crates/moonbit/src/async/* read as data"],
        assumptions=["WIT identifiers contain no '.' or '/'", "wit-parser elaborates worlds so that every interface a "
                     "type refers to is imported or exported before its user"],
    )
    c = mir.load("ws", "wit_bindgen_moonbit", "rlib")
    qp = c.method("PkgResolver", "qualify_package")
    wmp = c.method("MoonBit", "write_moon_pkg")
    rep.saw(qp)
    rep.saw(wmp)
    for rel in (LIB, PKG, ASY):
        rep.saw(file=rel)

    # ================================================================================================ R30.1
    def r1_writers():
        a = c.adt("pkg::Imports")
        fields = dict(a["variants"][0]["fields"])
        rep.ob("R30.1", "Imports = { packages: HashMap<String, String>, ns: Ns }",
               set(fields) == {"packages", "ns"} and "HashMap<std::string::String, std::string::String>" in fields.get("packages", "")
               and fields.get("ns", "").endswith("Ns"), f"{fields}", PKG)
        # Imports values live only inside PkgResolver.package_import (so a place typed Imports is what we look for)
        holders = []
        for path, ad in c.adts.items():
            for v in ad["variants"]:
                for fn_, ty in v["fields"]:
                    if re.search(r"\bImports\b", ty):
                        holders.append((path.split("::")[-1], fn_, ty))
        rep.ob("R30.1", "Imports values are stored only in PkgResolver.package_import (keyed by package name)",
               [(h[0], h[1]) for h in holders] == [("PkgResolver", "package_import")] and
               holders[0][2].startswith("std::collections::HashMap<std::string::String,"), f"{holders}", PKG)
        rep.ob("R30.1", "Imports is not Clone (an import table cannot be forked)", not c.impls_of("Clone", r"\bImports$"),
               "", PKG)
        sd = [it for it in synq.items_of(PKG, ("struct_def",)) if it["name"] == "Imports"]
        rep.ob("R30.1", "Imports.ns is private to pkg.rs", len(sd) == 1 and
               [x["vis"] for x in sd[0]["fields"] if x["name"] == "ns"] == [""], "", PKG)
        nmut = nns = 0
        for f in c.fns.values():
            owner = "::".join(f.npath.split("::")[-2:])
            for b in sorted(f.live):
                for s in f.stmts(b):
                    if s["k"] != "=":
                        continue
                    rv = s["rv"]
                    if rv["k"] in ("ref", "rawptr"):
                        fld = imports_place(f, rv["p"])
                        mut = rv.get("m", rv["k"] == "rawptr")
                        if fld == "packages" and mut:
                            nmut += 1
                            rep.ob("R30.1", f"mutable access to Imports.packages in {owner}", f is qp,
                                   "the import table is written outside qualify_package", f.loc(b))
                        if fld == "ns":
                            nns += 1
                            rep.ob("R30.1", f"access to Imports.ns in {owner}", f is qp,
                                   "the alias namespace is used outside qualify_package", f.loc(b))
                    # whole-field assignment  x.packages = ..
                    fld = imports_place(f, s["p"])
                    if fld is not None and s["p"].get("p") and s["p"]["p"][-1] == "." + fld:
                        nmut += 1
                        rep.ob("R30.1", f"assignment to Imports.{fld} in {owner}", False,
                               "the import table / namespace is overwritten", f.loc(b))
            for b, i, rv, s in f.aggregates("Imports"):
                tr = f.d.get("trait") or ""
                rep.ob("R30.1", f"Imports value constructed in {owner}", tr.endswith("Default"),
                       "an import table is built by hand (aliases not drawn from its namespace)", f.loc(b))
            # a mutable borrow of a whole Imports handed to anything but or_default's result use
            for call in f.calls(["mem::take", "mem::replace", "mem::swap"]):
                if any("Imports" in t for t in call.arg_types):
                    rep.ob("R30.1", f"Imports value replaced wholesale in {owner}", False, "", f.loc(call.bb))
        rep.floor("R30.1", "mutable accesses to Imports.packages", nmut, 1)
        rep.floor("R30.1", "accesses to Imports.ns", nns, 1)
    rep.guard("R30.1", "who may write Imports", r1_writers)

    def r1_body():
        f = qp
        this_n, name_n = 2, 3
        rep.ob("R30.1", "qualify_package(self, this: &str, name: &str)", f.argc == 3 and f.locals[2] == "&str" and f.locals[3] == "&str",
               f"{[f.locals[i] for i in range(1, f.argc + 1)]}", f.loc())
        # the Imports value: package_import.entry(this).or_default()
        od = f.calls(["Entry::or_default", "Entry::or_insert_with", "Entry::or_insert"])
        imp_calls = []
        for x in od:
            e = f.origin(x.args[0])
            if e.get("kind") == "call" and e["call"].matches(mp("entry")) and \
                    ".package_import" in fields_of(f.origin(e["call"].args[0])):
                imp_calls.append((x, e["call"]))
        rep.ob("R30.1", "one import table is selected: package_import.entry(..).or_default()", len(imp_calls) == 1,
               f"{len(imp_calls)} selections", f.loc())
        if len(imp_calls) != 1:
            return
        sel, ent = imp_calls[0]
        k = peel(f, f.origin(ent.args[1]))
        rep.ob("R30.1", "the import table selected is the one of `this`", k.get("kind") == "arg" and k.get("n") == this_n,
               f"table key is {describe(f, k)}", f.loc(ent.bb))
        imp_local = sel.dest["l"]

        # look-up
        gets = []
        for b, m, o in discr_switches(f, ty_sub="Option"):
            src = o.get("of", {})
            if src.get("kind") == "call" and src["call"].matches(mp("get", "get_key_value")):
                gets.append((b, m, src["call"]))
        rep.floor("R30.1", "look-ups of the import table whose result is branched on", len(gets), 1)
        if len(gets) != 1:
            rep.ob("R30.1", "exactly one look-up decides reuse vs. insert", False, f"{len(gets)}", f.loc())
            return
        sw, m, get = gets[0]
        l, fld = local_of_ref(f, get.args[0])
        rep.ob("R30.1", "the look-up is on the selected table's `packages`", l == imp_local and fld == "packages",
               f"local _{l} field {fld}", f.loc(get.bb))
        gk = peel(f, f.origin(get.args[1]))
        rep.ob("R30.1", "the look-up key is `name`", gk.get("kind") == "arg" and gk.get("n") == name_n and not fields_of(gk),
               describe(f, gk), f.loc(get.bb))
        some_t, none_t = variant_target(m, "Some"), variant_target(m, "None")
        some_reg, none_reg = f.edge_region(sw, some_t), f.edge_region(sw, none_t)

        # self-import guard
        ne = bool_switches_on_call(f, re.compile(r"PartialEq.*::(ne|eq)$"))
        guard = None
        for b, ft, tt in ne:
            call = f.switch_origin(b)
            while call.get("kind") == "un":
                call = call["a"]
            call = call["call"]
            ids = {root_id(f, f.origin(a))[:2] for a in call.args}
            if ids == {("arg", this_n), ("arg", name_n)}:
                differ = tt if call.matches(re.compile(r"::ne$")) else ft
                guard = (b, differ)
        rep.ob("R30.1", "`name` is compared with `this`", guard is not None, "", f.loc())

        # insertion sites
        ins = []
        for x in f.calls(MAP_MUT):
            if not x.args:
                continue
            l, fld = local_of_ref(f, x.args[0])
            if fld == "packages":
                ins.append((x, l))
        rep.floor("R30.1", "mutating calls on `packages` in qualify_package", len(ins), 1)
        tmps = f.calls("Ns::tmp")
        rep.ob("R30.1", "one fresh alias is requested (Ns::tmp)", len(tmps) == 1, f"{len(tmps)}", f.loc())
        for t_ in tmps:
            # the alias base is one '.'-separated segment of `name`: a dotted alias would read as nested qualifiers
            o = f.origin(t_.args[1])
            found = False
            for _ in range(8):
                if o.get("kind") != "call" or not o["call"].args:
                    break
                cl = o["call"]
                if cl.matches(re.compile(r"str::<impl str>::r?split(_once|n|_terminator)?$")):
                    recv = peel(f, f.origin(cl.args[0]))
                    found = recv.get("kind") == "arg" and recv.get("n") == name_n and any(is_lit(f.origin(a), ".") for a in cl.args[1:])
                    break
                o = f.origin(cl.args[0])
            rep.ob("R30.1", "the alias base is a '.'-free segment of `name` (split on '.')", found,
                   "the alias may contain '.', so `@alias.x` no longer names one package", f.loc(t_.bb))
        for x, l in ins:
            nm = mir.norm(x.callee).split("::")[-1]
            rep.ob("R30.1", f"packages.{nm}: on the selected table", l == imp_local, "", f.loc(x.bb))
            rep.ob("R30.1", f"packages.{nm}: only where the look-up found nothing (existing alias is reused)",
                   x.bb in none_reg, "an entry may be overwritten / a second alias created for a declared package", f.loc(x.bb))
            rep.ob("R30.1", f"packages.{nm}: only when name != this (a package never imports itself)",
                   guard is not None and x.bb in f.edge_region(*guard), "", f.loc(x.bb))
            rep.ob("R30.1", f"packages.{nm}: not in a loop", not f.in_cycle(x.bb), "", f.loc(x.bb))
            if x.matches(mp("entry", "insert", "try_insert")):
                kk = peel(f, f.origin(x.args[1]))
                rep.ob("R30.1", f"packages.{nm}: the key inserted is `name` (the key that was looked up)",
                       kk.get("kind") == "arg" and kk.get("n") == name_n and not fields_of(kk), describe(f, kk), f.loc(x.bb))
        # the value inserted
        vals = []
        for x in f.calls(["Entry::or_insert", "Entry::or_insert_with", "Entry::insert_entry", "VacantEntry::insert"] + mp("insert", "try_insert")):
            if x is sel or x.bb == sel.bb:
                continue
            if x.matches(mp("insert", "try_insert")):
                l, fld = local_of_ref(f, x.args[0])
                if fld != "packages":
                    continue
                vals.append((x, x.args[2]))
            else:
                e = f.origin(x.args[0])
                if e.get("kind") == "call" and e["call"].matches(mp("entry")) and \
                        local_of_ref(f, e["call"].args[0])[1] == "packages":
                    vals.append((x, x.args[1]))
        rep.floor("R30.1", "alias insertion sites", len(vals), 1)
        for x, v in vals:
            o = peel(f, f.origin(v))
            ok = o.get("kind") == "call" and o["call"].matches("Ns::tmp")
            rep.ob("R30.1", "the alias inserted is (a clone of) the result of Ns::tmp", ok, describe(f, o), f.loc(x.bb))
            if ok:
                l, fld = local_of_ref(f, o["call"].args[0])
                rep.ob("R30.1", "the alias comes from the namespace of the same import table", l == imp_local and fld == "ns",
                       f"local _{l} field {fld}", f.loc(o["call"].bb))
                rep.ob("R30.1", "every path that requested an alias records it", x.bb in f.reachable(o["call"].bb) and
                       f.all_paths_pass(o["call"].bb, f.returns(), [x.bb]), "", f.loc(x.bb))
        # what is returned
        fm = [x for x in f.calls("fmt::format")]
        in_some = [x for x in fm if x.bb in some_reg]
        in_none = [x for x in fm if x.bb in none_reg]
        rep.ob("R30.1", "one qualifier is formatted on the reuse path and one on the insert path",
               len(in_some) == 1 and len(in_none) == 1 and len(fm) == 2, f"{len(in_some)}/{len(in_none)}/{len(fm)}", f.loc())
        for x in in_some:
            args = fmt_display_args(f, {"kind": "call", "call": x}) or []
            ok = len(args) == 1
            if ok:
                o = peel(f, args[0])
                ok = o.get("kind") == "call" and o["call"].bb == get.bb and "as Some" in "".join(map(str, o.get("proj", [])))
            rep.ob("R30.1", "reuse path: the qualifier is built from the alias found by the look-up", ok, "", f.loc(x.bb))
        for x in in_none:
            args = fmt_display_args(f, {"kind": "call", "call": x}) or []
            ok = len(args) == 1
            if ok:
                o = peel(f, args[0])
                ok = o.get("kind") == "call" and o["call"].matches("Ns::tmp") and len(tmps) == 1 and o["call"].bb == tmps[0].bb
            rep.ob("R30.1", "insert path: the qualifier is built from the alias just recorded", ok, "", f.loc(x.bb))
        # literal shape (syntax tree): "@{alias}."
        sf = synq.find_fn(PKG, "qualify_package", self_ty="PkgResolver")
        tpl = [x for x in synq.fmts(sf.body) if x.name == "format"]
        rep.floor("R30.1", "format! sites in qualify_package", len(tpl), 2)
        for n, x in enumerate(tpl):
            t = re.sub(r"\{[^{}]*\}", "{}", x.template or "")
            rep.ob("R30.1", f"qualifier #{n} has the shape `@<alias>.`", t == "@{}." and len(x.holes()) == 1, f"{x.template!r}",
                   sf.loc(x.node))
    rep.guard("R30.1", "qualify_package", r1_body)

    # ================================================================================================ R30.2
    r2_state = {}

    def r2():
        f = wmp
        imports_n = [i for i in range(1, f.argc + 1) if "Imports" in f.locals[i]]
        rep.ob("R30.2", "write_moon_pkg takes the import table as Option<&Imports>", len(imports_n) == 1 and
               f.locals[imports_n[0]].startswith("std::option::Option<&"), f"{[f.locals[i] for i in range(1, f.argc + 1)]}", f.loc())
        if len(imports_n) != 1:
            return
        imp_n = imports_n[0]
        src_n = [i for i in range(1, f.argc + 1) if mir.base_type(f.locals[i]) == "Source"]
        ITER = mp("iter", "keys", "values", "into_iter", "iter_mut", "into_keys", "into_values") + ["IntoIterator>::into_iter"]

        def find_its(fn_):
            out = []
            for x in fn_.calls(ITER):
                o = fn_.origin(x.args[0])
                if ".packages" in fields_of(o):
                    out.append((x, o))
            return out
        its = find_its(f)
        hf, hcall, table_n = f, None, imp_n
        if not its:
            # inline view: a same-crate helper that is handed the `imports` table and iterates it; what happens inside the
            # helper counts at its call site, the helper's parameter is the argument passed here
            cands = []
            for x in f.calls():
                tg = [g_ for g_ in c.fns.values() if g_.npath in {mir.norm(n_) for n_ in x.names()}]
                if len(tg) != 1:
                    continue
                for i_a, a_ in enumerate(x.args):
                    oa = f.origin(a_)
                    if oa.get("kind") == "arg" and oa.get("n") == imp_n and i_a + 1 <= tg[0].argc and "Imports" in tg[0].locals[i_a + 1]:
                        sub = [(y, o_) for y, o_ in find_its(tg[0]) if o_.get("kind") == "arg" and o_.get("n") == i_a + 1]
                        if sub:
                            cands.append((x, tg[0], i_a + 1, sub))
            if len(cands) == 1:
                hcall, hf, table_n, its = cands[0]
                its = list(its) + [(y, o_) for y, o_ in find_its(hf) if (y, o_) not in its and y.bb not in {z.bb for z, _ in its}]
                rep.saw(hf)
                r2_state["helper"] = hf
        rep.ob("R30.2", "imports.packages is iterated exactly once, as (path, alias) pairs",
               len(its) == 1 and its[0][0].matches(mp("iter", "into_iter") + ["IntoIterator>::into_iter"]),
               f"{[mir.norm(x.callee) for x, _ in its]}", f.loc())
        rep.floor("R30.2", "iterations of imports.packages", len(its), 1)
        if len(its) != 1:
            return
        it, o = its[0]
        rep.ob("R30.2", "the table iterated is the `imports` argument", o.get("kind") == "arg" and o.get("n") == table_n, describe(hf, o), hf.loc(it.bb))
        # follow the iterator through adaptors to the collected Vec
        cur = it
        chain = []
        closure_fns = []
        for _ in range(8):
            nxt = [x for x in hf.calls() if x.args and x is not cur and hf.origin(x.args[0]).get("kind") == "call"
                   and hf.origin(x.args[0])["call"].bb == cur.bb and not hf.origin(x.args[0]).get("proj")
                   and (x.args[0].get("mv") or {}).get("l") == cur.dest["l"]]
            if len(nxt) != 1:
                break
            cur = nxt[0]
            nm = mir.norm(cur.callee).split("::")[-1]
            chain.append(nm)
            if len(cur.args) > 1:
                a = hf.origin(cur.args[1])
                if a.get("kind") == "agg" and "closure" in a["rv"]:
                    closure_fns.append((nm, a["rv"]["closure"]))
            if nm == "collect":
                break
        rep.ob("R30.2", "every entry is kept: only element-preserving adaptors between iter() and collect()",
               bool(chain) and chain[-1] == "collect" and all(n in KEEP_ALL for n in chain) and "map" in chain,
               f"adaptor chain {chain}", hf.loc(it.bb))
        scope = with_closures(c, f) + (with_closures(c, hf) if hf is not f else [])
        bad = [mir.norm(x.callee).split("::")[-1] for g in scope for x in g.calls(re.compile(r"iter::(traits::)?\w*::?Iterator::|Iterator::"))
               if mir.norm(x.callee).split("::")[-1] not in KEEP_ALL]
        rep.ob("R30.2", "write_moon_pkg uses no element-dropping iterator adaptor at all", not bad, f"{bad}", f.loc())
        if not chain or chain[-1] != "collect":
            return
        deps = cur.dest["l"]
        rep.ob("R30.2", "the collected list is a Vec<String>", "Vec<std::string::String>" in hf.locals[deps], hf.locals[deps], hf.loc(cur.bb))

        def on_res(fn_, x, bb):
            o_ = peel(fn_, fn_.origin(x.args[0]), extra=["DerefMut>::deref_mut"])
            return o_.get("kind") == "call" and o_["call"].bb == bb and not fields_of(o_)
        JOIN = ["slice::<impl [S]>::join", "slice::<impl [T]>::join", re.compile(r"::join$"), re.compile(r"::concat$")]
        sorts_h = [x for x in hf.calls(SORTS) if on_res(hf, x, cur.bb)]
        shr = [x for x in hf.calls(VEC_SHRINK) if on_res(hf, x, cur.bb)]
        if hcall is not None:
            # the helper returns the collected list, and the caller works on that result
            ro = hf.place_origin({"l": 0})
            rep.ob("R30.2", "the helper returns the collected list itself", ro.get("kind") == "call" and ro["call"].bb == cur.bb and not fields_of(ro),
                   describe(hf, ro), hf.loc())
            rep.ob("R30.2", "the helper does not join / flatten the list itself", not [x for x in hf.calls(JOIN) if on_res(hf, x, cur.bb)], "", hf.loc())
            res_bb = hcall.bb
            sorts_f = [x for x in f.calls(SORTS) if on_res(f, x, res_bb)]
            shr += [x for x in f.calls(VEC_SHRINK) if on_res(f, x, res_bb)]
        else:
            res_bb = cur.bb
            sorts_f, sorts_h = sorts_h, []
        sorts = sorts_f + sorts_h
        joins = [x for x in f.calls(JOIN) if on_res(f, x, res_bb)]
        rep.ob("R30.2", "nothing is removed from the dependency list", not shr, f"{[x.callee for x in shr]}", f.loc())
        rep.ob("R30.2", "the dependency list is joined once", len(joins) == 1, f"{len(joins)}", f.loc())
        rep.ob("R30.2", "the dependency list is sorted (HashMap order never reaches the file)", len(sorts) >= 1 and
               all(s_.matches(["slice::<impl [T]>::sort", "slice::<impl [T]>::sort_unstable"]) for s_ in sorts),
               f"{[x.callee for x in sorts]}", f.loc())
        start_bb = hcall.bb if hcall is not None else it.bb
        for j in joins:
            rep.ob("R30.2", "the sort dominates the join", any(f.dominates(s_.bb, j.bb) and s_.bb != j.bb for s_ in sorts_f) or
                   (hcall is not None and f.dominates(hcall.bb, j.bb) and
                    any(hf.all_paths_pass(cur.bb, hf.returns(), [s_.bb]) and s_.bb in hf.reachable(cur.bb) for s_ in sorts_h)), "", f.loc(j.bb))
            rep.ob("R30.2", "every path that iterated the table reaches the join", f.all_paths_pass(start_bb, f.returns(), [j.bb]) and
                   (hcall is None or hf.all_paths_pass(it.bb, hf.returns(), [cur.bb])), "", f.loc(j.bb))
            # joined text is written to the moon_pkg argument
            wr = [x for x in f.calls(["Write::write_fmt", "Source::push_str", "Write::write_str"]) if j.bb in f.dom[x.bb] and x.bb != j.bb]
            hit = False
            for x in wr:
                if x.matches("Write::write_fmt"):
                    a = f.origin(x.args[1])
                    if a.get("kind") == "call":
                        da = fmt_display_args(f, {"kind": "call", "call": mir.Call(a["call"].bb, a["call"].t)}) \
                            if a["call"].matches("fmt::format") else None
                        if da is None and a["call"].matches(["Arguments::new", "Arguments::new_v1"]):
                            arr = f.origin(a["call"].args[1])
                            da = []
                            for op in (arr.get("rv", {}).get("ops", []) if arr.get("kind") == "agg" else []):
                                d = f.origin(op)
                                if d.get("kind") == "call":
                                    da.append(f.origin(d["call"].args[0]))
                        for d in da or []:
                            pd = peel(f, d)
                            if pd.get("kind") == "call" and pd["call"].bb == j.bb:
                                dst = f.origin(x.args[0])
                                hit = hit or (dst.get("kind") == "arg" and dst.get("n") in src_n)
                else:
                    a = peel(f, f.origin(x.args[1]))
                    if a.get("kind") == "call" and a["call"].bb == j.bb:
                        dst = f.origin(x.args[0])
                        hit = hit or (dst.get("kind") == "arg" and dst.get("n") in src_n)
            rep.ob("R30.2", "the joined list is written into the moon.pkg.json buffer", hit, "", f.loc(j.bb))

        # the map closure
        maps = [p for nm, p in closure_fns if nm == "map"]
        rep.ob("R30.2", "one map closure renders an entry", len(maps) == 1, f"{closure_fns}", f.loc())
        if len(maps) != 1:
            return
        g = c.fns[maps[0]]
        rep.saw(g)
        rep.ob("R30.2", "the entry closure has no branch (cannot render some entries differently)", not g.switches(), "", g.loc())
        rp = str_replaces(g)
        rep.floor("R30.2", "str::replace calls in the entry closure", len(rp), 1)
        rep.ob("R30.2", "the entry closure performs exactly one replace", len(rp) == 1, f"{len(rp)}", g.loc())
        tr = transforms_in(g)
        rep.ob("R30.2", "no case conversion / trimming in the entry closure", not tr, f"{[x.callee for x in tr]}", g.loc())
        other = [x for x in g.calls() if not x.matches(PASS_THROUGH + ["str::<impl str>::replace", "fmt::format", "Arguments::new",
                                                                        re.compile(r"Argument::<'_>::new_display|Argument::new_display")])]
        rep.ob("R30.2", "the entry closure only derefs, replaces and formats", not other, f"{[x.callee for x in other]}", g.loc())
        elem = g.argc  # last parameter = the (key, value) pair
        fm = g.calls("fmt::format")
        rep.ob("R30.2", "the entry closure formats once", len(fm) == 1, f"{len(fm)}", g.loc())
        if len(rp) == 1 and len(fm) == 1:
            r_ = rp[0]
            rep.ob("R30.2", "path: '.' is replaced by '/'", dot_to_slash(g, r_), "", g.loc(r_.bb))
            ro = peel(g, g.origin(r_.args[0]))
            key_ok = ro.get("kind") == "arg" and ro.get("n") == elem and fields_of(ro)[:1] == [".0"]
            rep.ob("R30.2", "path: the replace is applied to the entry's key (the package name)", key_ok, describe(g, ro), g.loc(r_.bb))
            da = fmt_display_args(g, {"kind": "call", "call": fm[0]})
            rep.ob("R30.2", "the entry is `project/path` + alias (three formatted values)", da is not None and len(da) == 3,
                   f"{None if da is None else len(da)}", g.loc(fm[0].bb))
            if da is not None and len(da) == 3:
                p0, p1, p2 = (peel(g, x) for x in da)
                rep.ob("R30.2", "path prefix is MoonBit.project_name", ".project_name" in fields_of(p0), describe(g, p0), g.loc(fm[0].bb))
                rep.ob("R30.2", "path = key.replace('.', '/') with nothing applied afterwards",
                       p1.get("kind") == "call" and p1["call"].bb == r_.bb, describe(g, p1), g.loc(fm[0].bb))
                rep.ob("R30.2", "alias = the entry's value, verbatim",
                       p2.get("kind") == "arg" and p2.get("n") == elem and fields_of(p2)[:1] == [".1"], describe(g, p2), g.loc(fm[0].bb))
        # literal template
        sf = synq.find_fn(LIB, "write_moon_pkg", self_ty="MoonBit")
        bodies = [sf]
        if hcall is not None:
            hs_ = synq.find_fn(LIB, hf.npath.split("::")[-1], self_ty="MoonBit", required=False)
            if hs_ is not None:
                bodies.append(hs_)
        tp = [(sf_, x) for sf_ in bodies for x in synq.fmts(sf_.body) if x.name == "format" and x.template and "path" in x.template and "alias" in x.template]
        rep.floor("R30.2", "import-entry templates in write_moon_pkg", len(tp), 1)
        rep.ob("R30.2", "one import-entry template", len(tp) == 1, f"{len(tp)}", sf.loc())
        for sf_, x in tp:
            t = re.sub(r"\s+", "", re.sub(r"\{[^{}]+\}", "{}", x.template.replace("{{", "\x01").replace("}}", "\x02")))
            rep.ob("R30.2", 'entry template is { "path" : "<project>/<path>", "alias" : "<alias>" }',
                   t == '\x01"path":"{}/{}","alias":"{}"\x02', f"{x.template!r}", sf_.loc(x.node))
            hs = x.hole_exprs()
            if len(hs) == 3 and hs[1][2] is not None:
                e1 = hs[1][2]
                if e1.get("k") == "path":        # a local: look at what it was bound to
                    inits = [init for nm_, init, st in synq.bindings(sf_.body) if nm_ == e1["path"] and init is not None]
                    e1 = inits[-1] if len(inits) == 1 else e1
                rep.ob("R30.2", "entry template: the path hole is the '.' -> '/' replace", is_dot_slash_replace(e1),
                       render(e1), sf_.loc(x.node))
        # the import section header is emitted on the same edge as the list
        hdr = [s for s in synq.strings(sf.body) if '"import"' in s["v"]]
        rep.ob("R30.2", 'the list is emitted under the "import" key', len(hdr) == 1 and re.sub(r"\s+", "", hdr[0]["v"]) == ',"import":[', f"{[h['v'] for h in hdr]}", sf.loc())

        # callers
        sites = 0
        for h in c.fns.values():
            for x in h.calls("MoonBit::write_moon_pkg"):
                sites += 1
                o2 = h.origin(x.args[2])
                owner = h.npath.split("::")[-1]
                ok = o2.get("kind") == "call" and o2["call"].matches(mp("get")) and \
                    ".package_import" in fields_of(h.origin(o2["call"].args[0]))
                rep.ob("R30.2", f"{owner}: write_moon_pkg receives package_import.get(<package name>)", ok, describe(h, o2), h.loc(x.bb))
        rep.floor("R30.2", "write_moon_pkg call sites", sites, 5)
    rep.guard("R30.2", "write_moon_pkg", r2)

    # ================================================================================================ R30.3
    EMIT = [("import_interface", True, "import_interface_names", True), ("finish_imports", False, None, True),
            ("export_interface", True, "export_interface_names", False), ("export_funcs", True, None, False)]

    def name_root(f):
        """identity of the package-name value of an emitting callback = receiver of its '.' -> '/' replace calls"""
        rp = str_replaces(f)
        ids = {root_id(f, f.origin(x.args[0])) for x in rp}
        return rp, ids

    def r3():
        for fn_name, has_gen, reg_map, _ in EMIT:
            f = c.method("MoonBit", fn_name, trait="WorldGenerator")
            rep.saw(f)
            rp, ids = name_root(f)
            rep.floor("R30.3", f"{fn_name}: directory computations", len(rp), 1)
            for x in rp:
                rep.ob("R30.3", f"{fn_name}: directory = name.replace('.', '/') (same substitution as the import path)",
                       dot_to_slash(f, x), "", f.loc(x.bb))
            rep.ob("R30.3", f"{fn_name}: all directory computations start from one package name", len(ids) == 1, f"{len(ids)} different sources", f.loc())
            if len(ids) != 1:
                continue
            nid = next(iter(ids))
            rep.ob("R30.3", f"{fn_name}: the package name is a computed String", nid[0] == "call", f"{nid[:2]}", f.loc())
            # look-up key for moon.pkg.json
            w = f.calls("MoonBit::write_moon_pkg")
            rep.ob("R30.3", f"{fn_name}: one moon.pkg.json rendering", len(w) == 1, f"{len(w)}", f.loc())
            for x in w:
                o = f.origin(x.args[2])
                if o.get("kind") == "call" and o["call"].matches(mp("get")):
                    kid = root_id(f, f.origin(o["call"].args[1]))
                    rep.ob("R30.3", f"{fn_name}: moon.pkg.json lists the imports recorded under this package's name", kid == nid,
                           "imports are looked up under another key than the directory's name", f.loc(x.bb))
            if has_gen:
                gi = f.calls("MoonBit::interface")
                rep.ob("R30.3", f"{fn_name}: one interface generator", len(gi) == 1, f"{len(gi)}", f.loc())
                for x in gi:
                    rep.ob("R30.3", f"{fn_name}: the generator's `this` is the package name", root_id(f, f.origin(x.args[2])) == nid,
                           "code is qualified relative to another package than the one it is written to", f.loc(x.bb))
            if reg_map:
                tm = [x for x in f.calls("Ns::tmp") if x.bb == nid[2] and ".interface_ns" in fields_of(f.origin(x.args[0]))] \
                    if nid[0] == "call" else []
                rep.ob("R30.3", f"{fn_name}: the package name is made unique by MoonBit.interface_ns (distinct interfaces never "
                       "share a directory / moon.pkg.json)", len(tm) == 1, f"name is the {nid[1] if len(nid) > 1 else nid}", f.loc())
                reg = [x for x in f.calls(mp("insert")) if ("." + reg_map) in fields_of(f.origin(x.args[0]))]
                rep.ob("R30.3", f"{fn_name}: the interface is registered once in {reg_map}", len(reg) == 1, f"{len(reg)}", f.loc())
                for x in reg:
                    rep.ob("R30.3", f"{fn_name}: the name other packages will import is the package name", root_id(f, f.origin(x.args[2])) == nid,
                           "registered name and directory differ: importers would reference a package that is not emitted", f.loc(x.bb))
                    ko = f.origin(x.args[1])
                    rep.ob("R30.3", f"{fn_name}: registered under the interface id being generated",
                           ko.get("kind") == "arg" and "Interface" in f.locals[ko["n"]], describe(f, ko), f.loc(x.bb))
                    # registration precedes generation (self references resolve to `this`)
                    for gcall in f.calls("MoonBit::interface"):
                        rep.ob("R30.3", f"{fn_name}: registration precedes generation", f.dominates(x.bb, gcall.bb), "", f.loc(x.bb))
            # every file goes under the directory
            pushes = f.calls("Files::push")
            rep.floor("R30.3", f"{fn_name}: files pushed", len(pushes), 3)
            for n, x in enumerate(pushes):
                da = fmt_display_args(f, f.origin(x.args[1]))
                ok = bool(da)
                if ok:
                    d0 = peel(f, da[0])
                    ok = d0.get("kind") == "call" and d0["call"].matches("str::<impl str>::replace") and \
                        root_id(f, f.origin(d0["call"].args[0])) == nid
                rep.ob("R30.3", f"{fn_name}: file #{n} is pushed under the package directory", ok, "", f.loc(x.bb))
            # syntax: templates start with the directory hole followed by '/'
            sf = synq.find_fn(LIB, fn_name, self_ty="MoonBit", trait="WorldGenerator")
            dirs = {nm for nm, init, st in synq.bindings(sf.body) if init is not None and is_dot_slash_replace(init)}
            np = 0
            names = set()
            for mcall in synq.method_calls(sf.body, "push"):
                a0 = strip_ref(mcall["args"][0]) if mcall["args"] else None
                if not (isinstance(a0, dict) and a0.get("k") == "macro" and synq.short(a0["name"]) == "format"):
                    continue
                np += 1
                fm = synq.Fmt(a0)
                hs = fm.hole_exprs()
                ok = bool(hs) and fm.template.startswith("{") and hs[0][3] == 0 and \
                    fm.template[fm.template.index("}") + 1:].startswith("/")
                if ok:
                    kind_, key, e, off = hs[0]
                    ok = (e is None and key in dirs) or (e is not None and (is_dot_slash_replace(e) or render(e) in dirs))
                tail = fm.template[fm.template.index("}") + 2:] if ok else ""
                names.add(tail)
                rep.ob("R30.3", f"{fn_name}: path template `{re.sub(r'^{[^}]*}', '<dir>', fm.template or '')}` = <dir>/<file>", ok and "/" not in tail and "{" not in tail,
                       f"{fm.template!r}", sf.loc(mcall))
            rep.floor("R30.3", f"{fn_name}: templated file paths", np, 3)
            rep.ob("R30.3", f"{fn_name}: the package's moon.pkg.json is among the files", "moon.pkg.json" in names, f"{sorted(names)}", sf.loc())
        # interface names: who may write the two registries
        for regmap, owner in (("import_interface_names", "import_interface"), ("export_interface_names", "export_interface")):
            n = 0
            for h in c.fns.values():
                for x in h.calls(MAP_MUT):
                    if x.args and ("." + regmap) in fields_of(h.origin(x.args[0])):
                        n += 1
                        rep.ob("R30.3", f"{regmap} written in {h.npath.split('::')[-1]}", h.npath.endswith("::" + owner), "", h.loc(x.bb))
            rep.floor("R30.3", f"writers of {regmap}", n, 1)
        # world package: qualifier() and the world callbacks agree on world_name
        wn_users = {}
        for h in c.fns.values():
            for x in h.calls("PkgResolver::world_name"):
                wn_users.setdefault(h.npath.split("::")[-1], []).append((h, x))
        rep.ob("R30.3", "the world package is named by world_name in qualifier, import_funcs, import_types, finish_imports and export_funcs",
               {"qualifier", "import_funcs", "import_types", "finish_imports", "export_funcs"} <= set(wn_users), f"{sorted(wn_users)}", PKG)
        for nm in ("import_funcs", "import_types", "finish_imports"):
            for h, x in wn_users.get(nm, []):
                a = [h.origin(y) for y in x.args]
                rep.ob("R30.3", f"{nm}: world_name(resolve, world) of the callback's own arguments",
                       all(o.get("kind") == "arg" for o in a) and [o["n"] for o in a] == [2, 3], "", h.loc(x.bb))
        for nm in ("import_funcs", "import_types"):
            h = c.method("MoonBit", nm, trait="WorldGenerator")
            for x in h.calls("MoonBit::interface"):
                o = peel(h, h.origin(x.args[2]))
                rep.ob("R30.3", f"{nm}: the generator's `this` is world_name(..) (written out by finish_imports)",
                       o.get("kind") == "call" and o["call"].matches("PkgResolver::world_name"), describe(h, o), h.loc(x.bb))
        # gen package: key and directory are the same expression
        sf = synq.find_fn(LIB, "finish", self_ty="MoonBit", trait="WorldGenerator")
        keys = [unraw(render(strip_ref(m["args"][0]))) for m in synq.method_calls(sf.body, "get")
                if unraw(render(m["recv"])).endswith("package_import")]
        dirs = []
        for mcall in synq.method_calls(sf.body, "push"):
            a0 = strip_ref(mcall["args"][0]) if mcall["args"] else None
            if isinstance(a0, dict) and a0.get("k") == "macro" and synq.short(a0["name"]) == "format":
                fm = synq.Fmt(a0)
                hs = fm.hole_exprs()
                if fm.template.endswith("/moon.pkg.json") and len(hs) == 1 and hs[0][2] is not None:
                    dirs.append((unraw(render(hs[0][2])), re.sub(r"\{[^{}]*\}", "{}", fm.template)))
        rep.ob("R30.3", "finish: the link package's moon.pkg.json is pushed under the key its imports are recorded under (gen_dir)",
               len(keys) == 1 and len(dirs) == 1 and dirs[0][0] == keys[0] and keys[0].endswith("opts.gen_dir") and dirs[0][1] == "{}/moon.pkg.json",
               f"keys {keys} dirs {dirs}", sf.loc())
        # module name: import paths are `<project_name>/<path>`, so moon.mod.json must name the module project_name
        mods = [x for x in synq.fmts(sf.body) if x.template and '"name"' in x.template and "preferred-target" in x.template]
        rep.floor("R30.3", "finish: moon.mod.json templates", len(mods), 1)
        for x in mods:
            hs = x.hole_exprs()
            rep.ob("R30.3", "finish: moon.mod.json names the module by the same project_name that prefixes every import path",
                   len(hs) == 1 and hs[0][2] is not None and unraw(render(hs[0][2])) == "self.project_name" and
                   re.sub(r"\s+", "", x.template).startswith('{{"name":"{}"'), f"{x.template!r}", sf.loc(x.node))
        # async-core
        cs = [it for it in synq.items_of(PKG, ("const",)) if it["name"] == "ASYNC_CORE_DIR"]
        v = lit(cs[0]["e"]) if len(cs) == 1 else None
        rep.ob("R30.3", "ASYNC_CORE_DIR is a literal without '.' (its import path equals its directory)", bool(v) and "." not in v and "/" not in v,
               f"{v!r}", PKG)
        ef = synq.find_fn(ASY, "emit_runtime_files", self_ty="AsyncSupport")
        n = 0
        tails = []
        for mcall in synq.method_calls(ef.body, "push"):
            a0 = strip_ref(mcall["args"][0]) if mcall["args"] else None
            if isinstance(a0, dict) and a0.get("k") == "macro" and synq.short(a0["name"]) == "format":
                n += 1
                fm = synq.Fmt(a0)
                hs = fm.hole_exprs()
                first = hs[0] if hs else None
                ok = first is not None and first[3] == 0 and (first[1] == "ASYNC_CORE_DIR" or (first[2] is not None and render(first[2]).endswith("ASYNC_CORE_DIR")))
                ok = ok and fm.template[fm.template.index("}") + 1:].startswith("/")
                tails.append(fm.template[fm.template.index("}") + 2:] if ok else None)
                rep.ob("R30.3", f"emit_runtime_files: `{re.sub(r'^{[^}]*}', '<dir>', fm.template)}` is pushed under ASYNC_CORE_DIR", ok, f"{fm.template!r}", ef.loc(mcall))
        rep.floor("R30.3", "emit_runtime_files: templated pushes", n, 3)
        rep.ob("R30.3", "emit_runtime_files: async-core gets a moon.pkg.json", "moon.pkg.json" in tails, f"{tails}", ef.loc())
    rep.guard("R30.3", "sibling agreement", r3)

    # ================================================================================================ R30.4
    OK_FIELDS = {("InterfaceGenerator", ".name"), ("FunctionBindgen", ".type_context"), ("FunctionBindgen", ".func_interface")}

    def r4():
        sinks = [(qp, 1, "this"), (qp, 2, "name")]      # (callee fn, call-arg index, role)
        done = set()
        field_sinks = set()
        nsites = 0
        terminal = {}

        def classify(h, o, role, where, depth=0):
            """h: function the value lives in; o: origin"""
            nonlocal nsites
            o = peel(h, o)
            k = o.get("kind")
            fl = fields_of(o)
            if k == "const":
                ok = str(o.get("def", "")).endswith("ASYNC_CORE_DIR")
                rep.ob("R30.4", f"{where}: `{role}` is the constant ASYNC_CORE_DIR", ok, describe(h, o), h.loc())
                terminal["ASYNC_CORE_DIR"] = terminal.get("ASYNC_CORE_DIR", 0) + 1
                return
            if k == "call":
                cl = o["call"]
                if cl.matches(mp("get")) and set(fields_of(h.origin(cl.args[0]))) & {".import_interface_names", ".export_interface_names"}:
                    terminal["registry"] = terminal.get("registry", 0) + 1
                    rep.ob("R30.4", f"{where}: `{role}` is a registered interface package name", True, "", h.loc(cl.bb))
                    return
                if cl.matches("PkgResolver::world_name"):
                    terminal["world_name"] = terminal.get("world_name", 0) + 1
                    rep.ob("R30.4", f"{where}: `{role}` is world_name(..)", True, "", h.loc(cl.bb))
                    return
                if cl.matches("Ns::tmp") and ".interface_ns" in fields_of(h.origin(cl.args[0])):
                    # de-duplicated interface name: its argument must itself be a clean name
                    classify(h, h.origin(cl.args[1]), role, where + " (interface_ns.tmp)", depth + 1)
                    return
                if cl.matches("PkgResolver::interface_name"):
                    terminal["interface_name"] = terminal.get("interface_name", 0) + 1
                    rep.ob("R30.4", f"{where}: `{role}` is interface_name(..)", True, "", h.loc(cl.bb))
                    return
                if cl.matches("fmt::format"):
                    da = fmt_display_args(h, o)
                    okf = da is not None and len(da) == 2
                    if okf:
                        a0, a1 = peel(h, da[0]), peel(h, da[1])
                        okf = ".gen_dir" in fields_of(a0) and a1.get("kind") == "call" and \
                            a1["call"].matches(["PkgResolver::interface_name", "PkgResolver::world_name"])
                    terminal["gen-prefixed"] = terminal.get("gen-prefixed", 0) + 1
                    rep.ob("R30.4", f"{where}: `{role}` is `<gen_dir>.<interface_name|world_name>`", okf,
                           "a package name is assembled from other parts", h.loc(cl.bb))
                    return
                rep.ob("R30.4", f"{where}: `{role}` comes from a recognised package-name source", False,
                       f"{describe(h, o)} is applied to / produces the name", h.loc(cl.bb))
                return
            if k == "arg":
                ty = mir.base_type(h.locals[o["n"]])
                if "{closure" in h.locals[o["n"]] or ty.startswith("{closure"):
                    # captured variable: resolve in the parent
                    par_path = h.path.rsplit("::{closure", 1)[0]
                    par = c.fns.get(par_path)
                    idx = int(fl[0][1:]) if fl and fl[0][1:].isdigit() else None
                    found = False
                    if par is not None and idx is not None:
                        for b in sorted(par.live):
                            for s in par.stmts(b):
                                if s["k"] == "=" and s["rv"]["k"] == "agg" and s["rv"].get("closure") == h.path:
                                    found = True
                                    classify(par, par.origin(s["rv"]["ops"][idx]), role, where, depth + 1)
                    if not found:
                        rep.ob("R30.4", f"{where}: `{role}` captured by a closure can be traced to its creator", False, "", h.loc())
                    return
                flds = [x for x in fl]
                if not flds:
                    # plain parameter: all callers must supply a clean name
                    key = (h.path, o["n"])
                    if key not in done:
                        done.add(key)
                        sinks.append((h, o["n"] - 1, role))
                    return
                if flds[-1] == ".gen_dir" or flds[-2:] == [".opts", ".gen_dir"]:
                    terminal["gen_dir"] = terminal.get("gen_dir", 0) + 1
                    rep.ob("R30.4", f"{where}: `{role}` is the link package (opts.gen_dir)", True, "", h.loc())
                    return
                # a field of the generator objects: find the innermost (type, field)
                owner_ty = ty
                fld = flds[-1]
                if len(flds) >= 2 and flds[-2] == ".interface_gen":
                    owner_ty = "InterfaceGenerator"
                if len(flds) >= 2 and flds[-2] == ".world_gen":
                    owner_ty = "MoonBit"
                if (owner_ty, fld) in OK_FIELDS:
                    field_sinks.add((owner_ty, fld))
                    rep.ob("R30.4", f"{where}: `{role}` is {owner_ty}{fld}", True, "", h.loc())
                    return
                rep.ob("R30.4", f"{where}: `{role}` comes from a recognised package-name source", False,
                       f"{owner_ty}{''.join(flds)}", h.loc())
                return
            rep.ob("R30.4", f"{where}: `{role}` can be traced to its source", False, describe(h, o), h.loc())

        state = {"next": 0}

        def site_name(h, callee):
            nm = h.npath.split("::")[-1]
            if "closure" in h.npath:
                nm = h.npath.rsplit("::{closure", 1)[0].split("::")[-1] + "(closure)"
            return f"{nm} -> {callee.npath.split('::')[-1]}"

        def drain():
            """trace the argument at every call site of every pending (function, parameter)"""
            nonlocal nsites
            while state["next"] < len(sinks):
                callee, idx, role = sinks[state["next"]]
                state["next"] += 1
                pat = callee.npath.replace("crate::", "", 1)
                for h in c.fns.values():
                    for x in h.calls(pat):
                        if idx >= len(x.args):
                            continue
                        nsites += 1
                        rep.saw(h)
                        classify(h, h.origin(x.args[idx]), role, site_name(h, callee))

        drain()
        # field writers
        for ty, fld in sorted(OK_FIELDS):
            n = 0
            for h in c.fns.values():
                for b, i_, rv, s in h.aggregates(ty):
                    names = rv.get("fields") or []
                    if fld[1:] in names:
                        n += 1
                        classify(h, h.origin(rv["ops"][names.index(fld[1:])]), f"{ty}{fld}", f"{h.npath.split('::')[-1]} (constructs {ty})")
                        drain()
                for b, i_, s in h.field_stores(fld[1:]):
                    if mir.base_type(h.locals[s["p"]["l"]]) != ty:
                        continue
                    n += 1
                    o = h.stored(s)
                    if o.get("kind") == "rv":
                        o = {"kind": "unknown"}
                    classify(h, o, f"{ty}{fld}", f"{h.npath.split('::')[-1]} (assigns {ty}{fld})")
                    drain()
            rep.floor("R30.4", f"writers of {ty}{fld}", n, 1)

        rep.floor("R30.4", "call sites whose package-name arguments were traced", nsites, 40)
        rep.floor("R30.4", "references to ASYNC_CORE_DIR", terminal.get("ASYNC_CORE_DIR", 0), 7)
        rep.floor("R30.4", "references to a registered interface name", terminal.get("registry", 0), 2)
        rep.floor("R30.4", "uses of world_name as a package", terminal.get("world_name", 0), 3)
        # the two name constructors and everything on the emission path are free of case conversion
        clean = [c.method("PkgResolver", "world_name"), c.method("PkgResolver", "interface_name"), qp,
                 c.method("PkgResolver", "qualifier"), wmp, c.method("MoonBit", "interface")]
        for nm in ("import_interface", "import_funcs", "import_types", "finish_imports", "export_interface", "export_funcs", "finish"):
            clean.append(c.method("MoonBit", nm, trait="WorldGenerator"))
        clean.append(c.method("AsyncSupport", "emit_runtime_files"))
        if r2_state.get("helper") is not None:
            clean.append(r2_state["helper"])
        for f0 in clean:
            for g in with_closures(c, f0):
                rep.saw(g)
                tr = transforms_in(g)
                nm = g.npath.split("::")[-1] if "closure" not in g.npath else f0.npath.split("::")[-1] + "(closure)"
                rep.ob("R30.4", f"{nm}: no case conversion / trimming on the package-name path", not tr,
                       f"{[mir.norm(x.callee) for x in tr]}", g.loc(tr[0].bb) if tr else g.loc())
                for x in str_replaces(g):
                    rep.ob("R30.4", f"{nm}: the only substitution applied to a package name is '.' -> '/'", dot_to_slash(g, x), "", g.loc(x.bb))
        # literal templates of the two constructors
        wn = synq.find_fn(PKG, "world_name", self_ty="PkgResolver")
        t = [x for x in synq.fmts(wn.body) if x.name == "format"]
        ok = len(t) == 1 and re.sub(r"\{[^{}]*\}", "{}", t[0].template or "") == "world.{}"
        if ok:
            hs = t[0].hole_exprs()
            ok = len(hs) == 1 and hs[0][2] is not None and re.fullmatch(r"\w+\.worlds\[\w+\]\.name", render(hs[0][2])) is not None
        rep.ob("R30.4", "world_name = `world.` + the world's WIT name, verbatim", ok, f"{[x.template for x in t]}", wn.loc())
        inn = synq.find_fn(PKG, "interface_name", self_ty="PkgResolver")
        ts = [re.sub(r"\{[^{}]*\}", "{}", x.template or "") for x in synq.fmts(inn.body) if x.name == "format"]
        rep.ob("R30.4", "interface_name = `interface.` [+ `<namespace>.<package>.`] + the interface's WIT name",
               sorted(ts) == sorted(["interface.{}{}", "{}.{}."]), f"{ts}", inn.loc())
        g = c.method("PkgResolver", "interface_name")
        wcalls = [mir.norm(x.callee).split("::")[-1] for x in g.calls() if not x.matches(
            PASS_THROUGH + ["fmt::format", "Arguments::new", re.compile(r"Argument::<'_>::new_display|Argument::new_display"),
                            "Index>::index", "Option::unwrap", "Option::as_ref", "String::new", "Option::expect"])]
        rep.ob("R30.4", "interface_name only indexes, unwraps, clones and formats", not wcalls, f"{wcalls}", g.loc())
        g = c.method("PkgResolver", "world_name")
        wcalls = [mir.norm(x.callee).split("::")[-1] for x in g.calls() if not x.matches(
            PASS_THROUGH + ["fmt::format", "Arguments::new", re.compile(r"Argument::<'_>::new_display|Argument::new_display"),
                            "Index>::index"])]
        rep.ob("R30.4", "world_name only indexes and formats", not wcalls, f"{wcalls}", g.loc())
        # qualifier(): whenever the owner's package differs from `this`, the reference is qualified *and recorded*
        qf = c.method("PkgResolver", "qualifier")
        rep.saw(qf)
        tests = []
        for b, ft, tt in bool_switches_on_call(qf, re.compile(r"PartialEq.*::(ne|eq)$")):
            call = qf.switch_origin(b)
            while call.get("kind") == "un":
                call = call["a"]
            call = call["call"]
            sides = [peel(qf, qf.origin(a)) for a in call.args]
            if any(o.get("kind") == "arg" and o.get("n") == 2 for o in sides):
                differ = tt if call.matches(re.compile(r"::ne$")) else ft
                other = [o for o in sides if not (o.get("kind") == "arg" and o.get("n") == 2)]
                tests.append((b, differ, other[0] if other else None))
        rep.floor("R30.4", "owner-package / `this` comparisons in qualifier", len(tests), 3)
        for n, (b, differ, other) in enumerate(tests):
            src = describe(qf, other) if other else "?"
            src = re.sub(r"^result of (std::collections::)?(crate::)?", "", src)
            if other and other.get("kind") == "call" and other["call"].matches(mp("get")):
                src = "".join(fields_of(qf.origin(other["call"].args[0]))[-1:]).lstrip(".") or src
            qs = [x for x in qf.calls("PkgResolver::qualify_package") if x.bb in qf.edge_region(b, differ)]
            rep.ob("R30.4", f"qualifier: owner package ({src}) != this => the reference goes through qualify_package on every path",
                   bool(qs) and qf.all_paths_pass(differ, qf.returns(), [x.bb for x in qs]), "a cross-package reference is left unqualified / unrecorded",
                   qf.loc(b))
            for x in qs:
                same = other is not None and root_id(qf, qf.origin(x.args[2])) == root_id(qf, other)
                rep.ob("R30.4", f"qualifier: the package qualified is the owner package that was compared ({src})", same, "", qf.loc(x.bb))
        allq = qf.calls("PkgResolver::qualify_package")
        rep.ob("R30.4", "qualifier: every qualify_package call is under such a comparison",
               all(any(x.bb in qf.edge_region(b, d) for b, d, _ in tests) for x in allq) and len(allq) >= 3, f"{len(allq)} calls", qf.loc())
    rep.guard("R30.4", "package-name provenance", r4)

    # ================================================================================================ R30.5
    def r5():
        fin = c.method("MoonBit", "finish", trait="WorldGenerator")
        rep.saw(fin)
        em = fin.calls("AsyncSupport::emit_runtime_files")
        rep.ob("R30.5", "finish emits the async runtime package on every returning path",
               len(em) == 1 and fin.all_paths_pass(0, fin.returns(), [em[0].bb]) and not fin.in_cycle(em[0].bb), f"{len(em)}", fin.loc())
        ef = c.method("AsyncSupport", "emit_runtime_files")
        rep.saw(ef)
        sws = bool_switches_on_call(ef, "AsyncSupport::is_required")
        pushes = ef.calls("Files::push")
        inner = [x for g in c.closures_of(ef) for x in g.calls("Files::push")]
        rep.floor("R30.5", "emit_runtime_files: push sites", len(pushes) + len(inner), 3)
        rep.ob("R30.5", "emit_runtime_files is gated by is_required() only", len(sws) == 1 and len(ef.switches()) == 1, f"{len(ef.switches())} branches", ef.loc())
        for b, ft, tt in sws:
            for x in pushes:
                rep.ob("R30.5", "emit_runtime_files: when is_required() every file is pushed", ef.all_paths_pass(tt, ef.returns(), [x.bb]), "", ef.loc(x.bb))
        ir = c.method("AsyncSupport", "is_required")
        # is_required = runtime_required || !endpoints.is_empty()
        reads = set()
        for b in ir.live:
            for s in ir.stmts(b):
                if s["k"] == "=" and s["rv"]["k"] in ("use", "ref"):
                    p = s["rv"].get("p") or (s["rv"].get("o", {}).get("cp") or s["rv"].get("o", {}).get("mv"))
                    if p:
                        reads |= {x for x in p.get("p", []) if isinstance(x, str) and x.startswith(".")}
        rep.ob("R30.5", "is_required() reads runtime_required and endpoints", {".runtime_required", ".endpoints"} <= reads, f"{reads}", ir.loc())
        sw = ir.switches()
        ok = False
        for b, t in sw:
            o = ir.switch_origin(b)
            if o.get("kind") == "arg" and ".runtime_required" in fields_of(o):
                tt = ir.switch_targets(b)["else"]
                # the true edge leads to returning true without consulting anything else
                ok = not any(x.bb in ir.edge_region(b, tt) for x in ir.calls())
        rep.ob("R30.5", "runtime_required = true alone makes is_required() true", ok, "", ir.loc())
        # the two plans: is_async => runtime_required
        for nm in ("import_plan", "export_plan"):
            g = c.method("AsyncSupport", nm)
            rep.saw(g)
            st = [(b, i, s) for b, i, s in g.field_stores("runtime_required") if g.stores_const(s, 1)]
            sws2 = bool_switches_on_call(g, "AsyncFilterSet::is_async")
            ok = len(st) == 1 and len(sws2) == 1
            if ok:
                b, ft, tt = sws2[0]
                ok = g.all_paths_pass(tt, g.returns(), [st[0][0]])
                ag = g.aggregates()
                plan = [rv for _, _, rv, _ in ag if "Plan" in rv.get("adt", "")]
                ok2 = len(plan) == 1 and any(g.origin(op).get("kind") == "call" and g.origin(op)["call"].bb == g.switch_origin(b)["call"].bb
                                             for op in plan[0]["ops"])
                rep.ob("R30.5", f"{nm}: the plan's is_async is the very flag that was tested", ok2, "", g.loc())
            rep.ob("R30.5", f"{nm}: is_async => runtime_required = true", ok, "", g.loc())
        # preprocess: future/stream in the world => require_runtime
        pre = c.method("MoonBit", "preprocess", trait="WorldGenerator")
        rep.saw(pre)
        sws3 = bool_switches_on_call(pre, "world_contains_future_or_stream")
        rq = pre.calls("AsyncSupport::require_runtime")
        ok = len(sws3) == 1 and len(rq) == 1
        if ok:
            b, ft, tt = sws3[0]
            ok = pre.all_paths_pass(tt, pre.returns(), [rq[0].bb])
            a = [pre.origin(y) for y in pre.switch_origin(b)["call"].args]
            ok = ok and [o.get("n") for o in a] == [2, 3]
        rep.ob("R30.5", "preprocess: a future/stream type in the world => require_runtime()", ok, "", pre.loc())
        rr = c.method("AsyncSupport", "require_runtime")
        rep.ob("R30.5", "require_runtime sets runtime_required = true", any(rr.stores_const(s, 1) for _, _, s in rr.field_stores("runtime_required")), "", rr.loc())
        clears = [(h, b) for h in c.fns.values() for b, i, s in h.field_stores("runtime_required") if not h.stores_const(s, 1)
                  and "AsyncSupport" in h.locals[s["p"]["l"]]]
        rep.ob("R30.5", "runtime_required is never cleared", not clears, f"{[h.npath for h, _ in clears]}", ASY)
        wf = synq.find_fn(LIB, "world_contains_future_or_stream")
        mm = [m_ for m_ in synq.macros(wf.body, "matches")]
        pats = set()
        for m_ in mm:
            for alt in synq.pat_alts(m_.get("pat") or {}):
                pats.add(synq.short(synq.pat_head(alt)))
        tn = synq.find_fn(PKG, "type_name", self_ty="PkgResolver")
        kinds = set()
        mt = synq.find_match(tn.body, "TypeDefKind::")
        for arm in synq.arms(mt):
            if any(render(strip_ref(mc["args"][1])) == "ASYNC_CORE_DIR" for mc in synq.method_calls(arm.body, "qualify_package") if len(mc["args"]) == 2):
                kinds |= {synq.short(h_) for h_ in arm.heads}
        rep.floor("R30.5", "type kinds whose MoonBit type lives in async-core", len(kinds), 2)
        rep.ob("R30.5", "the kinds type_name places in async-core are the kinds preprocess scans the world for",
               bool(kinds) and kinds <= pats, f"type_name: {sorted(kinds)}; world scan: {sorted(pats)}", tn.loc())
        # references made from async_support.rs / lib.rs generator code are under an async flag
        n = 0
        for h in c.fns.values():
            if h.npath.startswith("crate::pkg::"):
                continue
            for x in h.calls("PkgResolver::qualify_package"):
                o = h.origin(x.args[2])
                if not (o.get("kind") == "const" and str(o.get("def", "")).endswith("ASYNC_CORE_DIR")):
                    continue
                n += 1
                nm = h.npath.split("::")[-1]
                rep.ob("R30.5", f"{nm}: the reference to async-core is made only when the runtime is required",
                       under_async(c, h, x.bb), "no dominating is_async / endpoint-registration test in the function or in all of its callers",
                       h.loc(x.bb))
        rep.floor("R30.5", "references to async-core from generator code", n, 5)
    rep.guard("R30.5", "async-core exists when referenced", r5)

    # ================================================================================================ R30.6
    def r6():
        for fn_name, has_gen, reg_map, always in EMIT:
            f = c.method("MoonBit", fn_name, trait="WorldGenerator")
            w = f.calls("MoonBit::write_moon_pkg")
            if has_gen:
                fin = f.calls("InterfaceGenerator::finish")
                rep.ob("R30.6", f"{fn_name}: the generator is finished exactly once", len(fin) == 1, f"{len(fin)}", f.loc())
                users = [x for x in f.calls() if x.args and x.arg_types and "InterfaceGenerator" in x.arg_types[0] and not x.matches("InterfaceGenerator::finish")]
                for x in w:
                    rep.ob("R30.6", f"{fn_name}: moon.pkg.json is rendered after the package's generator finished (all imports recorded)",
                           len(fin) == 1 and f.dominates(fin[0].bb, x.bb) and fin[0].bb != x.bb, "", f.loc(x.bb))
                    late = [u for u in users if u.bb in f.reachable(x.bb) and u.bb != x.bb]
                    rep.ob("R30.6", f"{fn_name}: no code is generated for the package after its moon.pkg.json", not late,
                           f"{[mir.norm(u.callee) for u in late]}", f.loc(x.bb))
            if always:
                for x in w:
                    rep.ob("R30.6", f"{fn_name}: moon.pkg.json is rendered on every returning path", f.all_paths_pass(0, f.returns(), [x.bb])
                           and not f.in_cycle(x.bb), "", f.loc(x.bb))
            else:
                # export packages: skipped only under --ignore-stub (the user keeps the file); by default it is rendered
                for x in w:
                    ge = [g_ for g_ in f.guard_edges(x.bb) if not f.in_cycle(g_[0])]      # loop exits are not skips
                    good = []
                    for sw, vals, o in ge:
                        neg = False
                        while o.get("kind") == "un" and o.get("op") == "Not":
                            o = o["a"]
                            neg = not neg
                        flag_false = (is_true_edge(vals) and neg) or (vals == [0] and not neg)
                        good.append(o.get("kind") == "arg" and fields_of(o)[-2:] == [".opts", ".ignore_stub"] and flag_false)
                    rep.ob("R30.6", f"{fn_name}: moon.pkg.json is skipped only when opts.ignore_stub is set", bool(good) and all(good),
                           f"{len(ge)} guarding tests, {sum(good)} of them `!ignore_stub`", f.loc(x.bb))
                    tg = [f.switch_targets(sw) for sw, vals, o in ge]
                    ent = None
                    for (sw, vals, o), m in zip(ge, tg):
                        ent = m["else"] if vals == ["else"] else m.get(vals[0])
                    rep.ob("R30.6", f"{fn_name}: without --ignore-stub every returning path renders moon.pkg.json",
                           ent is not None and f.all_paths_pass(ent, f.returns(), [x.bb]) and not f.in_cycle(x.bb), "", f.loc(x.bb))
            # the rendered buffer is the one pushed as moon.pkg.json: a push whose data derives from the buffer follows
            for x in w:
                buf = peel(f, f.origin(x.args[1]))
                after = [p for p in f.calls("Files::push") if f.dominates(x.bb, p.bb)]
                ok = False
                for p in after:
                    d = peel(f, f.origin(p.args[2]), extra=["str::<impl str>::as_bytes", "String::as_bytes", "Source>::deref"])
                    if d.get("kind") == "call" and buf.get("kind") == "call" and d["call"].bb == buf["call"].bb:
                        ok = True
                rep.ob("R30.6", f"{fn_name}: the rendered moon.pkg.json buffer is pushed", ok, "", f.loc(x.bb))
        fin = c.method("MoonBit", "finish", trait="WorldGenerator")
        w = fin.calls("MoonBit::write_moon_pkg")
        rep.ob("R30.6", "finish: the link package's moon.pkg.json is rendered on every returning path, with link = true",
               len(w) == 1 and fin.all_paths_pass(0, fin.returns(), [w[0].bb]) and fin.origin(w[0].args[3]).get("v") == 1, "", fin.loc())
        # the driver (core's provided WorldGenerator::generate) calls the callbacks in the order the above relies on
        core = mir.load("ws", "wit_bindgen_core", "rlib")
        gen = core.fn("WorldGenerator::generate")
        rep.saw(gen)

        def one(nm):
            cs = gen.calls("WorldGenerator::" + nm)
            if len(cs) != 1:
                raise mir.AnchorMissing(f"call of {nm} in WorldGenerator::generate: {len(cs)}")
            return cs[0]
        fi, fin_ = one("finish_imports"), one("finish")
        pre = one("preprocess")
        for nm in ("import_interface", "import_types", "import_funcs"):
            x = one(nm)
            rep.ob("R30.6", f"generate: {nm} is never called after finish_imports (the world package's moon.pkg.json is final)",
                   x.bb not in gen.reachable(fi.bb) or x.bb == fi.bb, "", gen.loc(x.bb))
        for nm in ("import_interface", "import_types", "import_funcs", "finish_imports", "export_funcs", "export_interface"):
            x = one(nm)
            rep.ob("R30.6", f"generate: {nm} is never called after finish (the link package's moon.pkg.json is final)",
                   x.bb not in gen.reachable(fin_.bb), "", gen.loc(x.bb))
            rep.ob("R30.6", f"generate: preprocess precedes {nm}", gen.dominates(pre.bb, x.bb), "", gen.loc(x.bb))
        rep.ob("R30.6", "generate: finish_imports is called on every path that goes on to the exports",
               gen.all_paths_pass(0, [one("export_funcs").bb, one("export_interface").bb, fin_.bb], [fi.bb]) and not gen.in_cycle(fi.bb), "", gen.loc(fi.bb))
        errs = [x.bb for x in gen.calls("FromResidual>::from_residual")]
        rep.ob("R30.6", "generate: every return that is not an error propagation passes finish", not gen.in_cycle(fin_.bb) and
               gen.all_paths_pass(0, gen.returns(), [fin_.bb] + errs) and not gen.all_paths_pass(0, gen.returns(), errs or [-1]),
               "", gen.loc(fin_.bb))
    rep.guard("R30.6", "ordering", r6)

    # ================================================================================================ R30.7
    def r7():
        import json
        import os
        from lib import facts
        qual = re.compile(r"@[A-Za-z_][A-Za-z0-9_/-]*\.")
        nfiles = 0
        for rel in (LIB, PKG, ASY, "crates/moonbit/src/ffi.rs"):
            ast = synq.load(rel)
            nfiles += 1
            spans = [(it["sp"][0], it["sp"][2]) for it in ast.get("items", []) if it.get("k") == "mod" and it.get("name") == "tests"]
            text = open(os.path.join(facts.REPO, rel), encoding="utf-8").read().splitlines()
            hits = []
            for n, ln in enumerate(text, 1):
                if any(a <= n <= b for a, b in spans) or ln.lstrip().startswith("//"):
                    continue
                if qual.search(ln):
                    hits.append(qual.search(ln).group(0))
            lits = [x["v"] for x in synq.strings(ast) if not any(a <= synq.line(x) <= b for a, b in spans) and qual.search(x["v"])]
            rep.ob("R30.7", f"{rel.split('/')[-1]}: generator text never spells a package qualifier `@pkg.` itself "
                   "(every reference goes through qualify_package and is recorded)", not hits and not lits,
                   f"literal qualifiers {sorted(set(hits + [qual.search(v).group(0) for v in lits]))}", rel)
        rep.floor("R30.7", "generator source files scanned for literal qualifiers", nfiles, 4)
        # the bundled async-core sources: every alias they use is declared once in the bundled moon.pkg.json
        inc = {}
        for it in synq.items_of(ASY, ("const",)):
            e = it.get("e") or {}
            if e.get("k") == "macro" and synq.short(e.get("name", "")) == "include_str" and e.get("args") and lit(e["args"][0]):
                inc[it["name"]] = lit(e["args"][0])
        rep.floor("R30.7", "bundled async-core files (include_str!)", len(inc), 13)
        base = os.path.join(facts.REPO, os.path.dirname(ASY))
        pkgs = [v for v in inc.values() if v.endswith("moon.pkg.json")]
        rep.ob("R30.7", "async-core bundles exactly one moon.pkg.json", len(pkgs) == 1, f"{pkgs}", ASY)
        if len(pkgs) != 1:
            return
        try:
            decl = json.load(open(os.path.join(base, pkgs[0])))
        except Exception as e:  # noqa: BLE001
            rep.ob("R30.7", "the bundled moon.pkg.json is valid JSON", False, repr(e), ASY)
            return
        imps = decl.get("import", [])
        aliases = [(i.get("alias") or i["path"].split("/")[-1]) if isinstance(i, dict) else i.split("/")[-1] for i in imps]
        rep.ob("R30.7", "async-core: import aliases are unique", len(aliases) == len(set(aliases)), f"{aliases}", pkgs[0])
        paths = [i["path"] if isinstance(i, dict) else i for i in imps]
        rep.ob("R30.7", "async-core imports only the MoonBit core library (nothing generated, nothing missing from the output)",
               all(p_.startswith("moonbitlang/core/") for p_ in paths), f"{paths}", pkgs[0])
        used = {}
        for cn, relp in sorted(inc.items()):
            if not relp.endswith(".mbt"):
                continue
            for ln in open(os.path.join(base, relp), encoding="utf-8").read().splitlines():
                if ln.lstrip().startswith("//"):
                    continue
                for m_ in qual.finditer(ln):
                    used.setdefault(m_.group(0)[1:-1], set()).add(relp.split("/")[-1])
        rep.floor("R30.7", "package aliases used by the bundled async-core sources", len(used), 3)
        for a_, where in sorted(used.items()):
            rep.ob("R30.7", f"async-core: alias `@{a_}.` used by the bundled sources is declared in its moon.pkg.json", a_ in aliases,
                   f"used in {sorted(where)}; declared {aliases}", pkgs[0])
        # and the pushed moon.pkg.json is that file
        ef = synq.find_fn(ASY, "emit_runtime_files", self_ty="AsyncSupport")
        pk = [cn for cn, v in inc.items() if v.endswith("moon.pkg.json")][0]
        ok = False
        for mcall in synq.method_calls(ef.body, "push"):
            a0 = strip_ref(mcall["args"][0]) if mcall["args"] else None
            if isinstance(a0, dict) and a0.get("k") == "macro" and (synq.Fmt(a0).template or "").endswith("/moon.pkg.json"):
                ok = render(mcall["args"][1]).startswith(pk + ".")
        rep.ob("R30.7", "emit_runtime_files pushes the bundled moon.pkg.json as async-core's package file", ok, "", ef.loc())
    rep.guard("R30.7", "no reference bypasses the import table", r7)

    # ================================================================================================ R30.8
    def r8():
        def this_is_gen(h, q):
            o = peel(h, h.origin(q.args[1]))
            return o.get("kind") == "arg" and fields_of(o)[-2:] == [".opts", ".gen_dir"]

        def quals_in(h, fcall):
            """qualify_package calls whose result is formatted by `fcall`"""
            out = []
            for a in fmt_display_args(h, {"kind": "call", "call": fcall}) or []:
                o = peel(h, a)
                if o.get("kind") == "call" and o["call"].matches("PkgResolver::qualify_package"):
                    out.append(o["call"])
            return out

        nins = 0
        used_q = set()
        for h in c.fns.values():
            for x in h.calls(mp("insert")):
                if ".export" not in fields_of(h.origin(x.args[0])):
                    continue
                nins += 1
                nm = h.npath.split("::")[-1]
                v = h.origin(x.args[2])
                fs = []
                if v.get("kind") == "agg":
                    for op in v["rv"].get("ops", []):
                        o = peel(h, h.origin(op))
                        if o.get("kind") == "call" and o["call"].matches("fmt::format"):
                            fs.append(o["call"])
                rep.ob("R30.8", f"{nm}: the glue recorded for the link package is one formatted string", len(fs) == 1, f"{len(fs)}", h.loc(x.bb))
                for fc in fs:
                    qs = quals_in(h, fc)
                    rep.ob("R30.8", f"{nm}: link-package glue qualifies the callee's package", len(qs) >= 1, "no qualifier in the glue", h.loc(fc.bb))
                    for q in qs:
                        used_q.add((h.path, q.bb))
                        rep.ob("R30.8", f"{nm}: qualifiers inside link-package glue are computed relative to gen_dir "
                               "(the package whose ffi.mbt the glue is written to)", this_is_gen(h, q),
                               "the reference is recorded in another package's import table than the one the text lands in", h.loc(q.bb))
        rep.floor("R30.8", "insertions into MoonBit.export", nins, 4)
        ngen = 0
        for h in c.fns.values():
            for q in h.calls("PkgResolver::qualify_package"):
                if this_is_gen(h, q):
                    ngen += 1
                    rep.ob("R30.8", f"{h.npath.split('::')[-1]}: a qualifier computed relative to gen_dir is used in link-package glue only",
                           (h.path, q.bb) in used_q, "its text goes somewhere else than MoonBit.export", h.loc(q.bb))
        rep.floor("R30.8", "qualifiers computed relative to gen_dir", ngen, 4)
        # finish writes the recorded glue into {gen_dir}/ffi.mbt
        sf = synq.find_fn(LIB, "finish", self_ty="MoonBit", trait="WorldGenerator")
        loops = [n for n in synq.walk(sf.body) if n.get("k") == "for" and unraw(render(n["iter"])).startswith("self.export.")]
        rep.ob("R30.8", "finish: one loop over MoonBit.export", len(loops) == 1, f"{len(loops)}", sf.loc())
        dests = set()
        for lp in loops:
            for x in synq.fmts(lp["body"]):
                if x.dest is not None:
                    dests.add(render(strip_ref(x.dest)))
        ok = False
        for mcall in synq.method_calls(sf.body, "push"):
            a0 = strip_ref(mcall["args"][0]) if mcall["args"] else None
            if isinstance(a0, dict) and a0.get("k") == "macro" and synq.short(a0["name"]) == "format":
                fm = synq.Fmt(a0)
                hs = fm.hole_exprs()
                if re.sub(r"\{[^{}]*\}", "{}", fm.template or "") == "{}/ffi.mbt" and len(hs) == 1 and hs[0][2] is not None and \
                        unraw(render(hs[0][2])).endswith("opts.gen_dir"):
                    data = render(mcall["args"][1])
                    ok = len(dests) == 1 and re.search(r"\b%s\b" % re.escape(next(iter(dests))), data) is not None
        rep.ob("R30.8", "finish: the recorded glue is written to <gen_dir>/ffi.mbt", ok, f"buffers {sorted(dests)}", sf.loc())
    rep.guard("R30.8", "link-package glue lands where its imports are recorded", r8)


ASYNC_TESTS = ["AsyncExportPlan::is_async", "AsyncImportPlan::is_async", "AsyncExportPlan::signature_is_async",
               "AsyncImportPlan::signature_is_async", "AsyncSupport::register_future_or_stream", "AsyncSupport::is_required"]


def callers_of(c, h):
    pat = h.npath.replace("crate::", "", 1)
    return [(g, x) for g in c.fns.values() for x in g.calls(pat)]


def flag_is_async(c, g, o, depth=0):
    """the bool with origin `o` in `g` is the result of an async-plan test, possibly handed down through bool parameters"""
    if o.get("kind") == "call" and o["call"].matches(ASYNC_TESTS):
        return True
    if o.get("kind") == "arg" and not fields_of(o) and g.locals[o["n"]] == "bool" and depth < 3:
        cs = callers_of(c, g)
        return bool(cs) and all(flag_is_async(c, g2, g2.origin(x.args[o["n"] - 1]), depth + 1) for g2, x in cs)
    return False


def under_async(c, h, bb, depth=0):
    """site `bb` of `h` is reachable only through the true edge of an async-plan / endpoint-registration test, directly,
    through a bool parameter that every caller fills with such a test, or because every caller's call site is."""
    for sw, vals, o in h.guard_edges(bb):
        neg = False
        while o.get("kind") == "un" and o.get("op") == "Not":
            o = o["a"]
            neg = not neg
        if (is_true_edge(vals) != neg) and flag_is_async(c, h, o):
            return True
    if depth >= 2:
        return False
    cs = callers_of(c, h)
    return bool(cs) and all(under_async(c, g, x.bb, depth + 1) for g, x in cs)
