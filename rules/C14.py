"""C14 — every backend's scalar conversions implement the canonical ABI mapping (proof over the emitted templates)."""
from lib import convsem, mir, synq
from lib.convsem import SCALAR_INSTRUCTIONS, WIT, Unknown

QUICK = ["rust", "c", "moonbit"]
MORE = ["cpp", "csharp", "go", "d"]

CLAIM = dict(
    level="other", engine="synfacts+convsem", design="DESIGN.md §5 C14, §3 E4",
    technique="per backend, the string template each scalar instruction's `emit` arm pushes is extracted from the syntax "
              "tree, read with a per-language expression reader and evaluated by abstract interpretation over a "
              "bit-provenance domain (each result bit = 0, 1, OR of input bits, its negation, or unknown); the abstract "
              "result must equal the canonical-ABI mapping for all inputs symbolically",
    text="Finite obligation set: 24 scalar instructions x 7 backends (3 in the quick tier). Each has an explicit `emit` arm "
         "and its conversion template is proved equal to the canonical mapping (sign/zero extension on lowering, low "
         "bits with the type's own signedness on lifting over all 2^32 / 2^64 core inputs, bit-exact identity for 32/64-bit "
         "integers, floats and char, 0/1 and `!= 0` for bool), with the operand typed by the backend's own WIT->language "
         "table. Trusted: the per-language conversion table of lib/convsem.py, wasm32 data model, default (unchecked) C# "
         "context, operands substituted as atoms. Level `other` rather than `proof` because one obligation (Rust "
         "BoolFromI32 on core values >= 256) is an open, listed finding; all others are discharged symbolically.",
    note="syn")

NEEDED_AS = {"AsI32": ("i32", ["S32", "U32", "S16", "U16", "S8", "U8", "Char"]), "AsI64": ("i64", ["S64", "U64"]),
             "AsF32": ("f32", ["F32"]), "AsF64": ("f64", ["F64"])}


def scalar_arms(rep, be):
    d = convsem.BACKENDS[be]
    rel = d["emit"]
    f = synq.find_fn(rel, "emit")
    rep.saw(f"{rel}::emit")
    rep.saw(file=rel)
    m = convsem.instruction_match(f)
    arms = synq.arms(m)
    helpers = convsem.cached_helpers(be)
    types, wasm = convsem.backend_tables(be)
    rep.saw(f"{d['types'][0]}::{d['types'][1]}")
    rep.saw(f"{d['wasm'][0]}::{d['wasm'][1]}")
    n_arm = n_eval = 0
    for ins, (direction, wit, core) in SCALAR_INSTRUCTIONS.items():
        mine = [a for a in arms if any(synq.short(h) == ins and "Instruction::" in h for h in a.heads)]
        wild = any("_" in a.heads for a in arms)
        ok = len(mine) == 1 and mine[0].guard is None
        rep.ob("R14.1", f"{be}: {ins} has one explicit, unguarded arm in emit", ok,
               ("swallowed by a wildcard arm" if wild and not mine else f"{len(mine)} arm(s)" + (", guarded" if mine and mine[0].guard else "")),
               f.loc(mine[0].node if mine else m))
        if not mine:
            rep.ob("R14.2", f"{be}: {ins} is the canonical {direction} of {wit.lower()}", False, "no arm to evaluate", f.loc(m))
            continue
        n_arm += 1
        try:
            tmpl = convsem.emit_template(f, mine[0], ins)
            v = convsem.check_scalar(be, ins, tmpl, helpers)
            n_eval += 1
        except Unknown as e:
            v = convsem.Verdict(False, f"template could not be extracted: {e}")
        rep.ob("R14.2", f"{be}: {ins} is the canonical {direction} of {wit.lower()}", v.ok,
               f"`{tmpl.show()}`: {v.detail}" if v.ok else v.detail, f.loc(mine[0].node))
    # nothing else in emit dispatches on a scalar instruction (an `if let Instruction::X = inst {..; return}` placed
    # before the match would bypass the arm that R14.2 evaluates)
    # patterns inside the match itself are fine: arm heads are R14.1's subject, and a nested `match inst {..}` in an
    # arm body is resolved per alternative by the extractor (R14.2 fails closed if it cannot)
    in_match = {id(n) for n in synq.walk(m)}
    stray = []
    for n in synq.walk(f.body):
        nm = n.get("path") if n.get("k") in ("p_path", "p_tuple_struct", "p_struct") else n.get("name") if n.get("k") == "p_ident" else None
        if nm and synq.short(nm) in SCALAR_INSTRUCTIONS and id(n) not in in_match:
            stray.append((synq.short(nm), n))
    rep.ob("R14.1", f"{be}: scalar instructions are dispatched only by the arms of emit's instruction match", not stray,
           f"also matched at {[f'{nm} (line {synq.line(n)})' for nm, n in stray]}", f.loc(stray[0][1] if stray else m))
    rep.floor("R14.1", f"{be}: scalar instructions with an explicit arm", n_arm, 24)
    rep.floor("R14.2", f"{be}: templates evaluated by convsem", n_eval, 24)


def rust_as_helpers(rep):
    rel = "crates/rust/src/lib.rs"
    h = convsem.cached_helpers("rust")
    fns, info = h["fns"], h["rust_info"]
    rep.saw(f"{rel}::emit_runtime_item")
    rep.saw(f"{rel}::emit_runtime_as_trait")
    rep.saw(file=rel)
    types, _ = convsem.backend_tables("rust")
    g = synq.find_fn(rel, "emit_runtime_as_trait")
    nlisted = 0
    for item, (ty, wits) in NEEDED_AS.items():
        tyarg, lst = info["as_lists"][item]
        rep.ob("R14.3", f"RuntimeItem::{item} emits the as_{ty} trait", tyarg == ty, f"emits as_{tyarg}", g.loc())
        need = [types[w] for w in wits]
        missing = [t for t in need if t not in lst]
        rep.ob("R14.3", f"as_{ty} is implemented for every Rust type whose lowering calls it", not missing,
               f"no impl for {missing}; listed {lst}", g.loc())
        # shape of the generic part (free fn forwards to the trait method, &T forwards to T)
        items = info["as_items"][item]
        free = [it for c, it in items if it.get("k") == "fn" and it["sig"]["name"] == "as_" + ty]
        okf = False
        if len(free) == 1:
            ps = free[0]["sig"]["params"]
            st = free[0]["body"]["stmts"]
            if len(ps) == 1 and len(st) == 1 and st[0].get("k") == "expr_stmt" and not st[0].get("semi"):
                e = st[0]["e"]
                okf = e.get("k") == "mcall" and e["method"] == "as_" + ty and not e["args"] and \
                    e["recv"].get("k") == "path" and e["recv"]["path"] == ps[0]["pat"]["name"] and free[0]["sig"]["ret"] == ty
        rep.ob("R14.3", f"free fn as_{ty}(t) forwards to t.as_{ty}() and returns {ty}", okf, "", g.loc())
        refimpl = [it for c, it in items if it.get("k") == "impl" and it["self_ty"].replace(" ", "").startswith("&")]
        okr = False
        if len(refimpl) == 1:
            ms = [x for x in refimpl[0]["items"] if x.get("k") == "fn" and x["sig"]["name"] == "as_" + ty]
            if len(ms) == 1 and len(ms[0]["body"]["stmts"]) == 1:
                e = ms[0]["body"]["stmts"][0].get("e", {})
                okr = e.get("k") == "mcall" and e["method"] == "as_" + ty and not e["args"] and \
                    e["recv"].get("k") == "unary" and e["recv"]["op"] == "*" and synq.render(e["recv"]["e"]) == "self"
        rep.ob("R14.3", f"impl As{ty.upper()} for &T forwards to (*self).as_{ty}()", okr, "", g.loc())
        body = fns["as_" + ty]
        rep.ob("R14.3", f"every as_{ty} impl body is `self as {ty}`", body["body"] == ("cast", ty, ("var", "self")),
               f"body is `{body['text']}`", g.loc())
        # each listed source type: `self as ty` must be the bit-exact / extending conversion of that type
        for src in lst:
            nlisted += 1
            try:
                sty, dty = convsem.ltype("rust", src), convsem.ltype("rust", ty)
                r = convsem.ev(fns["as_" + ty]["body"], convsem.Ctx("rust", None, h), {"self": convsem.symbolic(sty)})
                r = convsem.convert("rust", r, dty, explicit=False)
                if sty.kind == "int" and dty.kind == "int" and sty.width <= dty.width:
                    want = convsem._ext_bits(sty.width, sty.signed, dty.width)
                elif sty.kind in ("char", "float") and sty.width == dty.width and (sty.kind == "float") == (dty.kind == "float"):
                    want = [convsem.IN(k) for k in range(dty.width)]
                else:
                    want = None
                ok = want is not None and r.bits == want
                detail = f"{src} as {ty}: {convsem.show_bits(r.bits)}" + ("" if ok else " — not a lossless extension / reinterpretation of the source type")
            except Unknown as e:
                ok, detail = False, f"not discharged: {e}"
            rep.ob("R14.3", f"as_{ty} for {src} sign/zero-extends or keeps the bits of a {src}", ok, detail, g.loc())
    rep.floor("R14.3", "source types listed for the as_* traits", nlisted, 12)
    # bool_lift / char_lift on their own (the template's argument cast is judged by R14.2)
    for name, pty, want_desc in (("bool_lift", "u8", "val != 0"), ("char_lift", "u32", "the scalar value val")):
        try:
            fn = fns[name]
            sty = convsem.ltype("rust", pty)
            okp = [p[1] for p in fn["params"]] == [pty]
            r = convsem.ev(("call", name, [], [("var", "x")]), convsem.Ctx("rust", None, h), {"x": convsem.symbolic(sty)})
            want = [("or", frozenset(range(8)))] if name == "bool_lift" else [convsem.IN(k) for k in range(32)]
            ok = okp and r.bits == want and r.ty.name == fn["ret"] == ("bool" if name == "bool_lift" else "char")
            detail = f"{name}({pty}) -> {r.ty.name}: {convsem.show_bits(r.bits)}"
        except Unknown as e:
            ok, detail = False, f"not discharged: {e}"
        rep.ob("R14.3", f"{name} computes {want_desc} in release builds and only adds traps in debug builds", ok, detail, g.loc())


def run(rep, tier):
    rep.describe(
        "other",
        "For each backend (rust, c, moonbit in the quick tier; plus cpp, csharp, go, d in the thorough tier) and each of the "
        "24 scalar instructions of abi::Instruction (12 lowerings, 12 liftings): (R14.1) `emit` has exactly one explicit, "
        "unguarded arm for it; (R14.2) the template that arm pushes — extracted from format!/push_str/closure code with "
        "the operand as a hole — evaluates, under the target language's conversion rules, to the canonical mapping for "
        "ALL operand values (bit-provenance abstract interpretation: no enumeration; concrete inputs are only used to "
        "print a counter-example); operand and result types come from the backend's own WIT->language and WasmType->"
        "language tables, and a value of an n-bit WIT type stored in a wider language type (MoonBit s8/s16/u16) is "
        "assumed in range on lowering; (R14.3) the Rust runtime helpers the templates call (as_i32/as_i64/as_f32/as_f64, "
        "bool_lift, char_lift) are parsed from the text the generator emits and are `self as T` for source types for "
        "which that is a lossless extension, `val != 0`, and the identity on the scalar value. NOT decided: validity "
        "checks on char/bool (traps), operator precedence when an operand is not atomic, whether the generated code "
        "type-checks beyond the conversions modelled, loads/stores (C01) and anything at run time.",
        trusted_base=["lib/convsem.py primitive table (one language rule per entry, listed in coverage.primitive_table)",
                      "wasm32 data model (32-bit pointers/size_t/usize/uintptr/nint, little endian)",
                      "C# default unchecked context; C/C++ two's-complement narrowing",
                      "syn parse of the generator sources; the backends' own type tables"],
        assumptions=["every operand string substituted into a template is an atom (identifier or parenthesised)",
                     "on lowering, the operand holds a valid value of its WIT type"])
    rep.rule("R14.1", "every scalar instruction has one explicit unguarded arm in each backend's Bindgen::emit")
    rep.rule("R14.2", "convsem discharges the arm's template against the canonical-ABI mapping")
    rep.rule("R14.3", "Rust as_*/bool_lift/char_lift helper templates are the conversions the templates rely on")
    rep.extra["primitive_table"] = convsem.primitive_table()
    variants = [v["name"] for v in mir.load("ws", "wit_bindgen_core", "rlib").adt("abi::Instruction")["variants"]]
    scal = [v for v in variants if v in SCALAR_INSTRUCTIONS]
    rep.ob("R14.1", "the 24 scalar instructions enumerated are exactly abi::Instruction's scalar conversion variants",
           sorted(scal) == sorted(SCALAR_INSTRUCTIONS) and not [v for v in variants if v not in SCALAR_INSTRUCTIONS and
                                                               any(v.startswith(p) for p in ("I32From", "I64From", "CoreF")) or
                                                               (v not in SCALAR_INSTRUCTIONS and (v.endswith("FromI32") or v.endswith("FromI64") or "FromCoreF" in v))],
           f"{sorted(set(SCALAR_INSTRUCTIONS) ^ set(scal))}", "crates/core/src/abi.rs")
    backends = QUICK + (MORE if tier == "thorough" else [])
    for be in backends:
        rep.guard("R14.2", f"backend {be}", lambda be=be: scalar_arms(rep, be))
    rep.guard("R14.3", "rust runtime helpers", lambda: rust_as_helpers(rep))
